"""Core types shared by all checks: cases are plain data, verdicts are exceptions."""
import hashlib
import json


class Violation(Exception):
    """The oracle rejected the behaviour of the real code on this case."""

    def __init__(self, kind, detail=''):
        super().__init__('%s: %s' % (kind, detail))
        self.kind = kind
        self.detail = detail if isinstance(detail, str) else repr(detail)


class HarnessError(Exception):
    """The harness itself is broken (never a property violation)."""


class Info(object):
    """Result of one executed case."""

    __slots__ = ('nontrivial', 'labels')

    def __init__(self, nontrivial=False, labels=()):
        self.nontrivial = bool(nontrivial)
        self.labels = tuple(labels)


# ---------------------------------------------------------------- JSON with bytes


_RESERVED = ('$b', '$s', '$f', '$r', '$d')


def _enc(o):
    if isinstance(o, (bytes, bytearray)):
        return {'$b': bytes(o).hex()}
    if isinstance(o, dict):
        if len(o) == 1 and next(iter(o)) in _RESERVED:
            # a real one-key dict whose key collides with an encoding tag
            k, v = next(iter(o.items()))
            return {'$d': [str(k), _enc(v)]}
        return {str(k): _enc(v) for k, v in o.items()}
    if isinstance(o, (list, tuple)):
        return [_enc(v) for v in o]
    if isinstance(o, (set, frozenset)):
        return {'$s': sorted((_enc(v) for v in o), key=repr)}
    if isinstance(o, float):
        if o != o or o in (float('inf'), float('-inf')):
            return {'$f': repr(o)}
        return o
    if o is None or isinstance(o, (str, int, bool)):
        return o
    return {'$r': repr(o)}


def _dec(o):
    if isinstance(o, dict):
        if len(o) == 1:
            if '$b' in o:
                return bytes.fromhex(o['$b'])
            if '$s' in o:
                return frozenset(_dec(v) if not isinstance(v, list) else tuple(_dec(x) for x in v)
                                 for v in o['$s'])
            if '$f' in o:
                return float(o['$f'])
            if '$d' in o:
                return {o['$d'][0]: _dec(o['$d'][1])}
        return {k: _dec(v) for k, v in o.items()}
    if isinstance(o, list):
        return [_dec(v) for v in o]
    return o


def dumps(case, **kw):
    return json.dumps(_enc(case), sort_keys=True, ensure_ascii=True, **kw)


def loads(text):
    return _dec(json.loads(text))


def roundtrip(case):
    """Normalise a generated case to exactly what a replay file would give."""
    return loads(dumps(case))


def fingerprint(case):
    return hashlib.sha1(dumps(case).encode()).digest()[:8]


class Suite(object):
    """One generated-input search with its oracle.

    Subclasses set `name`, `budget` ({'quick': n, 'thorough': n}) and implement
    either `strategy(tier)` (a Hypothesis strategy of plain-data cases) or
    `cases(tier)` (a deterministic iterable, enumerated exhaustively and sharded
    by index), and `run(case) -> Info`, raising Violation when the oracle fails.
    """

    name = '?'
    budget = {'quick': 100, 'thorough': 1000}
    exhaustive = False
    # max shards this suite may use (None = all)
    max_shards = None

    def strategy(self, tier):
        return None

    def cases(self, tier):
        return None

    def run(self, case):
        raise NotImplementedError

    def setup(self):
        """Called once per worker process before the first case."""

    def teardown(self):
        """Called once per worker process after the last case."""


class local_timezone(object):
    """Run a block with the process time zone set to a POSIX TZ string (no tz database needed), e.g. 'XXX5'
    (UTC-5) or 'YYY-3' (UTC+3).  HTTP dates are GMT: nothing a check observes may depend on the server's zone."""

    def __init__(self, tz):
        self.tz = tz

    def __enter__(self):
        import os
        import time
        self.old = os.environ.get('TZ')
        if self.tz:
            os.environ['TZ'] = self.tz
            time.tzset()

    def __exit__(self, *a):
        import os
        import time
        if self.tz:
            if self.old is None:
                os.environ.pop('TZ', None)
            else:
                os.environ['TZ'] = self.old
            time.tzset()
        return False
