"""Reference model for C11: media-range matching written from the documented rule.

Works on *structured* values only (never parses header text):

    media type  = {'t': main, 's': sub, 'params': {lower-case name: value}}
    media range = the same plus 'q': float   (main / sub may be '*')

Documented rule (falcon.mediatypes.quality docstring, RFC 9110 section 12.5.1): a range matches
a media type when main types are equal or the range has a wildcard, likewise for subtypes,
and every parameter name present on both sides carries the same value.  The fitness of a match
is, in decreasing priority: exact main type over wildcard, exact subtype over wildcard, the
two parameter name sets are equal, number of shared parameters, and finally q.  The quality of
a media type is the q of its fittest matching range (0.0 when no range matches); the best match
of a candidate list is the first candidate with the highest quality, provided that is > 0.
"""


def specificity(rng, mt):
    """(main, sub, exact-params, n-shared) or None when the range does not match."""
    if rng['t'] == '*':
        main = 0
    elif rng['t'] == mt['t']:
        main = 1
    else:
        return None
    if rng['s'] == '*':
        sub = 0
    elif rng['s'] == mt['s']:
        sub = 1
    else:
        return None
    rp = rng['params']
    mp = mt['params']
    shared = [n for n in rp if n in mp]
    for n in shared:
        if rp[n] != mp[n]:
            return None
    exact = 1 if sorted(rp) == sorted(mp) else 0
    return (main, sub, exact, len(shared))


def quality(ranges, mt):
    best_spec = None
    best_q = 0.0
    for rng in ranges:
        sp = specificity(rng, mt)
        if sp is None:
            continue
        if best_spec is None or sp > best_spec or (sp == best_spec and rng['q'] > best_q):
            best_spec = sp
            best_q = rng['q']
    return best_q


def best_index(ranges, candidates):
    """Index of the first candidate with the highest non-zero quality, or None."""
    best = None
    best_q = 0.0
    for i, mt in enumerate(candidates):
        q = quality(ranges, mt)
        if q > best_q:
            best = i
            best_q = q
    return best


def matching_specificities(ranges, mt):
    return [sp for sp in (specificity(r, mt) for r in ranges) if sp is not None]


def resolve(model, text, structured, default_text, default_structured):
    """Handler designated by a mapping for a content type.

    model: ordered dict  key text -> (key as structured media type, handler)
    text / structured: the content type as text (None allowed) and as a list of structured
        ranges (None when the text is not a well-formed range list)
    Returns the handler or None (= unsupported).
    Rule (falcon.media.Handlers): a missing, empty or '*/*' type means the default type; an
    exact key wins; otherwise the keys are the candidates (in insertion order) and the content
    type is the range list.
    """
    if not text or text == '*/*':
        text, structured = default_text, default_structured
    if text in model:
        return model[text][1]
    if not text or structured is None:
        return None
    keys = list(model)
    i = best_index(structured, [model[k][0] for k in keys])
    if i is None:
        return None
    return model[keys[i]][1]
