"""Reference reading of a form-urlencoded query string (C08).  Shares no code with falcon.

Written from the property statement: fields split on '&' and the first '=', names and values
plus- and percent-decoded as UTF-8 (malformed escapes literal, undecodable bytes U+FFFD),
repeated names collected in order, blank values kept/dropped per option, values split on
literal commas only in csv mode.
"""
import urllib.parse

_HEX = frozenset(b'0123456789abcdefABCDEF')


def dec(text):
    b = text.replace('+', ' ').encode('utf-8')
    out = bytearray()
    i, n = 0, len(b)
    while i < n:
        if b[i] == 0x25 and i + 2 < n and b[i + 1] in _HEX and b[i + 2] in _HEX:
            out.append(int(b[i + 1:i + 3], 16))
            i += 3
        else:
            out.append(b[i])
            i += 1
    return bytes(out).decode('utf-8', 'replace')


class Expected(object):
    """values: name -> list of str (>= 1 item, order of appearance);
    shape: name -> 'scalar' | 'list' | 'either';
    vanished: names all of whose occurrences were comma-only values emptied by blank dropping."""

    def __init__(self):
        self.values = {}
        self.shape = {}
        self.vanished = set()

    def last(self, name):
        return self.values[name][-1]


def parse(qs, keep_blank, csv):
    groups = {}
    order = []
    for field in qs.split('&'):
        eq = field.find('=')
        name, raw = (field, '') if eq < 0 else (field[:eq], field[eq + 1:])
        if raw == '' and (not keep_blank or name == ''):
            continue  # blank value dropped; a field with neither name nor value never counts
        name = dec(name)
        if csv and ',' in raw:
            vals = [dec(e) for e in raw.split(',') if keep_blank or e != '']
            split = True
        else:
            vals = [dec(raw)]
            split = False
        g = groups.get(name)
        if g is None:
            g = groups[name] = {'vals': [], 'fields': 0, 'split': False, 'emptied': False}
            order.append(name)
        g['vals'].extend(vals)
        g['fields'] += 1
        g['split'] = g['split'] or split
        g['emptied'] = g['emptied'] or (split and not vals)
    exp = Expected()
    for name in order:
        g = groups[name]
        if not g['vals']:
            exp.vanished.add(name)
            continue
        exp.values[name] = g['vals']
        if g['emptied'] and len(g['vals']) == 1:
            # 'a=,&a=1' with blanks dropped: whether the emptied occurrence still makes the
            # name "repeated" is not defined by the documentation -> shape not asserted
            exp.shape[name] = 'either'
        elif g['fields'] == 1 and not g['split']:
            exp.shape[name] = 'scalar'
        else:
            exp.shape[name] = 'list'
    return exp


def parse_stdlib(qs, keep_blank):
    """csv=False reading via urllib.parse.parse_qsl; the single documented difference is that
    falcon drops a field with empty name and empty value."""
    pairs = urllib.parse.parse_qsl(qs, keep_blank_values=keep_blank, encoding='utf-8',
                                   errors='replace', separator='&')
    out = {}
    for k, v in pairs:
        if k == '' and v == '':
            continue
        out.setdefault(k, []).append(v)
    return {k: (v[0] if len(v) == 1 else v) for k, v in out.items()}


def compare(got, exp):
    """Return None when the mapping `got` is the reading `exp`, else a description."""
    if not isinstance(got, dict):
        return 'not a dict: %r' % (got,)
    for name, value in got.items():
        if not isinstance(name, str):
            return 'non-str key %r' % (name,)
        if isinstance(value, list):
            if not all(type(x) is str for x in value):
                return 'non-str list item under %r: %r' % (name, value)
        elif type(value) is not str:
            return 'value under %r is %r' % (name, value)
        if name in exp.vanished:
            if value != []:
                return 'name %r has no value left after blank dropping but maps to %r' % (name, value)
            continue
        if name not in exp.values:
            return 'unexpected name %r -> %r' % (name, value)
    for name, vals in exp.values.items():
        if name not in got:
            return 'missing name %r (expected values %r)' % (name, vals)
        value = got[name]
        shape = exp.shape[name]
        as_list = value if isinstance(value, list) else [value]
        if as_list != vals:
            return 'name %r: got %r, expected values %r' % (name, value, vals)
        if shape == 'scalar' and isinstance(value, list):
            return 'name %r: got list %r for a single un-split occurrence' % (name, value)
        if shape == 'list' and not isinstance(value, list):
            return 'name %r: got scalar %r, expected list %r' % (name, value, vals)
    return None
