"""Generic runner: ./check <ID> <quick|thorough> | ./check <ID> --replay <file>

exit 0  property held on everything explored (KNOWN-FINDING lines allowed)
exit 1  VIOLATION property=<id> replay=<path>
exit 2  harness error (never a verdict)
"""
import hashlib
import importlib
import json
import multiprocessing
import os
import signal
import sys
import time
import traceback

from vf import boot
from vf import core
from vf.core import HarnessError, Info, Violation

ROOT = boot.VERIF_ROOT
NPROC = int(os.environ.get('VERIF_NPROC', '16'))

CHECK_MODULES = {
    'C01': 'vf.checks.c01_router',
    'C02': 'vf.checks.c02_dispatch',
    'C03': 'vf.checks.c03_middleware',
    'C04': 'vf.checks.c04_errors',
    'C05': 'vf.checks.c05_framing',
    'C06': 'vf.checks.c06_equiv',
    'C07': 'vf.checks.c07_streams',
    'C08': 'vf.checks.c08_query',
    'C09': 'vf.checks.c09_headers',
    'C10': 'vf.checks.c10_uri',
    'C11': 'vf.checks.c11_negotiation',
    'C12': 'vf.checks.c12_media',
    'C13': 'vf.checks.c13_multipart',
    'C14': 'vf.checks.c14_readers',
    'C15': 'vf.checks.c15_resp_headers',
    'C16': 'vf.checks.c16_static',
    'C17': 'vf.checks.c17_ws_protocol',
    'C18': 'vf.checks.c18_ws_buffer',
    'C19': 'vf.checks.c19_concurrency',
    'C20': 'vf.checks.c20_cors',
}


# ---------------------------------------------------------------- environment matrix
# A property holds in every legitimate environment of the server process, not only in the one the checks happen to be
# started in.  After the main search every check re-runs a slice of itself (Hypothesis budgets divided by ENV_DIV = 16 (32 in the thorough tier), every
# ENV_DIV-th case of each enumeration; cases marked env_case always) in child processes that differ from the parent in exactly one respect.  A violation
# found there is reported like any other; its replay file records the environment and `--replay` re-creates it.
ENVIRONMENTS = [
    ('tz_us_eastern', {'TZ': 'EST5EDT,M3.2.0,M11.1.0'}),
    ('tz_kathmandu', {'TZ': 'NPT-5:45'}),
    ('python_optimize', {'PYTHONOPTIMIZE': '1'}),
    ('int_digits_unlimited', {'PYTHONINTMAXSTRDIGITS': '0'}),
    ('custom_http_methods', {'FALCON_CUSTOM_HTTP_METHODS': 'PURGE,BAN'}),
    ('warnings_are_errors', {'PYTHONWARNINGS': 'error'}),
    ('hash_seed_other', {'PYTHONHASHSEED': '4242'}),
]
ENV_DIV = int(os.environ.get('VERIF_ENV_DIV', '16'))
ENV_CHILD = os.environ.get('VERIF_ENV_CHILD') or None


def _env_offset():
    return int(hashlib.sha256((ENV_CHILD or '').encode()).hexdigest(), 16) % ENV_DIV


def derive_seed(base, prop, suite, shard):
    h = hashlib.sha256(('%d|%s|%s|%d' % (base, prop, suite, shard)).encode()).digest()
    v = int.from_bytes(h[:4], 'big')
    return v or 1


# --------------------------------------------------------------- known findings


def load_findings(prop):
    path = os.path.join(ROOT, 'known_findings.jsonl')
    out = []
    if os.path.exists(path):
        with open(path) as fh:
            for line in fh:
                line = line.strip()
                if not line or line.startswith('#'):
                    continue
                e = core.loads(line)
                if e.get('property') == prop:
                    out.append(e)
    return out


# --------------------------------------------------------------- case execution


class CaseTimeout(BaseException):
    pass


def _alarm(signum, frame):
    raise CaseTimeout()


def _in_repo(tb):
    """True when the innermost frame of the traceback that belongs to falcon or to the harness is falcon source:
    frames of the standard library / third-party packages below it (a codec, json, re raising on behalf of their
    caller) are attributed to whoever called them."""
    owner = None
    while tb is not None:
        fn = os.path.realpath(tb.tb_frame.f_code.co_filename)
        if fn.startswith(boot.REPO + os.sep):
            owner = 'repo'
        elif fn.startswith(ROOT + os.sep) and (os.sep + '.deps' + os.sep) not in fn:
            owner = 'harness'
        tb = tb.tb_next
    return owner == 'repo'


def _repo_frames(tb):
    out = []
    while tb is not None:
        fn = os.path.realpath(tb.tb_frame.f_code.co_filename)
        if fn.startswith(boot.REPO + os.sep):
            out.append('%s:%d' % (os.path.relpath(fn, boot.REPO), tb.tb_lineno))
        tb = tb.tb_next
    return out


class Stats(object):
    def __init__(self):
        self.evaluations = 0
        self.nontrivial = set()
        self.labels = {}
        self.samples = []
        self.excluded = {}
        self.sample_every = 1

    def record(self, case, info):
        self.evaluations += 1
        for lb in info.labels:
            self.labels[lb] = self.labels.get(lb, 0) + 1
        if info.nontrivial:
            fp = core.fingerprint(case)
            if fp not in self.nontrivial:
                self.nontrivial.add(fp)
                if len(self.samples) < 3:
                    self.samples.append(case)

    def export(self):
        return {
            'evaluations': self.evaluations,
            'nontrivial': self.nontrivial,
            'labels': self.labels,
            'samples': self.samples,
            'excluded': self.excluded,
        }


def execute(suite, case, known, stats=None, timeout=None):
    """Run one case.  Returns Info or raises Violation / HarnessError."""
    timeout = timeout or getattr(suite, 'case_timeout', 120)
    if getattr(suite, '_hang_seen', False):
        timeout = min(timeout, 2)  # keep shrinking of a confirmed hang fast
    old = signal.signal(signal.SIGALRM, _alarm)
    signal.setitimer(signal.ITIMER_REAL, timeout)
    try:
        try:
            info = suite.run(case)
            if info is None:
                info = Info()
        finally:
            signal.setitimer(signal.ITIMER_REAL, 0)
            signal.signal(signal.SIGALRM, old)
    except Violation as v:
        hit = _match_known(suite, case, v, known)
        if hit is None:
            raise
        if stats is not None:
            stats.excluded[hit] = stats.excluded.get(hit, 0) + 1
        info = Info(False, ('excluded:' + hit,))
    except CaseTimeout:
        confirm = getattr(suite, 'confirm_hang', None)
        if confirm is not None:
            verdict = confirm(case)
            if verdict:
                suite._hang_seen = True
                v = Violation('hang', verdict)
                hit = _match_known(suite, case, v, known)
                if hit is None:
                    raise v
                if stats is not None:
                    stats.excluded[hit] = stats.excluded.get(hit, 0) + 1
                info = Info(False, ('excluded:' + hit,))
            else:
                info = Info(False, ('inconclusive:timeout',))
        else:
            raise HarnessError('case exceeded %ss wall clock (inconclusive)' % timeout)
    except HarnessError:
        raise
    except Exception as e:
        tb = e.__traceback__
        if _in_repo(tb):
            v = Violation(
                'internal_error',
                '%s: %s at %s' % (type(e).__name__, str(e)[:200], ' <- '.join(_repo_frames(tb)[-3:])),
            )
            v.__cause__ = e
            hit = _match_known(suite, case, v, known)
            if hit is None:
                raise v
            if stats is not None:
                stats.excluded[hit] = stats.excluded.get(hit, 0) + 1
            info = Info(False, ('excluded:' + hit,))
        else:
            raise HarnessError(
                'harness exception %s: %s\n%s'
                % (type(e).__name__, e, ''.join(traceback.format_tb(tb)[-6:]))
            )
    if stats is not None:
        stats.record(case, info)
    return info


def _match_known(suite, case, violation, known):
    for fid, pred in known:
        try:
            if pred(suite.name, case, violation):
                return fid
        except Exception:
            continue
    return None


# --------------------------------------------------------------- shard workers

_CTX = {}


def _worker(task):
    kind, suite_idx, tier, shard, nshards, n, seed_val = task
    mod = _CTX['mod']
    suite = _CTX['suites'][suite_idx]
    known = _CTX['known']
    stats = Stats()
    t0 = time.time()
    fail = None
    try:
        suite.setup()
        try:
            if kind == 'enum':
                fail = _run_enum(suite, tier, shard, nshards, known, stats)
            else:
                fail = _run_hyp(suite, tier, n, seed_val, known, stats)
        finally:
            suite.teardown()
    except HarnessError as e:
        return {'suite': suite.name, 'shard': shard, 'harness_error': str(e), 'stats': stats.export()}
    except BaseException as e:  # noqa
        return {
            'suite': suite.name, 'shard': shard,
            'harness_error': '%s: %s\n%s' % (type(e).__name__, e, traceback.format_exc()[-3000:]),
            'stats': stats.export(),
        }
    return {'suite': suite.name, 'shard': shard, 'fail': fail, 'stats': stats.export(),
            'wall': time.time() - t0}


def _run_enum(suite, tier, shard, nshards, known, stats):
    kept = -1
    for i, case in enumerate(suite.cases(tier)):
        if ENV_CHILD:
            # cases that exist only because of the environment (marked env_case) are never thinned out
            if i % ENV_DIV != _env_offset() and not (isinstance(case, dict) and case.get('env_case')):
                continue
        kept += 1
        if kept % nshards != shard:
            continue
        case = core.roundtrip(case)
        try:
            execute(suite, case, known, stats)
        except Violation as v:
            return {'index': i, 'case': case, 'kind': v.kind, 'detail': v.detail}
    return None


def _run_hyp(suite, tier, n, seed_val, known, stats):
    import hypothesis
    from hypothesis import HealthCheck, Phase, given, settings

    strat = suite.strategy(tier)
    last = {}
    recent = []  # the cases this worker executed (in order): the history a history-dependent verdict depends on

    @hypothesis.seed(seed_val)
    @settings(
        max_examples=n,
        database=None,
        deadline=None,
        derandomize=False,
        report_multiple_bugs=False,
        suppress_health_check=[HealthCheck.too_slow, HealthCheck.data_too_large,
                               HealthCheck.large_base_example],
        phases=(Phase.generate, Phase.shrink),
        verbosity=hypothesis.Verbosity.quiet,
    )
    @given(strat)
    def prop(case):
        case = core.roundtrip(case)
        if len(recent) > 400:
            del recent[:100]
        recent.append(case)  # every execution counts, also the failing ones: they moved the state as well
        try:
            execute(suite, case, known, stats)
        except Violation as v:
            last['v'] = {'case': case, 'kind': v.kind, 'detail': v.detail, 'before': len(recent) - 1}
            raise
        except HarnessError as e:
            last['h'] = str(e)
            raise

    try:
        prop()
    except Violation:
        return dict(last['v'], index=-1)
    except HarnessError:
        raise
    except hypothesis.errors.HypothesisException as e:
        if 'v' in last and isinstance(e, hypothesis.errors.Flaky):
            # the verdict changed between two executions of one case.  Re-run the recorded failing case once
            # more from a clean suite state: if it fails again it is reported (a real defect may well be
            # history dependent); otherwise the oracle is not a pure function of the case: harness problem
            try:
                suite.teardown()
                suite.setup()
                execute(suite, last['v']['case'], known, None)
            except Violation as v2:
                return {'case': last['v']['case'], 'kind': v2.kind, 'detail': v2.detail, 'index': -1}
            except Exception:
                pass
            hist = _history_repro(suite, recent[:last['v'].get('before', len(recent))], last['v'], known)
            if hist is not None:
                return hist
            raise HarnessError('flaky case (non-deterministic verdict): %s; last=%s'
                               % (e, core.dumps(last['v'])[:2000]))
        raise HarnessError('hypothesis error %s: %s' % (type(e).__name__, e))
    except BaseException as e:  # FailedHealthCheck etc.
        if 'v' in last:
            return dict(last['v'], index=-1)
        raise HarnessError('unexpected %s: %s' % (type(e).__name__, e))
    return None


def _history_repro(suite, history, failing, known, budget_s=60):
    """A verdict that a clean re-run does not reproduce may depend on what the long-lived objects (the code under
    test keeps caches, class attributes, module state; suites keep one app per configuration) went through before.
    Re-run the worker's preceding cases and then the failing one from a clean suite state; if the violation comes
    back, minimise the history (drop blocks while it still reproduces) and report it with the history in the replay."""
    def attempt(hist):
        try:
            suite.teardown()
            suite.setup()
            for c in hist:
                try:
                    execute(suite, c, known, None)
                except Violation:
                    pass
            execute(suite, failing['case'], known, None)
        except Violation as v:
            return v
        except Exception:
            return None
        return None

    history = list(history)[-300:]
    v = attempt(history)
    if v is None:
        return None
    deadline = time.time() + budget_s
    block = max(1, len(history) // 2)
    while block >= 1 and time.time() < deadline:
        i = 0
        changed = False
        while i < len(history) and time.time() < deadline:
            cand = history[:i] + history[i + block:]
            v2 = attempt(cand)
            if v2 is not None and v2.kind == v.kind:
                history, v, changed = cand, v2, True
            else:
                i += block
        if block == 1 and not changed:
            break
        block = block // 2 if block > 1 else (1 if changed else 0)
    return {'case': failing['case'], 'history': history, 'kind': v.kind, 'index': -1,
            'detail': 'HISTORY-DEPENDENT (reproduces from a clean state only after the %d preceding case(s) stored in the replay): %s'
                      % (len(history), v.detail)}


# --------------------------------------------------------------- coverage-guided campaigns (Atheris)


def _shrink_case(suite, case, kind, known, budget_s=40):
    """Greedy structural minimisation of a plain-data case (used for failures found by the fuzzer, which
    Hypothesis cannot shrink): drop list elements, shorten str/bytes, while the same violation kind remains."""
    deadline = time.time() + budget_s

    def fails(c):
        try:
            execute(suite, c, known, None)
        except Violation as v:
            return v.kind == kind
        except Exception:
            return False
        return False

    def variants(x):
        if isinstance(x, (str, bytes)):
            n = len(x)
            if n:
                yield x[:0]
                yield x[:n // 2]
                yield x[n // 2:]
                for i in range(min(n, 40)):
                    yield x[:i] + x[i + 1:]
        elif isinstance(x, list):
            n = len(x)
            if n:
                yield x[:n // 2]
                yield x[n // 2:]
                for i in range(min(n, 30)):
                    yield x[:i] + x[i + 1:]
            for i, e in enumerate(x[:30]):
                for v in variants(e):
                    yield x[:i] + [v] + x[i + 1:]
        elif isinstance(x, dict):
            for k in sorted(x):
                for v in variants(x[k]):
                    y = dict(x)
                    y[k] = v
                    yield y
        elif isinstance(x, int) and not isinstance(x, bool) and x not in (0, 1, -1):
            yield 0
            yield x // 2

    best = case
    improved = True
    while improved and time.time() < deadline:
        improved = False
        for cand in variants(best):
            if time.time() > deadline:
                break
            if len(core.dumps(cand)) < len(core.dumps(best)) and fails(cand):
                best = cand
                improved = True
                break
    return best


def _run_fuzz_campaigns(prop, suites, tier, base_seed, known):
    """Returns (per-suite aggregates, failure or None, notes)."""
    import shutil
    import subprocess
    import tempfile

    jobs = []
    for s in suites:
        if getattr(s, 'fuzz_decode', None) is None:
            continue
        runs = getattr(s, 'fuzz_runs', {}).get(tier, 0)
        if not runs:
            continue
        shards = getattr(s, 'fuzz_shards', {}).get(tier, 4)
        for k in range(shards):
            jobs.append((s, k, runs // shards, derive_seed(base_seed, prop, s.name + '#fuzz', k)))
    if not jobs:
        return {}, None, []
    try:
        sys.path.append(boot.DEPS)
        import atheris  # noqa: F401
    except Exception as e:  # noqa
        return {}, None, ['atheris not importable (%s): coverage-guided campaigns skipped' % type(e).__name__]
    agg, fail, notes = {}, None, []
    procs = []
    env = dict(os.environ, PYTHONPATH=ROOT + os.pathsep + boot.DEPS, VERIF_REPO=boot.REPO)
    for s, k, runs, seed_val in jobs:
        out = tempfile.mkdtemp(prefix='vf-fuzz-')
        p = subprocess.Popen([sys.executable, '-B', '-m', 'vf.fuzz', prop, s.name, str(runs), str(seed_val), out],
                             cwd=ROOT, env=env, stdout=subprocess.DEVNULL, stderr=subprocess.DEVNULL)
        procs.append((s, k, out, p))
    for s, k, out, p in procs:
        try:
            p.wait(timeout=getattr(s, 'fuzz_timeout', 3600))
        except subprocess.TimeoutExpired:
            p.kill()
            notes.append('campaign %s#%d stopped at its time budget (inconclusive)' % (s.name, k))
        name = s.name + ' (atheris)'
        a = agg.setdefault(name, {'evaluations': 0, 'nontrivial': set(), 'labels': {}, 'samples': [], 'excluded': {},
                                  'nontrivial_count': 0, 'suite': s})
        sp = os.path.join(out, 'stats.json')
        if os.path.exists(sp):
            st = json.load(open(sp))
            a['evaluations'] += st.get('decoded', 0)
            a['nontrivial_count'] += st.get('nontrivial', 0)
            for lb, n in st.get('labels', {}).items():
                a['labels'][lb] = a['labels'].get(lb, 0) + n
            if len(a['samples']) < 2:
                a['samples'].extend(core.loads(json.dumps(x)) for x in st.get('samples', [])[:1])
        vp = os.path.join(out, 'violation.json')
        if os.path.exists(vp) and fail is None:
            body = core.loads(open(vp).read())
            small = _shrink_case(s, body['case'], body['violation']['kind'], known)
            try:
                execute(s, small, known, None)
                detail = body['violation']['detail']
            except Violation as v:
                detail = v.detail
            fail = {'suite': s.name, 'case': small, 'kind': body['violation']['kind'], 'detail': detail, 'index': -1}
        shutil.rmtree(out, ignore_errors=True)
    return agg, fail, notes


# --------------------------------------------------------------- main


def _write_replay(prop, suite_name, fail, tag=''):
    d = os.path.join(ROOT, 'replays', prop)
    os.makedirs(d, exist_ok=True)
    body = {'property': prop, 'suite': suite_name, 'case': fail['case'],
            'violation': {'kind': fail['kind'], 'detail': fail['detail']}}
    if fail.get('history'):
        body['history'] = fail['history']
    if ENV_CHILD:
        body['env'] = dict(ENVIRONMENTS)[ENV_CHILD]
        body['env_name'] = ENV_CHILD
        tag = tag + 'env-%s-' % ENV_CHILD
    text = core.dumps(body, indent=1)
    name = '%s%s-%s.json' % (tag, suite_name, hashlib.sha1(core.dumps(fail['case']).encode()).hexdigest()[:12])
    path = os.path.join(d, name)
    with open(path, 'w') as fh:
        fh.write(text + '\n')
    return path


def _load_module(prop):
    if prop not in CHECK_MODULES:
        raise HarnessError('unknown property %s' % prop)
    mod = importlib.import_module(CHECK_MODULES[prop])
    suites = list(mod.SUITES)
    return mod, suites


def _known_preds(mod, findings):
    preds = getattr(mod, 'KNOWN', {})
    out = []
    for e in findings:
        if e.get('kind') == 'known':
            p = preds.get(e['id'])
            if p is None:
                raise HarnessError('known finding %s has no predicate in %s' % (e['id'], mod.__name__))
            out.append((e['id'], p))
    return out


def main(argv):
    t0 = time.time()
    if len(argv) < 2:
        print('usage: check <ID> <quick|thorough> | check <ID> --replay <file>')
        return 2
    prop = argv[0]
    failed = boot.ensure_deps(('hypothesis',))
    if failed:
        print('HARNESS-ERROR: cannot install deps: %r' % (failed,))
        return 2
    boot.import_falcon()
    mod, suites = _load_module(prop)
    findings = load_findings(prop)
    known = _known_preds(mod, findings)
    by_name = {s.name: s for s in suites}

    if argv[1] == '--replay':
        body = core.loads(open(argv[2]).read())
        if body.get('env') and os.environ.get('VERIF_ENV_CHILD') != body.get('env_name'):
            # the violation was found in another environment of the server process: re-create it
            import subprocess
            env = dict(os.environ, VERIF_ENV_CHILD=body['env_name'], **body['env'])
            return subprocess.call([sys.executable, '-B', '-m', 'vf.run'] + list(argv), env=env)
        suite = by_name[body['suite']]
        suite.setup()
        try:
            for c in body.get('history') or []:
                try:
                    execute(suite, c, [], None)
                except Violation:
                    pass
            execute(suite, body['case'], [], None)
        except Violation as v:
            print('VIOLATION property=%s replay=%s' % (prop, os.path.abspath(argv[2])))
            print('  %s: %s' % (v.kind, v.detail[:2000]))
            return 1
        finally:
            suite.teardown()
        print('replay passes: property=%s %s' % (prop, argv[2]))
        return 0

    tier = argv[1]
    if tier not in ('quick', 'thorough'):
        print('bad tier %r' % tier)
        return 2
    base_seed = int(os.environ.get('VERIF_SEED', '1') or '1')
    only = os.environ.get('VERIF_SUITES')
    if only:
        suites = [s for s in suites if s.name in only.split(',')]

    violations = []
    known_lines = []

    # ---- regression tier: listed findings (known must still be reported, fixed must pass)
    for e in findings:
        s = by_name.get(e.get('suite'))
        if s is None:
            raise HarnessError('finding %s names unknown suite %r' % (e.get('id'), e.get('suite')))
        s.setup()
        try:
            try:
                execute(s, e['case'], [], None)
                reproduced = None
            except Violation as v:
                reproduced = v
        finally:
            s.teardown()
        if e['kind'] == 'known':
            if reproduced is not None:
                known_lines.append('KNOWN-FINDING: property=%s %s [%s]' % (prop, e['what'], e['id']))
        elif e['kind'] == 'fixed':
            if reproduced is not None:
                path = _write_replay(prop, s.name, {'case': e['case'], 'kind': reproduced.kind,
                                                    'detail': reproduced.detail}, tag='regressed-%s-' % e['id'])
                violations.append((s.name, path, reproduced.kind, reproduced.detail))
    for ln in known_lines:
        print(ln)

    # ---- committed replays (regression inputs) must pass
    rdir = os.path.join(ROOT, 'replays', prop)
    n_replays = 0
    if os.path.isdir(rdir):
        for fn in sorted(os.listdir(rdir)):
            if not (fn.startswith('fixed-') and fn.endswith('.json')):
                continue
            body = core.loads(open(os.path.join(rdir, fn)).read())
            s = by_name.get(body['suite'])
            if s is None:
                continue
            n_replays += 1
            s.setup()
            try:
                execute(s, body['case'], known, None)
            except Violation as v:
                violations.append((s.name, os.path.join(rdir, fn), v.kind, v.detail))
            finally:
                s.teardown()

    # ---- generated search
    tasks = []
    for idx, s in enumerate(suites):
        nsh = min(NPROC, s.max_shards or NPROC)
        n = s.budget.get(tier, 0)
        if not n:
            continue
        if s.cases(tier) is not None:
            for k in range(nsh):
                tasks.append(('enum', idx, tier, k, nsh, 0, 0))
        else:
            if ENV_CHILD:
                n = max(30, n // ENV_DIV)
            nsh = max(1, min(nsh, n // 50 or 1))
            per = (n + nsh - 1) // nsh
            for k in range(nsh):
                tasks.append(('hyp', idx, tier, k, nsh, per, derive_seed(base_seed, prop, s.name, k)))
    _CTX.update(mod=mod, suites=suites, known=known)
    results = []
    harness_errors = []
    if violations:
        tasks = []
    if tasks:
        ctx = multiprocessing.get_context('fork')
        # interleave suites so long ones start early
        tasks.sort(key=lambda t: (t[3], t[1]))
        pool = ctx.Pool(min(NPROC, len(tasks)), maxtasksperchild=1)
        try:
            for r in pool.imap_unordered(_worker, tasks, chunksize=1):
                results.append(r)
                if r.get('harness_error'):
                    harness_errors.append((r['suite'], r['shard'], r['harness_error']))
                    break
                if r.get('fail'):
                    if r['fail']['index'] < 0 or os.environ.get('VERIF_FIRST_FAIL', '1') == '1':
                        break
        finally:
            _close_pool(pool)

    # ---- coverage-guided campaigns (suites that provide fuzz_decode; thorough tier by default)
    fuzz_agg, fuzz_fail, fuzz_notes = ({}, None, [])
    if not violations and not harness_errors and not any(r.get('fail') for r in results) and not ENV_CHILD:
        fuzz_agg, fuzz_fail, fuzz_notes = _run_fuzz_campaigns(prop, suites, tier, base_seed, known)
    for n in fuzz_notes:
        print('NOTE: ' + n)

    # ---- aggregate
    agg = {}
    for r in results:
        a = agg.setdefault(r['suite'], {'evaluations': 0, 'nontrivial': set(), 'labels': {},
                                        'samples': [], 'excluded': {}})
        st = r['stats']
        a['evaluations'] += st['evaluations']
        a['nontrivial'] |= st['nontrivial']
        for k, v in st['labels'].items():
            a['labels'][k] = a['labels'].get(k, 0) + v
        for k, v in st['excluded'].items():
            a['excluded'][k] = a['excluded'].get(k, 0) + v
        if len(a['samples']) < 2:
            a['samples'].extend(st['samples'][:1])
    for name, a in fuzz_agg.items():
        # the fuzzing process counts distinct non-trivial cases itself; represent them by synthetic ids
        a['nontrivial'] = set((name, i) for i in range(a.pop('nontrivial_count')))
        a.pop('suite', None)
        agg[name] = a
    if fuzz_fail is not None:
        results.append({'suite': fuzz_fail['suite'], 'shard': -1, 'fail': fuzz_fail, 'stats': Stats().export()})
    fails = [r for r in results if r.get('fail')]
    if fails:
        # deterministic choice: smallest enumeration index, else first
        fails.sort(key=lambda r: (r['fail']['index'] if r['fail']['index'] >= 0 else 1 << 60,
                                  r['suite'], r['shard']))
        r = fails[0]
        path = _write_replay(prop, r['suite'], r['fail'])
        violations.append((r['suite'], path, r['fail']['kind'], r['fail']['detail']))

    wall = time.time() - t0
    rc = 0
    if harness_errors:
        for s, k, msg in harness_errors:
            print('HARNESS-ERROR: suite=%s shard=%s %s' % (s, k, msg))
        rc = 2
    if violations:
        s, path, kind, detail = violations[0]
        print('VIOLATION property=%s replay=%s' % (prop, path))
        print('  suite=%s %s: %s' % (s, kind, detail[:3000]))
        rc = 1

    total = sum(a['evaluations'] for a in agg.values())
    nt = sum(len(a['nontrivial']) for a in agg.values())
    env_report = {}
    if ENV_CHILD:
        print('ENV-SUMMARY ' + json.dumps({'evaluations': total, 'distinct_nontrivial': nt, 'suites': len(agg)}))
    elif rc == 0 and os.environ.get('VERIF_ENVIRONMENTS', '1') != '0':
        rc, env_report, env_violation = _run_environments(prop, tier, argv)
        if env_violation:
            violations.append(env_violation)
        wall = time.time() - t0
    _write_evidence(prop, mod, suites, tier, base_seed, agg, wall, len(violations), known_lines,
                    n_replays, complete=(rc == 0), notes=fuzz_notes, environments=env_report)
    print('%s %s seed=%d: %d cases (%d distinct non-trivial) in %d suites, %.1fs, %s'
          % (prop, tier, base_seed, total, nt, len(agg), wall,
             'OK' if rc == 0 else ('VIOLATION' if rc == 1 else 'HARNESS-ERROR')))
    return rc


def _close_pool(pool):
    """Pool.terminate() can deadlock when a worker is killed while it holds the task queue's lock (seen once, while a
    violation was being reported): give it 30 s in a helper thread, then kill the workers and leave the pool behind; the
    process then ends through os._exit so that no finaliser waits for the dead pool."""
    import threading
    t = threading.Thread(target=pool.terminate, daemon=True)
    t.start()
    t.join(30)
    if t.is_alive():
        for p in list(getattr(pool, '_pool', None) or []):
            try:
                p.kill()
            except Exception:  # noqa
                pass
        _CTX['force_exit'] = True


def _run_environments(prop, tier, argv):
    """Re-run a slice of this check in child processes, one per entry of ENVIRONMENTS.  -> (rc, report, violation)"""
    import subprocess
    report = {}
    skip = set(getattr(_CTX.get('mod'), 'SKIP_ENVIRONMENTS', ()))
    for name, extra in ENVIRONMENTS:
        if name in skip:
            report[name] = {'env': extra, 'skipped': getattr(_CTX['mod'], 'SKIP_ENVIRONMENTS')[name]}
            continue
        env = dict(os.environ, VERIF_ENV_CHILD=name, VERIF_ENV_DIV=os.environ.get('VERIF_ENV_DIV') or ('16' if tier == 'quick' else '32'), **extra)
        t1 = time.time()
        r = subprocess.run([sys.executable, '-B', '-m', 'vf.run', prop, tier], env=env, stdout=subprocess.PIPE, stderr=subprocess.STDOUT, text=True)
        out = r.stdout
        summary = {}
        for line in out.splitlines():
            if line.startswith('ENV-SUMMARY '):
                summary = json.loads(line[len('ENV-SUMMARY '):])
        report[name] = dict(summary, env=extra, wall_s=round(time.time() - t1, 1), exit=r.returncode)
        if r.returncode == 1:
            lines = out.splitlines()
            vi = [i for i, l in enumerate(lines) if l.startswith('VIOLATION property=')]
            path = lines[vi[0]].split('replay=', 1)[1] if vi else '?'
            detail = lines[vi[0] + 1].strip() if vi and vi[0] + 1 < len(lines) else ''
            print('VIOLATION property=%s replay=%s' % (prop, path))
            print('  in environment %s %r: %s' % (name, extra, detail[:3000]))
            return 1, report, ('env:' + name, path, 'environment', detail)
        if r.returncode != 0:
            print('HARNESS-ERROR: environment %s %r: child exited %d\n%s' % (name, extra, r.returncode, out[-3000:]))
            return 2, report, None
    return 0, report, None


def _write_evidence(prop, mod, suites, tier, seed, agg, wall, nviol, known_lines, n_replays, complete, notes=None, environments=None):
    total = sum(a['evaluations'] for a in agg.values())
    nt = sum(len(a['nontrivial']) for a in agg.values())
    samples = []
    per_suite = {}
    excluded = {}
    class _Pseudo(object):
        exhaustive = False

        def __init__(self, name, doc):
            self.name = name
            self.__doc__ = doc
    ev_suites = list(suites) + [_Pseudo(n, 'Coverage-guided (Atheris/libFuzzer) campaign over the same oracle: raw bytes decoded into a case by '
                                        'the suite, falcon instrumented for coverage feedback; evaluations = inputs that decoded to a case.')
                                for n in agg if n.endswith(' (atheris)')]
    for s in ev_suites:
        a = agg.get(s.name)
        if not a:
            continue
        for c in a['samples'][:2]:
            txt = core.dumps(c)
            samples.append({'suite': s.name, 'case': json.loads(txt) if len(txt) < 4000 else txt[:4000] + '...'})
        labels = dict(sorted(a['labels'].items(), key=lambda kv: -kv[1])[:40])
        per_suite[s.name] = {
            'evaluations': a['evaluations'],
            'distinct_nontrivial': len(a['nontrivial']),
            'exhaustive': bool(s.exhaustive and complete),
            'doc': (s.__doc__ or '').strip().split('\n\n')[0][:600],
            'labels': labels,
        }
        for k, v in a['excluded'].items():
            excluded[k] = excluded.get(k, 0) + v
    if not samples:
        samples = [{'note': 'no case completed'}]
    ev = {
        'property_id': prop,
        'tier': tier,
        'seed': seed,
        'level': getattr(mod, 'LEVEL', 'exploration'),
        'coverage': {
            'evaluations': max(total, 0),
            'distinct_nontrivial': nt,
            'rule': getattr(mod, 'RULE', ''),
            'samples': samples,
            'suites': per_suite,
            'excluded_by_known_finding': excluded,
            'known_findings_reproduced': known_lines,
            'regression_replays_run': n_replays,
            'exhaustive': bool(per_suite) and all(v['exhaustive'] for v in per_suite.values()),
            'notes': list(notes or []),
            'environments': environments or {},
            'source_fingerprint': boot.source_fingerprint(),
            'repo': boot.REPO,
        },
        'assumptions': list(getattr(mod, 'ASSUMPTIONS', [])),
        'wall_s': round(wall, 2),
        'violations': nviol,
    }
    d = os.path.join(ROOT, 'evidence')
    os.makedirs(d, exist_ok=True)
    tmp = os.path.join(d, '.%s.json.tmp' % prop)
    with open(tmp, 'w') as fh:
        json.dump(ev, fh, indent=1, sort_keys=True)
        fh.write('\n')
    # debugging runs (suite filter / alternative repo) never overwrite the real evidence
    debug = bool(os.environ.get('VERIF_SUITES')) or boot.REPO != os.path.realpath('/repo')
    if ENV_CHILD:
        os.replace(tmp, os.path.join(d, '.debug-env-%s-%s.json' % (ENV_CHILD, prop)))
        return
    os.replace(tmp, os.path.join(d, ('.debug-%s.json' if debug else '%s.json') % prop))


if __name__ == '__main__':
    try:
        rc = main(sys.argv[1:])
    except HarnessError as e:
        print('HARNESS-ERROR: %s' % e)
        rc = 2
    except Exception:
        traceback.print_exc()
        print('HARNESS-ERROR: unexpected exception in runner')
        rc = 2
    finally:
        boot.cleanup()
    sys.stdout.flush()
    sys.stderr.flush()
    if _CTX.get('force_exit'):
        os._exit(rc)
    sys.exit(rc)
