"""Exhaustive histories of body assignments on ONE response object (shared by C05 and C12).

A history is a word over a small alphabet of operations a responder / middleware / error handler can perform on a
response before it is sent:

    tX  resp.text = 'Téxt'      t0  resp.text = None
    dX  resp.data = b'\\x00data'     d0  resp.data = None
    mA  resp.media = {'version': 1, 'items': ['a', 'b']}   (a fresh copy)
    mB  resp.media = [2]                                    (a fresh copy)
    m0  resp.media = None
    mu  change the document assigned last in place and assign it again (resp.media = same object)
    r   resp.render_body()   (what a digest / logging middleware does); its result is checked too

Reference model: the last value assigned to each of text / data / media, then the documented precedence
text > data > media.  A media body is compared as a DOCUMENT (json.loads of the bytes == the model document), so no
serialization format is assumed.  Works on falcon.Response and falcon.asgi.Response (whose render_body is a coroutine
that never suspends with the built-in handlers; it is driven by hand).
"""
import copy
import itertools
import json

from vf.core import HarnessError, Violation

FULL = ('tX', 't0', 'dX', 'd0', 'mA', 'mB', 'm0', 'mu', 'r')
MEDIA_ONLY = ('mA', 'mB', 'm0', 'mu', 'r', 'dX', 'd0')

TEXT = 'Téxt'
DATA = b'\x00data'
DOC_A = {'version': 1, 'items': ['a', 'b']}
DOC_B = [2]


def _drive(value):
    if hasattr(value, 'send'):
        try:
            value.send(None)
        except StopIteration as stop:
            return stop.value
        value.close()
        raise HarnessError('render_body() suspended: the history enumeration expects the built-in synchronous JSON handler')
    return value


def _expected(model):
    if model['text'] is not None:
        return ('bytes', model['text'].encode('utf-8'))
    if model['data'] is not None:
        return ('bytes', model['data'])
    if model['media'] is not None:
        return ('doc', model['media'])
    return ('none', None)


def _agrees(body, exp):
    kind, want = exp
    if kind == 'bytes':
        return body == want
    if kind == 'none':
        return body is None or body == b''
    if not isinstance(body, (bytes, bytearray)):
        return False
    try:
        return json.loads(bytes(body).decode('utf-8')) == want
    except ValueError:
        return False


def run_word(make_response, word):
    """Apply one history and compare every render_body() result (and the final one) with the model.
    Returns None or a description of the first disagreement."""
    resp = make_response()
    model = {'text': None, 'data': None, 'media': None}
    doc = None
    for i, op in enumerate(tuple(word) + ('r',)):
        if op == 'tX':
            resp.text = TEXT
            model['text'] = TEXT
        elif op == 't0':
            resp.text = None
            model['text'] = None
        elif op == 'dX':
            resp.data = DATA
            model['data'] = DATA
        elif op == 'd0':
            resp.data = None
            model['data'] = None
        elif op in ('mA', 'mB'):
            doc = copy.deepcopy(DOC_A if op == 'mA' else DOC_B)
            resp.media = doc
            model['media'] = copy.deepcopy(doc)
        elif op == 'm0':
            doc = None
            resp.media = None
            model['media'] = None
        elif op == 'mu':
            if doc is not None:
                if isinstance(doc, dict):
                    doc['step%d' % i] = i
                else:
                    doc.append(i)
                resp.media = doc
                model['media'] = copy.deepcopy(doc)
        elif op == 'r':
            try:
                body = _drive(resp.render_body())
            except HarnessError:
                raise
            except Exception as e:  # noqa
                return 'history %s: render_body() #%d raised %s: %s' % (' '.join(word), i, type(e).__name__, str(e)[:200])
            exp = _expected(model)
            if not _agrees(body, exp):
                return ('history %s: render_body() at step %d%s returned %r, but by the last assignments (text=%r data=%r '
                        'media=%r) and text > data > media the body is %r'
                        % (' '.join(word), i, ' (the response being sent)' if i == len(word) else '', body if body is None else bytes(body)[:80],
                           model['text'], model['data'], model['media'], exp[1]))
        else:
            raise HarnessError('unknown op %r' % (op,))
    return None


def block_cases(alphabet, prefix_len):
    for prefix in itertools.product(alphabet, repeat=prefix_len):
        yield list(prefix)


def run_block(make_response, alphabet, prefix, max_len, kind='history_body_mismatch'):
    """Every history that starts with `prefix` and has at most max_len operations (plus the shorter prefixes of the
    prefix itself when it is the first block).  -> (number of histories, number with a render before an assignment)."""
    n = after = 0
    rest = max_len - len(prefix)
    words = []
    if all(p == alphabet[0] for p in prefix):
        words.extend(tuple(prefix[:k]) for k in range(len(prefix)))
    for k in range(rest + 1):
        for tail in itertools.product(alphabet, repeat=k):
            words.append(tuple(prefix) + tail)
    for word in words:
        n += 1
        if 'r' in word and word.index('r') < len(word) - 1:
            after += 1
        bad = run_word(make_response, word)
        if bad:
            raise Violation(kind, bad)
    return n, after
