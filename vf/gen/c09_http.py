"""Grammar-directed generators for C09 (typed request-header accessors).

Every strategy yields plain data: a dict carrying the rendered header ``text`` together with
the ``expect``-ed parse (built from the same structure the text was rendered from, so the
oracle never parses the text) and a few ``labels``.  Nothing here imports falcon.

Grammars: RFC 9110 (Content-Length, Range, HTTP-date, entity-tag lists, Accept), RFC 6265
(cookie-string), RFC 7239 (Forwarded), RFC 3986 (authority forms for Host).
"""
import datetime as _dt

from hypothesis import strategies as st

DIGITS = '0123456789'
ALPHA = 'abcdefghijklmnopqrstuvwxyzABCDEFGHIJKLMNOPQRSTUVWXYZ'
TCHAR = DIGITS + ALPHA + "!#$%&'*+-.^_`|~"
# field-value alphabet (RFC 9110 5.5): HTAB SP VCHAR obs-text.  Edits draw from a subset that is
# rich in delimiters the little parsers care about.
NASTY = list('"\\,;=:-[]()*/ \t_W%+.<>@{}?!~^|\'#&$') + list('0159azAZwbgGMT') + ['\xe9', '\xff', '\xa0', '\xb2', '\x80']

DAY3 = ['Mon', 'Tue', 'Wed', 'Thu', 'Fri', 'Sat', 'Sun']
DAYFULL = ['Monday', 'Tuesday', 'Wednesday', 'Thursday', 'Friday', 'Saturday', 'Sunday']
MON3 = ['Jan', 'Feb', 'Mar', 'Apr', 'May', 'Jun', 'Jul', 'Aug', 'Sep', 'Oct', 'Nov', 'Dec']


# ------------------------------------------------------------------ generic pieces


def cased(name):
    """Header (or parameter) name in arbitrary letter casing."""
    n = len(name)

    def render(bits):
        return ''.join(c.upper() if b else c.lower() for c, b in zip(name, bits))

    return st.one_of(
        st.just(name),
        st.just(name.lower()),
        st.just(name.upper()),
        st.lists(st.booleans(), min_size=n, max_size=n).map(render),
    )


EDIT_OPS = ['del', 'ins', 'rep', 'dup', 'swap', 'trunc', 'ins', 'rep']
edits = st.tuples(st.sampled_from(EDIT_OPS), st.integers(0, 1 << 16), st.sampled_from(NASTY))


def apply_edit(text, edit):
    """One single-character edit (deterministic function of its arguments)."""
    op, n, ch = edit
    if not text:
        return ch
    i = n % len(text)
    if op == 'del':
        return text[:i] + text[i + 1:]
    if op == 'ins':
        j = n % (len(text) + 1)
        return text[:j] + ch + text[j:]
    if op == 'rep':
        return text[:i] + ch + text[i + 1:]
    if op == 'dup':
        return text[:i] + text[i] + text[i:]
    if op == 'swap':
        if len(text) < 2:
            return text + ch
        i = n % (len(text) - 1)
        return text[:i] + text[i + 1] + text[i] + text[i + 2:]
    if op == 'trunc':
        return text[:i]
    raise AssertionError(op)


def mutate_some(valid, percent=40):
    """valid: strategy of dicts with 'text', 'expect', 'labels'.  A share of the values goes
    through one single-character edit; those carry mutated=True and no expectation (the edit may
    or may not leave the grammar)."""

    def pick(roll, v, edit):
        # (roll drawn first and "high = mutate": Hypothesis often zero-fills the tail of an example)
        if roll >= 100 - percent:
            text = apply_edit(v['text'], edit)
            if text != v['text']:
                out = dict(v)
                out.update(text=text, orig=v['text'], mutated=True, edit=list(edit))
                return out
        out = dict(v)
        out['mutated'] = False
        return out

    return st.builds(pick, st.sampled_from(list(range(0, 100, 5))), valid, edits)


def ows():
    return st.sampled_from(['', '', '', ' ', '  ', '\t', ' \t'])


def weighted(*pairs):
    """one_of with integer weights ((weight, strategy), ...); one_of de-duplicates repeated
    strategy objects, so repetition cannot be used for weighting."""
    total = sum(w for w, _ in pairs)

    def choose(roll):
        acc = 0
        for w, strat in pairs:
            acc += w
            if roll < acc:
                return strat
        raise AssertionError(roll)

    return st.integers(0, total - 1).flatmap(choose)


# ------------------------------------------------------------------ Content-Length


def content_length_values():
    def digits(n, zeros):
        return {'text': '0' * zeros + str(n), 'expect': n, 'kind': 'digits',
                'labels': ['cl:digits'] + ['cl:leading_zero'] * (zeros > 0) + ['cl:>2^63'] * (n >= 1 << 63)}

    num = st.one_of(st.integers(0, 20), st.integers(0, 1 << 32), st.integers(1 << 62, 1 << 100),
                    st.sampled_from([0, 1, (1 << 31) - 1, 1 << 31, (1 << 63) - 1, 1 << 63, 1 << 64]))
    invalid = st.sampled_from(['-1', '-0', '-5', '+5', ' 5', '5 ', '1_0', '0x10', '1e3', '1.0', '5, 5', '5,5', '\xb2', '\xa05',
                               '--1', '1-', 'abc', '0' * 5000 + '1', '9' * 5000, '1 0', '\t7']).map(
        lambda t: {'text': t, 'expect': None, 'kind': 'invalid', 'labels': ['cl:invalid_shape']})
    return weighted(
        (8, st.builds(digits, num, st.sampled_from([0, 0, 0, 1, 3]))),
        (1, st.just({'text': '', 'expect': None, 'kind': 'empty', 'labels': ['cl:empty']})),
        (2, invalid),
    )


# ------------------------------------------------------------------ Range


_units = weighted((6, st.just('bytes')), (2, st.sampled_from(['Bytes', 'BYTES', 'bYtEs'])),
                  (2, st.sampled_from(['items', 'x-custom', 'pages', 'none', 'b'])))
_pos = st.one_of(st.integers(0, 12), st.integers(0, 1 << 33), st.integers(1 << 63, 1 << 80))


def _num(n, zeros):
    return '0' * zeros + str(n)


def range_values():
    zeros = st.sampled_from([0, 0, 0, 0, 1, 2])

    def first_last(unit, a, delta, za, zb):
        b = a + delta
        lb = ['range:first-last'] + ['range:first==last'] * (delta == 0) + ['range:last==first+1'] * (delta == 1)
        return {'text': '%s=%s-%s' % (unit, _num(a, za), _num(b, zb)), 'expect': [a, b], 'unit': unit,
                'kind': 'value', 'labels': lb}

    def first_only(unit, a, za):
        return {'text': '%s=%s-' % (unit, _num(a, za)), 'expect': [a, -1], 'unit': unit, 'kind': 'value',
                'labels': ['range:first-']}

    def suffix(unit, n, zn):
        return {'text': '%s=-%s' % (unit, _num(n, zn)), 'expect': [-n, -1], 'unit': unit, 'kind': 'value',
                'labels': ['range:-suffix']}

    def spec_text(s):
        k, a, b = s
        if k == 'fl':
            return '%d-%d' % (a, a + b)
        if k == 'f':
            return '%d-' % a
        return '-%d' % (a + 1)

    def multi(unit, specs, seps):
        text = unit + '=' + spec_text(specs[0])
        for i, s in enumerate(specs[1:]):
            text += seps[i % len(seps)] + spec_text(s)
        return {'text': text, 'expect': None, 'unit': unit, 'kind': 'multi', 'labels': ['range:multi']}

    def padded(v, pads):
        # whitespace that RFC 9110 does not allow inside ranges-specifier: lenient reading or 4xx,
        # but a reading must be the right numbers
        unit, _, spec = v['text'].partition('=')
        first, _, last = spec.partition('-')
        p = list(pads)
        text = unit + '=' + p[0] + first + p[1] + '-' + p[2] + last + p[3]
        if text == v['text']:
            text = unit + '= ' + spec
        out = dict(v)
        out.update(text=text, kind='lenient', labels=v['labels'] + ['range:whitespace'])
        return out

    def invalid(kind, unit, a, b):
        if kind == 'last<first':
            text = '%s=%d-%d' % (unit, a + b + 1, a)
        elif kind == 'suffix0':
            text = '%s=-0' % unit
        elif kind == 'nounit':
            text = '%d-%d' % (a, a + b)
        elif kind == 'nospec':
            text = '%s=' % unit
        elif kind == 'onlydash':
            text = '%s=-' % unit
        else:
            text = '%s=%s' % (unit, ['abc', '1', 'a-b', '1-2-3', '--1', '1--2', '0x1-0x2', '1.0-2'][a % 8])
        return {'text': text, 'expect': None, 'unit': unit if '=' in text else None, 'kind': 'invalid',
                'labels': ['range:invalid:' + kind]}

    delta = st.one_of(st.sampled_from([0, 0, 1]), st.integers(0, 1000), st.integers(0, 1 << 70))
    value = st.one_of(
        st.builds(first_last, _units, _pos, delta, zeros, zeros),
        st.builds(first_only, _units, _pos, zeros),
        st.builds(suffix, _units, st.one_of(st.integers(1, 12), st.integers(1, 1 << 70)), zeros),
    )
    spec = st.tuples(st.sampled_from(['fl', 'f', 's']), st.integers(0, 500), st.integers(0, 500))
    return weighted(
        (6, value),
        (2, st.builds(multi, _units, st.lists(spec, min_size=2, max_size=4),
                      st.lists(st.sampled_from([',', ', ', ' , ', ',\t']), min_size=1, max_size=3))),
        (2, st.builds(padded, value, st.lists(st.sampled_from(['', ' ', '\t', '  ']), min_size=4, max_size=4))),
        (2, st.builds(invalid, st.sampled_from(['last<first', 'suffix0', 'nounit', 'nospec', 'onlydash', 'junk']),
                      _units, st.integers(0, 1000), st.integers(0, 1000))),
    )


# ------------------------------------------------------------------ HTTP-date


def _two(n):
    return '%02d' % n


def render_date(form, y, mo, d, h, mi, s):
    wd = _dt.date(y, mo, d).weekday()
    if form == 'imf':
        return '%s, %s %s %04d %s:%s:%s GMT' % (DAY3[wd], _two(d), MON3[mo - 1], y, _two(h), _two(mi), _two(s))
    if form == 'rfc850':
        return '%s, %s-%s-%s %s:%s:%s GMT' % (DAYFULL[wd], _two(d), MON3[mo - 1], _two(y % 100),
                                              _two(h), _two(mi), _two(s))
    if form == 'asctime':
        return '%s %s %2d %s:%s:%s %04d' % (DAY3[wd], MON3[mo - 1], d, _two(h), _two(mi), _two(s), y)
    raise AssertionError(form)


_EDGE_DATES = [
    (1994, 11, 6, 8, 49, 37), (1, 1, 1, 0, 0, 0), (9999, 12, 31, 23, 59, 59), (1970, 1, 1, 0, 0, 0),
    (1969, 12, 31, 23, 59, 59), (2000, 2, 29, 12, 0, 0), (2100, 2, 28, 23, 59, 59), (2068, 12, 31, 0, 0, 1),
    (2069, 1, 1, 0, 0, 0), (999, 12, 31, 23, 59, 59), (1000, 1, 1, 0, 0, 0), (2038, 1, 19, 3, 14, 8),
    (1900, 3, 1, 0, 0, 0), (2024, 2, 29, 23, 59, 59), (800, 2, 29, 1, 2, 3),
]


def moments(min_year=1, max_year=9999):
    lo = _dt.datetime(min_year, 1, 1)
    hi = _dt.datetime(max_year, 12, 31, 23, 59, 59)
    edge = [list(e) for e in _EDGE_DATES if min_year <= e[0] <= max_year]
    return st.one_of(
        st.datetimes(min_value=lo, max_value=hi).map(lambda t: [t.year, t.month, t.day, t.hour, t.minute, t.second]),
        st.datetimes(min_value=_dt.datetime(max(min_year, 1900), 1, 1), max_value=_dt.datetime(2100, 1, 1)).map(
            lambda t: [t.year, t.month, t.day, t.hour, t.minute, t.second]),
        st.sampled_from(edge),
    )


def date_values():
    def build(form, m):
        y = m[0]
        exp = {'fields': list(m)}
        if form == 'rfc850':
            exp = {'fields': [None] + list(m[1:]), 'yy': y % 100}
        return {'text': render_date(form, *m), 'expect': exp, 'form': form, 'labels': ['date:' + form]}

    edge = st.sampled_from([
        'Sun, 06 Nov 1994 08:49:37 UTC', 'Sun, 06 Nov 1994 08:49:37 +0000', 'Sun, 06 Nov 1994 08:49:37 EST',
        'Sun, 06 Nov 1994 08:49:37', 'Fri, 31 Dec 1999 23:59:60 GMT', 'Sat, 01 Jan 0000 00:00:00 GMT',
        'Wed, 31 Feb 2001 00:00:00 GMT', 'Sun, 06 Nov 1994 24:00:00 GMT', 'Sun, 6 Nov 1994 08:49:37 GMT',
        'Sun, 06-Nov-1994 08:49:37 GMT', 'Sunday, 06-Nov-94 08:49:37 UTC', 'sun, 06 nov 1994 08:49:37 gmt',
        'Mon, 06 Nov 1994 08:49:37 GMT', '1994-11-06T08:49:37Z', '784111777', '0', '', 'Sun Nov 6 08:49:37 1994',
        'Sun Nov  6 08:49:37 1994 GMT', 'Sun, 06 Nov 99999 08:49:37 GMT', 'Sun, 06 Nov 1994 08:49 GMT',
        'Sunday, 06-Nov-1994 08:49:37 GMT', 'Sun, 06 Nov 94 08:49:37 GMT',
    ]).map(lambda t: {'text': t, 'expect': None, 'form': 'edge', 'labels': ['date:edge_or_invalid']})
    return weighted((3, st.builds(build, st.just('imf'), moments())),
                    (2, st.builds(build, st.just('rfc850'), moments())),
                    (2, st.builds(build, st.just('asctime'), moments())),
                    (1, edge))


DATE_HEADERS = ['Date', 'If-Modified-Since', 'If-Unmodified-Since', 'Last-Modified', 'X-Custom-Date']


# ------------------------------------------------------------------ entity-tag lists

# etagc = %x21 / %x23-7E / obs-text
_ETAGC_PLAIN = ''.join(chr(c) for c in range(0x21, 0x7f) if c != 0x22)
_etagc = st.one_of(st.sampled_from(list(',,W/*\\\'w-_=;:') + ['\xe9', '\xff', '\x80']),
                   st.sampled_from(list(_ETAGC_PLAIN)), st.sampled_from(list('abcxyz0189')))
opaque_tags = st.one_of(
    st.text(alphabet=_etagc, min_size=0, max_size=8),
    st.sampled_from(['', 'W/', 'w/', '*', ',', ',,', 'a,b', 'W/a', '\\', "''", 'xyzzy', '33a64df551425fcc55e4d42a148795d9f25f89d4']),
)
etag_members = st.tuples(opaque_tags, st.booleans())
_LIST_SEPS = [',', ', ', ', ', ' ,', ' , ', ',\t', ',,', ', ,', ',  ']


def render_etag(opaque, weak):
    return ('W/' if weak else '') + '"' + opaque + '"'


def etag_values():
    def build(members, seps, lead, trail):
        text = ''
        for i, (op, wk) in enumerate(members):
            if i:
                text += seps[i % len(seps)]
            text += render_etag(op, wk)
        text = lead + text + trail
        lb = ['etag:n=%d' % min(len(members), 3)]
        if any(wk for _, wk in members):
            lb.append('etag:weak')
        if any(',' in op for op, _ in members):
            lb.append('etag:comma_inside')
        if any(op == '' for op, _ in members):
            lb.append('etag:empty_opaque')
        if any(ord(c) > 127 for op, _ in members for c in op):
            lb.append('etag:obs-text')
        return {'text': text, 'expect': [[op, wk] for op, wk in members], 'labels': lb}

    star = st.builds(lambda a, b: {'text': a + '*' + b, 'expect': '*', 'labels': ['etag:star']}, ows(), ows())
    blank = st.sampled_from(['', ' ', '\t ']).map(lambda t: {'text': t, 'expect': None, 'labels': ['etag:blank']})
    lists = st.builds(build, st.lists(etag_members, min_size=1, max_size=5),
                      st.lists(st.sampled_from(_LIST_SEPS), min_size=1, max_size=4),
                      st.sampled_from(['', '', '', ' ', ', ']), st.sampled_from(['', '', '', ' ', ' ,']))
    return weighted((12, lists), (1, star), (1, blank))


# ------------------------------------------------------------------ cookies (RFC 6265)

# cookie-octet = %x21 / %x23-2B / %x2D-3A / %x3C-5B / %x5D-7E
COOKIE_OCTETS = ''.join(chr(c) for c in range(0x21, 0x7f) if c not in (0x22, 0x2c, 0x3b, 0x5c))
_cookie_names = st.one_of(
    st.sampled_from(['a', 'A', 'b', 'sid', 'SID', 'session', 'k', '__Host-id', '$Version', 'a.b', 'x!y', '~', '0']),
    st.text(alphabet=TCHAR, min_size=1, max_size=6),
)
_cookie_plain = st.one_of(
    st.text(alphabet=st.sampled_from(list(COOKIE_OCTETS)), max_size=10),
    st.text(alphabet=st.sampled_from(list('abc=&%/+~.')), max_size=6),
    st.sampled_from(['', 'a=b', '=', '==', 'eyJhIjoxfQ==', '%22x%22', 'a', 'ab', "'q'"]),
)
_cookie_raw = st.text(
    alphabet=st.one_of(st.sampled_from(list('"\\;, =\t') + ['\xe9', '\xff', '\n', '\x00', '\x7f']),
                       st.sampled_from(list(COOKIE_OCTETS))),
    max_size=8)


def rfc2109_quote(raw):
    """Quoted cookie value in the (obsolete) RFC 2109 style http.cookies emits: DQUOTE and
    backslash get a backslash, anything outside cookie-octet / SP becomes a 3-digit octal escape."""
    out = ['"']
    for ch in raw:
        if ch in '"\\':
            out.append('\\' + ch)
        elif ch in COOKIE_OCTETS or ch == ' ':
            out.append(ch)
        else:
            out.append('\\%03o' % ord(ch))
    out.append('"')
    return ''.join(out)


def cookie_values():
    pair = st.one_of(
        st.tuples(_cookie_names, st.just('plain'), _cookie_plain),
        st.tuples(_cookie_names, st.just('plain'), _cookie_plain),
        st.tuples(_cookie_names, st.just('dquoted'), _cookie_plain),
        st.tuples(_cookie_names, st.just('rfc2109'), _cookie_raw),
    )
    strict_sep = st.just(['; '])
    lenient_sep = st.lists(st.sampled_from(['; ', ';', ';  ', ' ; ', ';\t', '; ; ', ';;']), min_size=1, max_size=3)

    def build(pairs, seps, eq_pad, lead, trail):
        text = ''
        values = {}
        order = []
        lb = set()
        for i, (name, style, val) in enumerate(pairs):
            if i:
                text += seps[i % len(seps)]
            if style == 'plain':
                rendered = val
            elif style == 'dquoted':
                rendered = '"' + val + '"'
                lb.add('cookie:dquoted')
                if val == '':
                    lb.add('cookie:dquoted_empty')
            else:
                rendered = rfc2109_quote(val)
                lb.add('cookie:rfc2109_escapes' if '\\' in rendered else 'cookie:dquoted')
                if val == '':
                    lb.add('cookie:dquoted_empty')
            text += name + eq_pad[0] + '=' + eq_pad[1] + rendered
            if name not in values:
                values[name] = []
                order.append(name)
            values[name].append(val)
        text = lead + text + trail
        if len(order) < len(pairs):
            lb.add('cookie:repeated_name')
        if seps != ['; '] or eq_pad != ['', ''] or lead or trail:
            lb.add('cookie:lenient_whitespace')
        else:
            lb.add('cookie:strict_rfc6265_separators')
        lb.add('cookie:n=%d' % min(len(pairs), 3))
        # (a list of pairs, not a dict keyed by generated names: plain-data cases travel through JSON)
        return {'text': text, 'expect': [[n, values[n]] for n in order], 'labels': sorted(lb)}

    eq_strict = st.just(['', ''])
    eq_len = st.sampled_from([['', ''], [' ', ''], ['', ' '], [' ', ' '], ['\t', '']])
    pairs = st.lists(pair, min_size=1, max_size=5)
    return st.one_of(
        st.builds(build, pairs, strict_sep, eq_strict, st.just(''), st.just('')),
        st.builds(build, pairs, lenient_sep, eq_len, st.sampled_from(['', ' ']), st.sampled_from(['', ' ', ';', '; '])),
    )


# ------------------------------------------------------------------ hosts (RFC 3986 authority)

_label = st.one_of(st.text(alphabet='abcdefghijklmnopqrstuvwxyz0123456789-', min_size=1, max_size=8),
                   st.sampled_from(['www', 'api', 'example', 'com', 'localhost', 'xn--nxasmq6b', 'a', 'EXAMPLE', 'a_b']))
ipv4 = st.lists(st.integers(0, 255), min_size=4, max_size=4).map(lambda p: '.'.join(map(str, p)))
_h16 = st.text(alphabet='0123456789abcdefABCDEF', min_size=1, max_size=4)
ipv6 = st.one_of(
    st.lists(_h16, min_size=8, max_size=8).map(':'.join),
    st.builds(lambda a, b: ':'.join(a) + '::' + ':'.join(b), st.lists(_h16, max_size=3), st.lists(_h16, max_size=3)),
    st.builds(lambda a, v4: ':'.join(a) + '::ffff:' + v4, st.lists(_h16, max_size=2), ipv4),
    st.sampled_from(['::1', '::', '2001:db8::1', 'fe80::1%25eth0', '2001:db8:cafe::17']),
)
_exotic_regname = st.one_of(
    st.text(alphabet="abc-._~!$&'()*+,;=%20", min_size=1, max_size=10),
    st.sampled_from(['example.com.', 'a%2Eb', 'a,b', 'x;y=z', '(host)', "it's", '%E4%BE%8B.test', '']),
)
# port = *DIGIT (RFC 3986): no upper bound on the number of digits; HUGE_PORT has more digits than CPython converts by default
HUGE_PORT = '1' + '0' * 4300
ports = st.one_of(st.integers(0, 65535).map(str), st.sampled_from(['80', '443', '8080', '0080', '00443', '0', '65536', '99999999999',
                                                                    '0' * 40 + '81', '9' * 4300, HUGE_PORT]))


def host_values():
    """{'kind', 'host' (expected req.host), 'text' (authority as sent), 'port' (str|None|'')}"""

    def build(kind_host, port):
        kind, host, labels = kind_host
        text = '[%s]' % host if kind in ('ipv6', 'ipvfuture') else host
        lb = ['host:' + kind]
        if port is None:
            lb.append('port:absent')
        elif port == '':
            text += ':'
            lb.append('port:empty')
        else:
            text += ':' + port
            lb.append('port:digits')
        return {'text': text, 'host': host, 'port': port, 'kind': kind, 'dns_labels': labels, 'labels': lb}

    hosts = st.one_of(
        st.lists(_label, min_size=1, max_size=4).map(lambda ls: ('regname', '.'.join(ls), ls)),
        st.lists(_label, min_size=1, max_size=4).map(lambda ls: ('regname', '.'.join(ls), ls)),
        ipv4.map(lambda h: ('ipv4', h, None)),
        ipv6.map(lambda h: ('ipv6', h, None)),
        st.sampled_from(['v1.fe80::a+en1', 'vF.x:y', 'v7.a']).map(lambda h: ('ipvfuture', h, None)),
        _exotic_regname.map(lambda h: ('regname_exotic', h, None)),
        st.sampled_from([4, 5, 20, 1200]).map(lambda n: ('regname', '.'.join(['a' * 63] * n), ['a' * 63] * n)),
    )
    return st.builds(build, hosts, st.one_of(st.none(), st.none(), st.just(''), ports, ports))


# ------------------------------------------------------------------ Forwarded (RFC 7239)

_obf = st.text(alphabet='abcXYZ019._-', min_size=1, max_size=8).map(lambda s: '_' + s)
# RFC 7239 puts no bound on the length of an obfuscated identifier (token) - nor RFC 3986 on a reg-name
_obf_long = st.sampled_from([254, 255, 256, 300, 1024, 70000]).map(lambda n: '_' + ('abcXYZ019.' * (n // 10 + 1))[:n - 1])


def nodes():
    """(rendered node, expected node name as it must appear in access_route)."""

    def build(name, port):
        kind, host = name
        text = '[%s]' % host if kind == 'ipv6' else host
        if port is not None:
            text += ':' + port
        return {'text': text, 'name': host, 'kind': kind + ('+port' if port is not None else '')}

    name = st.one_of(ipv4.map(lambda h: ('ipv4', h)), ipv4.map(lambda h: ('ipv4', h)),
                     ipv6.filter(lambda h: '%' not in h).map(lambda h: ('ipv6', h)),
                     st.just(('unknown', 'unknown')), _obf.map(lambda h: ('obfnode', h)),
                     st.integers(0, 5).flatmap(lambda i: _obf_long if i == 0 else _obf).map(lambda h: ('obfnode', h)))
    port = st.one_of(st.none(), st.none(), st.integers(0, 65535).map(str), _obf,
                     st.integers(0, 9).map(lambda i: HUGE_PORT if i == 0 else '0' * i + '80'))
    return st.builds(build, name, port)


def is_token(s):
    return bool(s) and all(c in TCHAR for c in s)


def quote_string(raw, mask):
    """quoted-string with quoted-pairs: DQUOTE and backslash always escaped, other characters
    escaped where the (cycled) mask says so."""
    out = ['"']
    for i, ch in enumerate(raw):
        if ch in '"\\' or (mask and mask[i % len(mask)]):
            out.append('\\' + ch)
        else:
            out.append(ch)
    out.append('"')
    return ''.join(out)


_ext_names = st.sampled_from(['secret', 'ext', 'x-by', 'fOr2', 'hostname', 'protocol', 'forx'])
_ext_raw = st.one_of(st.text(alphabet=st.sampled_from(list('ab;,="\\ \tfor=by:[]')), max_size=8),
                     st.text(alphabet=st.sampled_from(list('\\"a')), max_size=6))
_protos = st.sampled_from(['http', 'https', 'HTTP', 'HTTPS', 'Https', 'hTTp', 'ws', 'WSS', 'a+b.c-d'])
_masks = st.one_of(st.just([]), st.just([]), st.lists(st.booleans(), min_size=1, max_size=5))


def forwarded_values():
    def pair(pname, raw, force_quote, mask):
        if force_quote or not is_token(raw):
            return pname + '=' + quote_string(raw, mask), True, any(mask)
        return pname + '=' + raw, False, False

    @st.composite
    def element(draw):
        exp = {'src': None, 'dest': None, 'host': None, 'scheme': None}
        items = []
        lb = set()
        present = draw(st.lists(st.sampled_from(['for', 'for', 'for', 'by', 'host', 'proto', 'ext']),
                                min_size=1, max_size=5, unique=True))
        for p in present:
            mask = draw(_masks)
            fq = draw(st.booleans())
            if p == 'by' and draw(st.integers(0, 3)) == 0:
                # section 4 syntax only (falcon documents that node contents are not validated):
                # any quoted-string content must come back unescaped
                raw = draw(_ext_raw)
                exp['dest'] = raw
                lb.add('fwd:by_arbitrary_string')
                name = draw(cased(p))
            elif p in ('for', 'by'):
                node = draw(nodes())
                raw = node['text']
                exp['src' if p == 'for' else 'dest'] = raw
                if p == 'for':
                    exp['src_name'] = node['name']
                    lb.add('fwd:for:' + node['kind'])
                name = draw(cased(p))
            elif p == 'host':
                h = draw(host_values())
                raw = h['text']
                exp['host'] = raw
                name = draw(cased(p))
            elif p == 'proto':
                raw = draw(_protos)
                exp['scheme'] = raw.lower()
                if raw != raw.lower():
                    lb.add('fwd:proto_mixed_case')
                name = draw(cased(p))
            else:
                raw = draw(_ext_raw)
                name = draw(_ext_names)
                lb.add('fwd:extension_param')
            text, quoted, escaped = pair(name, raw, fq, mask)
            if name != name.lower():
                lb.add('fwd:param_name_mixed_case')
            if quoted:
                lb.add('fwd:quoted')
            if escaped:
                lb.add('fwd:quoted-pair')
            items.append(text)
        exp.setdefault('src_name', None)
        return {'text': ';'.join(items), 'exp': exp, 'labels': sorted(lb), 'npairs': len(items)}

    def build(elements, seps, lead_empty):
        text = lead_empty
        used = [lead_empty] if lead_empty else []
        for i, e in enumerate(elements):
            if i:
                text += seps[i % len(seps)]
                used.append(seps[i % len(seps)])
            text += e['text']
        lb = set()
        for e in elements:
            lb.update(e['labels'])
        lb.add('fwd:elements=%d' % min(len(elements), 3))
        if lead_empty or any(u.count(',') > 1 for u in used):
            lb.add('fwd:empty_list_member')
        return {'text': text, 'expect': [e['exp'] for e in elements], 'labels': sorted(lb),
                'npairs': sum(e['npairs'] for e in elements)}

    return st.builds(build, st.lists(element(), min_size=1, max_size=4),
                     st.lists(st.sampled_from([',', ', ', ', ', ' , ', ',\t', ',,', ', ,']), min_size=1, max_size=3),
                     st.sampled_from(['', '', '', '', ', ', ',']))


def xff_values():
    addr = st.one_of(ipv4, ipv6, st.sampled_from(['unknown', '_hidden', 'client.example']))

    def build(addrs, seps):
        text = ''
        for i, a in enumerate(addrs):
            if i:
                text += seps[i % len(seps)]
            text += a
        return {'text': text, 'expect': list(addrs), 'labels': ['xff:n=%d' % min(len(addrs), 3)]}

    return st.builds(build, st.lists(addr, min_size=1, max_size=4),
                     st.lists(st.sampled_from([',', ', ', ' , ', ',  ', ',\t']), min_size=1, max_size=3))


# ------------------------------------------------------------------ paths / queries

_seg = st.one_of(
    st.text(alphabet='abcxyz019-._~', min_size=0, max_size=6).map(lambda s: (s, s)),
    st.sampled_from([('%20', ' '), ('a%2Fb', 'a/b'), ('%C3%A9', '\xe9'), ('%E2%82%AC', '\u20ac'), ('caf%C3%A9', 'caf\xe9'),
                     ("!$&'()*+,;=:@", "!$&'()*+,;=:@"), ('%41', 'A'), ('%7e', '~')]),
)


def paths():
    """(raw path as on the request line, decoded path the request object must expose)"""

    def build(segs, trailing):
        if not segs:
            return ['/', '/']
        raw = ''.join('/' + r for r, _ in segs)
        dec = ''.join('/' + d for _, d in segs)
        if trailing:
            raw += '/'
            dec += '/'
        return [raw, dec]

    return st.builds(build, st.lists(_seg, min_size=0, max_size=4), st.booleans())


queries = st.one_of(
    st.just(''), st.just(''),
    st.text(alphabet='abc=&%20+,;/?:@-._~', min_size=1, max_size=12),
    st.sampled_from(['a=1', 'a=1&b=2', 'x', 'q=%C3%A9', 'a=b=c', '?', '&&', 'limit=10&marker=a%2Fb']),
)
root_paths = st.sampled_from(['', '', '/app', '/a/b', '/v1'])


# ------------------------------------------------------------------ Accept

_types = ['application', 'text', 'image']
_subtypes = {'application': ['json', 'xml', 'x-msgpack', 'msgpack', 'yaml', 'octet-stream'],
             'text': ['html', 'plain', 'xml'], 'image': ['png']}


def accept_values():
    rng = st.one_of(
        st.sampled_from(['application/json', 'application/xml', 'application/x-msgpack', 'application/msgpack',
                         'application/*', '*/*', 'text/html', 'text/*', 'text/plain', 'image/png',
                         'application/yaml', 'text/xml']),
    )
    qv = st.one_of(st.none(), st.none(),
                   st.sampled_from(['0', '0.0', '0.000', '1', '1.0', '1.000', '0.5', '0.001', '0.9', '0.25', '0.333']))

    def build(ranges, seps, qpads, qnames):
        uniq = []
        for r, q in ranges:
            if r not in [u[0] for u in uniq]:
                uniq.append((r, q))
        text = ''
        table = {}
        for i, (r, q) in enumerate(uniq):
            t = r
            if q is not None:
                t += qpads[i % len(qpads)] + qnames[i % len(qnames)] + '=' + q
            if i:
                text += seps[i % len(seps)]
            text += t
            table[r] = 1.0 if q is None else float(q)
        lb = ['accept:n=%d' % min(len(uniq), 3)]
        if any(v == 0.0 for v in table.values()):
            lb.append('accept:q=0')
        if any('*' in r for r in table):
            lb.append('accept:wildcard')
        return {'text': text, 'expect': table, 'labels': lb}

    return st.builds(build, st.lists(st.tuples(rng, qv), min_size=1, max_size=5),
                     st.lists(st.sampled_from([',', ', ', ' , ', ',  ']), min_size=1, max_size=3),
                     st.lists(st.sampled_from([';', '; ', ' ;', ' ; ']), min_size=1, max_size=3),
                     st.lists(st.sampled_from(['q', 'q', 'Q']), min_size=1, max_size=2))


def accept_quality(table, media_type):
    """Reference: quality of the most specific range of `table` ({range: q}) matching media_type
    (RFC 9110 12.5.1 precedence: type/subtype, then type/*, then */*); 0.0 when none matches."""
    t, _, s = media_type.partition('/')
    for key in (media_type, t + '/*', '*/*'):
        if key in table:
            return table[key]
    return 0.0
