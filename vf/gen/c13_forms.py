"""Reference multipart/form-data encoder (RFC 7578 / RFC 2046 / RFC 5987), case strategies and
single-edit corruptions for C13.

Nothing in here imports falcon.  A *form* is plain data:

    {'boundary': str, 'quote_boundary': bool,
     'preamble': None | bytes,     # None: the body starts with the dash-boundary; b'': CRLF first
     'tail': None | bytes,         # None: nothing after the close delimiter; bytes: CRLF + epilogue
     'tail_pad': int (optional)    # that many b'z' appended to the epilogue (big-body cases)
     'parts': [part, ...]}

    part = {'name': str, 'name_quoted': bool,
            'filename': None | str, 'fn_style': 'plain' | 'ext' | 'both', 'fn_charset': str,
            'fn_lang': str, 'ctype': None | [base, charset-or-None], 'hcase': 0..2,
            'extra': [[header-name, value], ...], 'extra_first': bool,
            'pad': int, 'content': bytes}      # real content = b'z' * pad + content

`encode(form)` returns the body bytes and the layout (offsets) the oracles need.
"""
import json

from hypothesis import strategies as st

CRLF = b'\r\n'

# RFC 2046 5.1.1: bcharsnospace / bchars
BCHARS_NOSPACE = "0123456789ABCDEFGHIJKLMNOPQRSTUVWXYZabcdefghijklmnopqrstuvwxyz'()+_,-./:=?"
BCHARS = BCHARS_NOSPACE + ' '
# The generators leave out ',': a quoted comma in a Content-Type parameter makes falcon's media-type matching split the
# header mid-string and answer 415 (known finding F17, property C11) before the multipart parser is reached.
GEN_BCHARS_NOSPACE = BCHARS_NOSPACE.replace(',', '')
GEN_BCHARS = GEN_BCHARS_NOSPACE + ' '
# RFC 2045 token characters (a boundary made only of these needs no quoting)
TOKEN_CHARS = set("0123456789ABCDEFGHIJKLMNOPQRSTUVWXYZabcdefghijklmnopqrstuvwxyz!#$%&'*+-.^_`|~")
# RFC 5987 attr-char
ATTR_CHARS = set("0123456789ABCDEFGHIJKLMNOPQRSTUVWXYZabcdefghijklmnopqrstuvwxyz!#$&+-.^_`|~")

HEADER_CASES = [
    ('Content-Disposition', 'Content-Type'),
    ('content-disposition', 'content-type'),
    ('CONTENT-DISPOSITION', 'CONTENT-TYPE'),
]


# ------------------------------------------------------------------ encoder


def dash_boundary(form):
    return b'--' + form['boundary'].encode('ascii')


def delimiter(form):
    return CRLF + dash_boundary(form)


def content_type_header(form):
    b = form['boundary']
    if form.get('quote_boundary') or not all(c in TOKEN_CHARS for c in b):
        return 'multipart/form-data; boundary="%s"' % b
    return 'multipart/form-data; boundary=%s' % b


def _quote(s):
    # RFC 2183 quoted-string; the generators never produce a backslash
    return s.replace('"', '\\"')


def _pct(raw):
    return ''.join(chr(c) if chr(c) in ATTR_CHARS else '%%%02X' % c for c in raw)


def part_content(part):
    return b'z' * part.get('pad', 0) + part['content']


def part_ctype_value(part):
    ct = part.get('ctype')
    if ct is None:
        return None
    base, charset = ct
    return base if charset is None else '%s; charset=%s' % (base, charset)


def part_header_block(part):
    """Header lines joined by CRLF, without the terminating blank line."""
    cd_name, ct_name = HEADER_CASES[part.get('hcase', 0) % len(HEADER_CASES)]
    name = part['name']
    if part.get('name_quoted', True) or not name or not all(c in TOKEN_CHARS for c in name):
        cd = 'form-data; name="%s"' % _quote(name)
    else:
        cd = 'form-data; name=%s' % name
    fn = part.get('filename')
    if fn is not None:
        style = part.get('fn_style', 'plain')
        if style == 'plain':
            cd += '; filename="%s"' % _quote(fn)
        else:
            if style == 'both':
                cd += '; filename="fallback.bin"'
            charset = part.get('fn_charset', 'UTF-8')
            cd += "; filename*=%s'%s'%s" % (charset, part.get('fn_lang', ''), _pct(fn.encode(charset)))
    lines = [cd_name.encode('ascii') + b': ' + cd.encode('utf-8')]
    ctv = part_ctype_value(part)
    if ctv is not None:
        lines.append(ct_name.encode('ascii') + b': ' + ctv.encode('ascii'))
    extra = [k.encode('ascii') + b': ' + v.encode('ascii') for k, v in part.get('extra', ())]
    lines = extra + lines if part.get('extra_first') else lines + extra
    return CRLF.join(lines)


def encode(form):
    """-> (body, layout).  layout = {'first_dash': offset of the first dash-boundary,
    'parts': [{'headers': [start, end], 'content': [start, end]}], 'close_end': offset just after
    the close delimiter "--boundary--"}."""
    dash = dash_boundary(form)
    out = bytearray()
    pre = form.get('preamble')
    if pre is not None:
        out += pre + CRLF
    first_dash = len(out)
    out += dash
    parts = []
    for part in form['parts']:
        out += CRLF
        hb = part_header_block(part)
        hs = len(out)
        out += hb
        he = len(out)
        out += CRLF + CRLF
        cs = len(out)
        out += part_content(part)
        ce = len(out)
        out += CRLF + dash
        parts.append({'headers': [hs, he], 'content': [cs, ce]})
    out += b'--'
    close_end = len(out)
    tail = form.get('tail')
    if form.get('tail_pad'):
        tail = (tail or b'') + b'z' * form['tail_pad']
    if tail is not None:
        out += CRLF + tail
    return bytes(out), {'first_dash': first_dash, 'parts': parts, 'close_end': close_end}


def sanitize_content(content, form):
    """The one guarantee of the encoder: CRLF + content does not contain CRLF--boundary (RFC 2046: the
    delimiter must not appear in a part, on a line by itself or as the prefix of any line).  Deleting
    the last byte of an occurrence leaves a maximal near miss behind."""
    delim = delimiter(form)
    while True:
        i = (CRLF + content).find(delim)
        if i < 0:
            return content
        j = i + len(delim) - 3
        content = content[:j] + content[j + 1:]


def sanitize_preamble(pre, form):
    dash = dash_boundary(form)
    while True:
        i = pre.find(dash)
        if i < 0:
            return pre
        j = i + len(dash) - 1
        pre = pre[:j] + pre[j + 1:]


def expected_filename(part):
    return part.get('filename')


# ------------------------------------------------------------------ edits


def apply_edit(body, edit):
    kind, pos, byte = edit
    if kind == 'rep':
        return body[:pos] + bytes([byte]) + body[pos + 1:]
    if kind == 'del':
        return body[:pos] + body[pos + 1:]
    if kind == 'ins':
        return body[:pos] + bytes([byte]) + body[pos:]
    if kind == 'trunc':
        return body[:pos]
    raise AssertionError(edit)


def predict(form, body, layout, edit):
    """What the generator knows about the edited body without parsing it:
    ('same',)                the form is unchanged (edit in the epilogue / harmless preamble edit)
    ('content', i, bytes)    exactly content i changed and no delimiter was created or destroyed
    ('reject',)              truncated before the close delimiter was complete
    None                     no prediction
    """
    kind, pos, byte = edit
    new = apply_edit(body, edit)
    close_end = layout['close_end']
    if kind == 'trunc':
        return ('same',) if pos >= close_end else ('reject',)
    if pos >= close_end:
        return ('same',)
    delim = delimiter(form)
    dash = dash_boundary(form)
    shift = {'rep': 0, 'del': -1, 'ins': 1}[kind]
    for i, pl in enumerate(layout['parts']):
        cs, ce = pl['content']
        inside = (cs <= pos <= ce) if kind == 'ins' else (cs <= pos < ce)
        if inside:
            newc = new[cs:ce + shift]
            if delim in CRLF + newc:
                return None
            if new.count(delim) != body.count(delim):
                return None
            return ('content', i, newc)
    fd = layout['first_dash']
    inside = (pos <= fd) if kind == 'ins' else (pos < fd)
    if inside:
        if new.find(dash) == fd + shift:
            return ('same',)
    return None


# ------------------------------------------------------------------ strategies

NAME_ATOMS = ['a', 'b', 'field', 'x1', 'file', 'datafile', ' ', ';', '=', ',', "'", '%22', '[]', '.', '-', '_', '*', ':',
              '/', '"', 'é', 'ü', '€', '日本', '😀', 'name', 'filename', '; filename=', '--']
FILE_ATOMS = ['a', 'test', '.txt', '.', '..', '/', '-', '_', ' ', 'Ångström', 'é', '€', '日本', '😀', ';', '=', "'", '%41',
              'passwd', '𝟏', 'ﬁ', '"', 'COM1', '~', '*']
LATIN_FILE_ATOMS = ['a', 'test', '.txt', '.', '/', '-', ' ', 'Ångström', 'é', 'ü', ';', "'", '%41', '~', '"', '\xa0', 'ÿ']
CTYPES = [None, None, ['text/plain', None], ['text/plain', 'utf-8'], ['text/plain', 'iso-8859-1'], ['text/plain', 'ascii'],
          ['application/json', None], ['application/json', None], ['application/json', None],
          ['application/octet-stream', None], ['image/png', None],
          ['text/html', 'utf-8'], ['text/plain', 'x-no-such-charset']]
EXTRAS = [['X-Custom', 'v'], ['Content-Length', '3'], ['Content-Transfer-Encoding', 'binary'], ['X-Empty', ''],
          ['Content-Id', '<a@b>'], ['X-Long', 'l' * 40]]
JSON_DOCS = [b'{}', b'[]', b'0', b'"x"', b'{"a": 1}', b'[1, 2.5, true, null, "\\r\\n--"]', b'{"k": {"n": [1, {"d": "\xc3\xa9"}]}}',
             b'[1,\r\n2]', b' {"a"\r\n:\r\n"--"} ', b'"\\u20ac"']
BAD_JSON = [b'', b'{', b'[1,]', b'\xff', b'{"a": 1}x']
TEXTS = [b'', b'hello', b'Hello, World!\n', b'caf\xc3\xa9', b'caf\xe9', b'\xe2\x82\xac 5', b'line1\r\nline2\r\n', b'a=1&b=2']


def boundaries():
    small = st.text(GEN_BCHARS, min_size=1, max_size=4)
    typical = st.sampled_from(['boundary', 'Boundary_1', '----WebKitFormBoundary7MA4YWxkTrZu0gW', '-', '--', 'b', 'ab',
                               '5b11af82ab65407ba8cdccf37d2a9c4f', "a'b", 'x y', 'a:b/c=d?', '(1+1)', 'aaa', 'abab', 'r-n'])
    long_ = st.text(GEN_BCHARS, min_size=5, max_size=70)
    exact70 = st.text(GEN_BCHARS_NOSPACE, min_size=70, max_size=70)

    def fix(b):
        return b[:-1] + 'x' if b.endswith(' ') else b
    return st.one_of(small, small, typical, typical, long_, exact70).map(fix)


def content_pieces(form):
    b = form['boundary'].encode('ascii')
    dash = b'--' + b
    delim = CRLF + dash
    ps = [b'\r', b'\n', b'\r\n', b'-', b'--', b'\r\n-', b'\r\n--', b, dash, delim[:-1], delim, delim, b'\n' + dash, b'\r' + dash,
          b'\x00', b'\xff', b'a', b'x', b'\r\n\r\n', dash + b'--', delim + b'--', b'\r\n\r', b' ', delim[:len(delim) // 2 + 1],
          b[:1], b[-1:], b'\n--', b'Content-Disposition: form-data; name="x"']
    return ps


@st.composite
def hostile(draw, form, max_pieces=10):
    ps = content_pieces(form)
    idx = draw(st.lists(st.integers(0, len(ps) - 1), max_size=max_pieces))
    return b''.join(ps[i] for i in idx)


@st.composite
def parts(draw, form, max_pieces=10):
    name = ''.join(draw(st.lists(st.sampled_from(NAME_ATOMS), max_size=3)))
    p = {'name': name, 'name_quoted': draw(st.sampled_from([True, True, False])),
         'hcase': draw(st.sampled_from([0, 0, 1, 2])), 'pad': 0}
    kind = draw(st.sampled_from(['none', 'none', 'plain', 'plain', 'ext', 'ext_latin', 'both', 'empty']))
    if kind == 'none':
        p['filename'] = None
    elif kind == 'empty':
        p['filename'] = ''
        p['fn_style'] = 'plain'
    elif kind == 'ext_latin':
        p['filename'] = ''.join(draw(st.lists(st.sampled_from(LATIN_FILE_ATOMS), min_size=1, max_size=3)))
        p['fn_style'] = draw(st.sampled_from(['ext', 'both']))
        p['fn_charset'] = draw(st.sampled_from(['iso-8859-1', 'ISO-8859-1', 'latin-1', 'windows-1252']))
        p['fn_lang'] = draw(st.sampled_from(['', '', 'en', 'de', 'en-US']))
    else:
        p['filename'] = ''.join(draw(st.lists(st.sampled_from(FILE_ATOMS), min_size=1, max_size=3)))
        p['fn_style'] = {'plain': 'plain', 'ext': 'ext', 'both': 'both'}[kind]
        p['fn_charset'] = draw(st.sampled_from(['UTF-8', 'utf-8']))
        p['fn_lang'] = draw(st.sampled_from(['', '', 'en', 'de', 'en-US']))
    p['ctype'] = draw(st.sampled_from(CTYPES))
    ex = draw(st.sampled_from([0, 0, 0, 1, 2]))
    p['extra'] = [draw(st.sampled_from(EXTRAS)) for _ in range(ex)]
    p['extra_first'] = draw(st.booleans())
    base = p['ctype'][0] if p['ctype'] else 'text/plain'
    src = draw(st.sampled_from(['hostile', 'hostile', 'hostile', 'typed']))
    if src == 'typed' and base == 'application/json':
        content = draw(st.sampled_from(JSON_DOCS + JSON_DOCS + BAD_JSON))
    elif src == 'typed':
        content = draw(st.sampled_from(TEXTS))
    else:
        content = draw(hostile(form, max_pieces))
    p['content'] = sanitize_content(content, form)
    return p


@st.composite
def forms(draw, max_parts=5, max_pieces=10):
    form = {'boundary': draw(boundaries()), 'quote_boundary': draw(st.booleans())}
    pre = draw(st.sampled_from(['none', 'none', 'empty', 'text', 'hostile']))
    if pre == 'none':
        form['preamble'] = None
    elif pre == 'empty':
        form['preamble'] = b''
    elif pre == 'text':
        form['preamble'] = b'This is a multi-part message in MIME format.'
    else:
        form['preamble'] = sanitize_preamble(draw(hostile(form, 6)), form)
    tail = draw(st.sampled_from(['none', 'crlf', 'crlf', 'text', 'hostile']))
    if tail == 'none':
        form['tail'] = None
    elif tail == 'crlf':
        form['tail'] = b''
    elif tail == 'text':
        form['tail'] = b'epilogue\r\n'
    else:
        form['tail'] = draw(hostile(form, 6))
    n = draw(st.sampled_from([0, 1, 1, 2, 2, 3, 3, 4, 5]))
    n = min(n, max_parts)
    form['parts'] = [draw(parts(form, max_pieces)) for _ in range(n)]
    return form


READ_UNTIL_X = [b'\n', b'\r\n', b'-', b'--', b'\r', b'a', b'\xff']


def part_base(part):
    return part['ctype'][0] if part.get('ctype') else 'text/plain'


@st.composite
def pattern_for(draw, part):
    n = len(part_content(part))
    kinds = ['skip', 'read', 'read', 'read_all', 'chunked', 'data', 'data2', 'text', 'read_until', 'readline', 'pipe',
             'iter', 'read_then_data', 'ru_then_read', 'lines', 'exhaust', 'reads', 'reads']
    if part_base(part) == 'application/json':
        kinds += ['media'] * 12
    k = draw(st.sampled_from(kinds))
    if k in ('read', 'read_then_data'):
        return [k, draw(st.one_of(st.integers(0, n + 2), st.integers(0, 3)))]
    if k == 'reads':
        # a history of sized reads of very different sizes on one part stream (small, then spanning several reader
        # chunks, then small again), followed by whatever is left
        size = st.one_of(st.integers(0, 12), st.integers(0, n + 2), st.sampled_from([1, 10, 100, 33000, 66000, 100000]))
        return [k, draw(st.lists(size, min_size=2, max_size=5))]
    if k == 'chunked':
        return [k, draw(st.integers(1, 9))]
    if k in ('read_until', 'ru_then_read'):
        return [k, draw(st.sampled_from(READ_UNTIL_X))]
    return [k]


@st.composite
def transports(draw, form, body_len):
    dlen = len(delimiter(form))
    return {
        'short': draw(st.lists(st.sampled_from([0, 1, 2, 3, 5, 7, 16, 64]), min_size=1, max_size=4)),
        'events': draw(st.lists(st.sampled_from([1, 1, 2, 3, 4, 7, 16, 20, 64, 1000]), min_size=1, max_size=4)),
        'preload': draw(st.booleans()),
        'asgi_cl': draw(st.booleans()),
        # chunk size of the directly constructed readers: at least the delimiter length (the readers
        # require delimiter <= chunk size), at least 4 (CRLF CRLF)
        'cs': max(dlen, 4) + draw(st.sampled_from([0, 0, 1, 1, 2, 3, 5, 8, 13, 40])),
        'pieces': draw(st.lists(st.integers(0, 9), min_size=1, max_size=5)),
    }


@st.composite
def valid_cases(draw):
    form = draw(forms())
    body, _ = encode(form)
    return {'form': form,
            'patterns': [draw(pattern_for(p)) for p in form['parts']],
            'default_charset': draw(st.sampled_from([None, None, None, 'iso-8859-1', 'ascii'])),
            'transport': draw(transports(form, len(body)))}


def near_misses(content, delim):
    """[(offset, length)] of proper delimiter prefixes of >= 2 bytes inside content."""
    out = []
    p = content.find(b'\r')
    while p >= 0:
        j = 1
        while j < len(delim) and p + j < len(content) and content[p + j] == delim[j]:
            j += 1
        if 2 <= j < len(delim):
            out.append((p, j))
        p = content.find(b'\r', p + 1)
    return out


@st.composite
def big_cases(draw):
    """Bodies of 8-70 KiB in which the end of one part's content (= start of a delimiter) is placed within a
    few bytes of a multiple of the readers' default chunk sizes (8192 async, 32768 sync)."""
    form = draw(forms(max_parts=3, max_pieces=6))
    if not form['parts']:
        form['parts'] = [draw(parts(form, 6))]
    body, layout = encode(form)
    i = draw(st.integers(0, len(form['parts']) - 1))
    # the async reader joins events until it holds >= 8192 bytes: its chunk edges are multiples of `step`
    ev = draw(st.sampled_from([8192, 4096, 2048, 1024, 512, 8192, 4096, 16384, 1000, 64, 3000]))
    step = -(-8192 // ev) * ev
    edge = draw(st.sampled_from([step, step, 2 * step, 32768, 32768, 32768, 4 * step, 65536]))
    dlen = len(delimiter(form))
    # the edge falls somewhere inside the hostile tail of the content or inside the delimiter that follows it
    off = draw(st.one_of(st.integers(-dlen - 1, 1), st.integers(-dlen - 2, min(len(form['parts'][i]['content']), 40) + 2)))
    content = form['parts'][i]['content']
    nm = near_misses(content, delimiter(form))
    if nm and draw(st.booleans()):
        # put the edge inside a near miss (a proper prefix of the delimiter) of the hostile tail
        p, j = nm[draw(st.integers(0, len(nm) - 1))]
        off = len(content) - p - draw(st.integers(1, j - 1))
    ce = layout['parts'][i]['content'][1]
    pad = edge + off - ce
    while pad < 0:
        pad += 8192
    form['parts'][i]['pad'] = pad
    form['parts'][i]['content'] = sanitize_content(form['parts'][i]['content'], form)
    # the sync reader only checks a chunk edge for a straddling delimiter when the following chunk is not the
    # last one, i.e. when at least another 32 KiB follow
    more = draw(st.sampled_from(['none', 'epilogue', 'epilogue', 'last_part']))
    if more == 'epilogue':
        form['tail_pad'] = 40000
    elif more == 'last_part' and i < len(form['parts']) - 1:
        form['parts'][-1]['pad'] = 40000
    patterns = [draw(pattern_for(p)) for p in form['parts']]
    if draw(st.booleans()):
        patterns[i] = draw(st.sampled_from([['read_all'], ['data'], ['data2'], ['pipe'], ['iter'], ['chunked', 8192],
                                            ['read', 100000], ['skip']]))
    return {'form': form,
            'patterns': patterns,
            'transport': {
                'short': draw(st.lists(st.sampled_from([0, 0, 1000, 4096, 8192, 32768, 5000]), min_size=1, max_size=3)),
                'events': [ev],
                'preload': draw(st.booleans()),
                'asgi_cl': draw(st.booleans()),
            }}


@st.composite
def limit_cases(draw):
    form = draw(forms(max_parts=4, max_pieces=6))
    which = draw(st.sampled_from(['count', 'buffer', 'headers']))
    if which != 'count' and not form['parts']:
        form['parts'] = [draw(parts(form, 6))]
    n = len(form['parts'])
    delta = draw(st.sampled_from([-1, 0, 1]))
    idx = draw(st.integers(0, max(0, n - 1)))
    return {'form': form, 'which': which, 'delta': delta, 'index': idx,
            'use_text': draw(st.booleans()),
            'transport': {'short': draw(st.lists(st.sampled_from([0, 1, 3, 7, 64]), min_size=1, max_size=3)),
                          'events': draw(st.lists(st.sampled_from([1, 2, 5, 16, 1000]), min_size=1, max_size=3)),
                          'preload': draw(st.booleans()), 'asgi_cl': draw(st.booleans())}}


EDIT_BYTES = [0x0d, 0x0a, 0x2d, 0x22, 0x3b, 0x3a, 0x20, 0x3d, 0xff, 0x00, 0x61, 0x2a, 0x27, 0x25, 0x80, 0xc3]


@st.composite
def corrupt_cases(draw):
    form = draw(forms(max_parts=3, max_pieces=5))
    body, layout = encode(form)
    kind = draw(st.sampled_from(['rep', 'rep', 'del', 'ins', 'ins', 'trunc']))
    hi = len(body) if kind in ('ins', 'trunc') else max(0, len(body) - 1)
    region = draw(st.sampled_from(['any', 'any', 'content', 'content', 'delimiter']))
    if region != 'any' and layout['parts']:
        cs, ce = layout['parts'][draw(st.integers(0, len(layout['parts']) - 1))]['content']
        if region == 'content':
            pos = draw(st.integers(cs, ce))
        else:
            pos = ce + draw(st.integers(-2, len(delimiter(form)) + 3))
        pos = max(0, min(pos, hi))
    else:
        pos = draw(st.integers(0, hi))
    byte = draw(st.one_of(st.sampled_from(EDIT_BYTES), st.sampled_from(sorted(set(form['boundary'].encode('ascii')))),
                          st.integers(0, 255)))
    return {'form': form, 'edit': [kind, pos, byte],
            'consume': draw(st.sampled_from(['read', 'read', 'data', 'skip', 'text'])),
            'transport': draw(transports(form, len(body)))}


# ------------------------------------------------------------------ fixed small forms (exhaustive slices)


def _p(name, content, filename=None, ctype=None, **kw):
    d = {'name': name, 'name_quoted': True, 'filename': filename, 'fn_style': 'plain', 'fn_charset': 'UTF-8', 'fn_lang': '',
         'ctype': ctype, 'hcase': 0, 'extra': [], 'extra_first': False, 'pad': 0, 'content': content}
    d.update(kw)
    return d


SMALL_FORMS = [
    {'boundary': 'b', 'quote_boundary': False, 'preamble': None, 'tail': b'', 'parts': [_p('a', b'x')]},
    {'boundary': 'b', 'quote_boundary': False, 'preamble': None, 'tail': None, 'parts': []},
    {'boundary': 'bb', 'quote_boundary': False, 'preamble': b'p', 'tail': b'e',
     'parts': [_p('a', b'\r\n--b'), _p('c', b'', filename='f')]},
    {'boundary': '-', 'quote_boundary': False, 'preamble': b'', 'tail': b'',
     'parts': [_p('n', b'-\r\n--\r', ctype=['text/plain', None])]},
    {'boundary': 'xy', 'quote_boundary': True, 'preamble': None, 'tail': None,
     'parts': [_p('f', b'1', filename='\xe9', fn_style='ext'), _p('', b'\r\n--x\r\n--xy'[:-1])]},
    {'boundary': 'B', 'quote_boundary': False, 'preamble': None, 'tail': b'\r\n--B--',
     'parts': [_p('j', b'[1]', ctype=['application/json', None]), _p('k', b'\r'), _p('l', b'\n--B')]},
]


def sweep_cases(tier):
    """Every 2-split of the body of each fixed small form x reader chunk sizes x three consumption presets."""
    presets = ['read_all', 'skip', 'partial']
    for fi, form in enumerate(SMALL_FORMS):
        body, _ = encode(form)
        dlen = max(len(delimiter(form)), 4)
        for preset in presets:
            pats = []
            for j, p in enumerate(form['parts']):
                if preset == 'partial':
                    pats.append(['read', 1] if j % 2 == 0 else ['read_until', b'\n'])
                else:
                    pats.append([preset])
            for cs_add in ((0, 1, 2, 3, 5, 8) if tier == 'quick' else range(0, 16)):
                for k in range(0, len(body) + 1):
                    yield {'form': form, 'patterns': pats,
                           'transport': {'short': [k, 0, 0, 0, 0, 0, 0, 0], 'events': [k or 1, len(body) + 1], 'preload': bool(k % 2),
                                         'asgi_cl': bool((k // 2) % 2), 'cs': dlen + cs_add, 'pieces': [k or 1, len(body) + 1]}}


def charset_cases(tier):
    """Text decoding options, exhaustively: part Content-Type (absent / text/plain without and with a charset /
    another type) x content (ASCII, valid UTF-8 that reads differently as Latin-1, a byte that is not UTF-8, empty)
    x MultipartParseOptions.default_charset (unset, iso-8859-1, ascii, utf-16, an unknown name) x get_text / get_data,
    with the text part first, last or alone in the form."""
    # 'undefined', 'punycode' and 'idna' are registered Python codecs whose decode errors are plain UnicodeError /
    # ValueError subclasses other than UnicodeDecodeError
    ctypes = [None, ['text/plain', None], ['text/plain', 'utf-8'], ['text/plain', 'iso-8859-1'], ['text/plain', 'bogus-cs'],
              ['application/octet-stream', None], ['text/plain', 'undefined'], ['text/plain', 'punycode'], ['text/plain', 'idna'],
              ['text/plain', 'utf-16']]
    contents = [b'abc', b'caf\xc3\xa9', b'\xe9', b'', b'~~~', b'a..b']
    defaults = [None, 'iso-8859-1', 'ascii', 'utf-16', 'no-such-charset', 'undefined']
    tr = {'short': [0], 'events': [7], 'preload': False, 'asgi_cl': True, 'cs': 9, 'pieces': [3, 11]}
    for ct in ctypes:
        for content in contents:
            for dc in defaults:
                for pat in (['text'], ['data']):
                    for pos in (0, 1, 2):
                        other = _p('o', b'\xff')
                        me = _p('t', content, ctype=ct)
                        parts = [[me], [me, other], [other, me]][pos]
                        pats = [[pat], [pat, ['data']], [['text'], pat]][pos]
                        yield {'form': {'boundary': 'bd', 'quote_boundary': False, 'preamble': None, 'tail': b'', 'parts': parts},
                               'patterns': pats, 'transport': tr, 'default_charset': dc}


def corrupt_enum_cases(tier):
    """All single-byte replacements / deletions / insertions at every position and every truncation of the
    fixed small forms (bodies <= 120 bytes)."""
    if tier == 'quick':
        forms_ = SMALL_FORMS[:4]
        bytes_ = [0x0d, 0x0a, 0x2d, 0xff, 0x62, 0x22, 0x3a, 0x00]
    else:
        forms_ = SMALL_FORMS
        bytes_ = EDIT_BYTES + [0x62, 0x42, 0x78]
    for form in forms_:
        body, _ = encode(form)
        dlen = max(len(delimiter(form)), 4)
        tr = {'short': [0], 'events': [3], 'preload': False, 'asgi_cl': True, 'cs': dlen + 1, 'pieces': [2, 5]}
        for pos in range(len(body) + 1):
            yield {'form': form, 'edit': ['trunc', pos, 0], 'consume': 'read', 'transport': tr}
            for b in bytes_:
                yield {'form': form, 'edit': ['ins', pos, b], 'consume': 'read', 'transport': tr}
            if pos < len(body):
                yield {'form': form, 'edit': ['del', pos, 0], 'consume': 'read', 'transport': tr}
                for b in bytes_:
                    if b != body[pos]:
                        yield {'form': form, 'edit': ['rep', pos, b], 'consume': 'read', 'transport': tr}


def json_value(content):
    """Expected result of get_media() for an application/json part: ('ok', repr) or ('err', class name)."""
    if not content:
        return ('err', 'MediaNotFoundError')
    try:
        return ('ok', repr(json.loads(content.decode('utf-8'))))
    except ValueError:
        return ('err', 'MediaMalformedError')


def header_param_cases(tier):
    """Content-Type header variants for one fixed body with boundary 'abc': [header value, expected] where expected is
    'ok' (the form must parse to its one part) or 'invalid' (a 4xx HTTPError must be raised by get_media())."""
    ok = ['multipart/form-data; boundary=abc', 'multipart/form-data; boundary="abc"', 'multipart/form-data;boundary=abc',
          'multipart/form-data; charset=utf-8; boundary=abc', 'multipart/form-data; boundary=abc; charset=utf-8',
          'multipart/form-data; BOUNDARY=abc', 'multipart/form-data; Boundary="abc"',
          # RFC 2046 5.1.1: white space at the end of the boundary was added by a gateway and must be deleted
          'multipart/form-data; boundary="abc "', 'multipart/form-data; boundary="abc   "', 'multipart/form-data; boundary=abc ']
    bad = ['multipart/form-data', 'multipart/form-data; charset=utf-8', 'multipart/form-data; boundary=',
           'multipart/form-data; boundary=""', 'multipart/form-data; boundary=" "',
           'multipart/form-data; boundary=' + 'a' * 71, 'multipart/form-data; boundary="%s"' % ('a' * 71),
           'multipart/form-data; boundary=' + 'a' * 200]
    for v in ok:
        yield {'content_type': v, 'expect': 'ok', 'boundary': 'abc'}
    for v in bad:
        yield {'content_type': v, 'expect': 'invalid', 'boundary': 'abc'}
    for n in (69, 70):
        yield {'content_type': 'multipart/form-data; boundary=' + 'a' * n, 'expect': 'ok', 'boundary': 'a' * n}
