"""Case generators for C11.

Cases are explicit plain-data structures (see the check module for their meaning).  To keep
generation cheap (a deep tree of Hypothesis strategies costs ~6 ms per case here, the oracle
0.2 ms) every case is decoded from ONE fixed-size Hypothesis-drawn byte string with a fixed
layout: each range / candidate / operation / probe owns a block of bytes at a fixed offset, each
decision is `byte % number_of_choices` with the simplest choice at 0, so the library's shrinker
(zeroing and lowering bytes) simplifies one component at a time.  All randomness is the
library's.
"""
from hypothesis import strategies as st

MAINS = ['text', 'application']
SUBS = ['plain', 'json', 'xml']
PNAMES = ['a', 'b']
PLAIN_VALUES = ['1', '2', '1', '2', '1', '2', 'x y', 'x;y', 'x=y', 'x"y', '']
PROBE_VALUES = ['1', '2', '1', '2', 'x y']
COMMA_VALUES = ['x,y', ',', '1, 2']
BACKSLASH_VALUES = ['x\\', '\\', 'x\\y', '\\"']
WS = ['', '', '', ' ', ' ', '\t', '  ']

# weighted so that ranges and candidates collide often
MAINS_W = ['text', 'application', 'text']
SUBS_W = ['plain', 'json', 'plain', 'json', 'xml']
RTYPES = (
    [(m, s) for m in MAINS_W for s in SUBS_W]
    + [(m, '*') for m in MAINS_W] * 2
    + [('*', '*')] * 4
)
FRACS = [None, '', '0', '5', '1', '9', '00', '50', '25', '000', '500', '001', '999', '125', '0000', '5000', '1234',
         '00001']
ONE_FRACS = [None, '', '0', '00', '000', '0000']

BAD_RANGES = ['textplain', 'text', 'text/plain;q=2', 'text/plain;q=abc', 'text/plain;q=-0.5', 'text/plain;q=1.001',
              'text/plain;q=', 'text/plain;q=nan', 'text/plain;q=inf', 'text/plain;q=0x1', 'text/plain;q=1,5',
              '*/*;q=1.5', 'application/*;q=-1', 'json;q=0.5']
BAD_TYPES = ['textplain', 'json', '']


class Reader(object):
    """Total reader over a byte string (reads 0 past the end)."""

    def __init__(self, data, pos=0, end=None):
        self.d = data
        self.i = pos
        self.end = len(data) if end is None else min(end, len(data))

    def n(self, k):
        b = self.d[self.i] if self.i < self.end else 0
        self.i += 1
        return b % k

    def pick(self, seq):
        return seq[self.n(len(seq))]

    def block(self, size):
        r = Reader(self.d, self.i, self.i + size)
        self.i += size
        return r


RANGE_BLOCK = 24
CAND_BLOCK = 14


def decode_params(r, values, allow_upper=True):
    count = r.pick([0, 0, 1, 1, 1, 2, 2])
    first = r.n(2)
    out = []
    for j in range(2):
        value = r.pick(values)
        quoted = bool(r.n(2))
        upper = r.n(4) == 3 and allow_upper
        if j < count:
            out.append([PNAMES[(first + j) % 2], value, quoted, upper])
    return out


ZERO_FRACS = [None, '', '0', '00', '000', '0000']


def decode_q(r):
    kind = r.n(6)
    frac = r.pick(FRACS)
    digits = '%03d' % (r.n(250) * 4 + r.n(4))
    ndig = 1 + r.n(3)
    one = r.pick(ONE_FRACS)
    if kind in (0, 1):
        return None
    if kind == 2:
        return ['0', frac]
    if kind == 3:
        return ['0', digits[:ndig]]
    if kind == 4:
        return ['0', ZERO_FRACS[FRACS.index(frac) % len(ZERO_FRACS)]]
    return ['1', one]


def decode_range(r, values):
    t, s = r.pick(RTYPES)
    params = decode_params(r, values)
    q = decode_q(r)
    out = {'t': t, 's': s, 'p': params, 'q': q, 'qpos': r.n(3), 'qup': r.n(4) == 3,
           'ws': [r.pick(WS) for _ in range(4)], 'empty_param': r.n(10) == 9}
    # type and subtype tokens are case-insensitive (RFC 9110 8.3.1): a sixth of the ranges is spelt in another case
    out['tcase'] = r.pick([None, None, None, None, None, 'upper', None, None, None, None, None, 'title'])
    return out


def decode_candidate(r, values):
    t = r.pick(MAINS_W)
    s = r.pick(SUBS_W)
    params = decode_params(r, values, allow_upper=False)
    ws = ['', '', r.pick(WS), r.pick(WS)]
    return {'t': t, 's': s, 'p': params, 'ws': ws, 'tcase': r.pick([None] * 7 + ['upper'])}


ACCEPT_SIZE = 8 + 6 * RANGE_BLOCK + 5 * CAND_BLOCK + 16


def decode_accept(data, slice_name, invalid):
    r = Reader(data)
    head = r.block(8)
    values = {'main': PLAIN_VALUES, 'quoted_comma': PLAIN_VALUES + COMMA_VALUES * 3,
              'quoted_backslash': PLAIN_VALUES + BACKSLASH_VALUES * 3}[slice_name]
    nr = 1 + head.pick([0, 1, 1, 2, 2, 2, 3, 3, 4, 5])
    nc = 1 + head.pick([0, 1, 1, 2, 2, 3, 4])
    ranges = [decode_range(r.block(RANGE_BLOCK), values) for _ in range(6)][:nr]
    cands = [decode_candidate(r.block(CAND_BLOCK), values) for _ in range(5)][:nc]
    tail = r.block(16)
    if slice_name != 'main':
        special = COMMA_VALUES if slice_name == 'quoted_comma' else BACKSLASH_VALUES
        rng = ranges[tail.n(len(ranges))]
        name = tail.pick(PNAMES)
        rng['p'] = [p for p in rng['p'] if p[0] != name] + [[name, tail.pick(special), True, False]]
    if invalid:
        for _ in range(tail.pick([1, 1, 2, 1, 0])):
            bad = {'bad': tail.pick(BAD_RANGES)}
            ranges.insert(tail.n(len(ranges) + 1), bad)
        if tail.n(4) == 3:
            cands.insert(tail.n(len(cands) + 1), {'bad': tail.pick(BAD_TYPES)})
    return {'slice': slice_name, 'ranges': ranges, 'cands': cands}


def accept_cases(slice_name, invalid=False):
    return st.binary(min_size=ACCEPT_SIZE, max_size=ACCEPT_SIZE).map(lambda b: decode_accept(b, slice_name, invalid))


# ------------------------------------------------------------------ handler mappings

PROBE_BLOCK = 4 + RANGE_BLOCK
OP_BLOCK = 14
HISTORY_OPS = ['set', 'delete', 'copy', 'ior', 'update', 'pop', 'set', 'clear', 'setdefault', 'or', 'popitem',
               'delete', 'copy', 'ior']
E2E_OPS = ['set', 'delete', 'ior', 'update', 'replace', 'pop', 'copy_replace', 'setdefault', 'clear', 'set', 'ior']


def decode_probe(r, nkeys, raw_texts, allow_none=True):
    """A content type: exact key text, a raw text, or one structured range (a content type is a
    single type; q, when present, has at most 3 digits and is > 0 so that reading q as an ordinary
    parameter or as a weight designates the same handler)."""
    kind = r.pick(['k', 'r', 'raw', 'r', 'k', 'r', 'raw'])
    k = r.n(nkeys)
    raw = r.pick(([None] if allow_none else []) + raw_texts)
    _ = r.n(2)
    r1 = decode_range(r.block(RANGE_BLOCK), PROBE_VALUES)
    if r1['q'] is not None:
        if r1['q'][1] is not None:
            r1['q'][1] = r1['q'][1][:3]
        if not (r1['q'][0] == '1' or (r1['q'][1] or '').strip('0')):
            r1['q'] = None
    if kind == 'k':
        return {'k': k}
    if kind == 'raw':
        return {'raw': raw}
    return {'r': [r1]}


def decode_items(r, nkeys, nhandlers, min_size=0):
    n = r.pick([0, 1, 1, 2, 3])
    pairs = [[r.n(nkeys), r.n(nhandlers)] for _ in range(3)]
    return pairs[:max(n, min_size)]


def decode_history_op(r, nkeys, nhandlers):
    op = r.pick(HISTORY_OPS)
    on = r.pick(['A', 'B', 'A'])
    k = r.n(nkeys)
    h = r.n(nhandlers)
    how = r.n(4)
    flag = bool(r.n(2))
    items = decode_items(r, nkeys, nhandlers)
    if op in ('set', 'setdefault'):
        return {'op': op, 'on': on, 'k': k, 'h': h}
    if op == 'delete':
        return {'op': op, 'on': on, 'k': k}
    if op == 'pop':
        return {'op': op, 'on': on, 'k': k, 'default': flag}
    if op == 'update':
        if flag and how in (1, 2) and items:
            # the argument fails part-way: a generator of pairs that raises after its items, or a malformed last pair
            return {'op': op, 'on': on, 'items': items, 'how': ['', 'failing_gen', 'bad_pair'][how]}
        return {'op': op, 'on': on, 'items': items, 'how': ['dict', 'pairs', 'kwargs', 'handlers'][how]}
    if op == 'ior':
        if flag and how == 1 and items:
            return {'op': op, 'on': on, 'items': items, 'how': 'failing_gen'}
        return {'op': op, 'on': on, 'items': items, 'how': ['dict', 'pairs', 'handlers', 'dict'][how]}
    if op == 'or':
        return {'op': op, 'on': on, 'items': items, 'to': 'B' if flag else 'A'}
    if op == 'copy':
        return {'op': op, 'on': on, 'to': ['B', 'B', 'A', 'B'][how]}
    return {'op': op, 'on': on}


HISTORY_SIZE = 16 + 12 * OP_BLOCK + 6 * PROBE_BLOCK + 2 * PROBE_BLOCK


def decode_history(data, nkeys, nhandlers, raw_texts):
    r = Reader(data)
    head = r.block(16)
    nsteps = 1 + head.n(12)
    nprobes = 2 + head.n(5)
    init = None if head.n(5) == 4 else decode_items(head, nkeys, nhandlers, min_size=1)
    steps = [decode_history_op(r.block(OP_BLOCK), nkeys, nhandlers) for _ in range(12)][:nsteps]
    probes = [decode_probe(r.block(PROBE_BLOCK), nkeys, raw_texts) for _ in range(6)][:nprobes]
    defaults = [decode_probe(r.block(PROBE_BLOCK), nkeys, raw_texts, allow_none=False) for _ in range(2)]
    return {'init': init, 'steps': steps, 'probes': probes, 'defaults': defaults}


def history_cases(nkeys, nhandlers, raw_texts):
    return st.binary(min_size=HISTORY_SIZE, max_size=HISTORY_SIZE).map(
        lambda b: decode_history(b, nkeys, nhandlers, raw_texts))


def decode_e2e_op(r, nkeys, nhandlers):
    op = r.pick(E2E_OPS)
    side = r.pick(['req', 'resp'])
    k = r.n(nkeys)
    h = r.n(nhandlers)
    items = decode_items(r, nkeys, nhandlers)
    if op in ('set', 'setdefault'):
        return {'op': op, 'side': side, 'k': k, 'h': h}
    if op == 'delete':
        return {'op': op, 'side': side, 'k': k}
    if op == 'pop':
        return {'op': op, 'side': side, 'k': k, 'default': True}
    if op in ('update', 'ior'):
        return {'op': op, 'side': side, 'items': items, 'how': 'dict'}
    if op == 'replace':
        return {'op': op, 'side': side, 'items': items or [[k, h]]}
    return {'op': op, 'side': side}


E2E_STEP_BLOCK = 2 + 2 * OP_BLOCK
E2E_POOL = 3
E2E_SIZE = 24 + (1 + E2E_POOL) * PROBE_BLOCK + 8 * E2E_STEP_BLOCK


def decode_e2e(data, nkeys, nhandlers, raw_texts, default_raw_texts):
    r = Reader(data)
    head = r.block(24)
    nsteps = 1 + head.n(8)
    stack = head.pick(['wsgi', 'asgi'])
    inits = []
    for _ in range(2):
        inits.append({'mode': head.pick(['replace', 'inplace']), 'items': decode_items(head, nkeys, nhandlers, min_size=1)})
    default = decode_probe(r.block(PROBE_BLOCK), nkeys, default_raw_texts, allow_none=False)
    pool = [decode_probe(r.block(PROBE_BLOCK), nkeys, raw_texts) for _ in range(E2E_POOL)]
    steps = []
    for _ in range(8):
        b = r.block(E2E_STEP_BLOCK)
        nops = b.pick([1, 1, 1, 2])
        _ = b.n(2)
        ops = [decode_e2e_op(b.block(OP_BLOCK), nkeys, nhandlers) for _ in range(2)][:nops]
        steps.append({'ops': ops})
    return {'default': default, 'init_req': inits[0], 'init_resp': inits[1], 'pool': pool, 'steps': steps[:nsteps],
            'stack': stack}


def e2e_cases(nkeys, nhandlers, raw_texts, default_raw_texts):
    return st.binary(min_size=E2E_SIZE, max_size=E2E_SIZE).map(
        lambda b: decode_e2e(b, nkeys, nhandlers, raw_texts, default_raw_texts))
