"""Coverage-guided campaign (Atheris / libFuzzer) over a Suite that provides `fuzz_decode(bytes) -> case | None`.

Runs in its own process (libFuzzer owns the process and exits it):

    python -m vf.fuzz <ID> <suite> <runs> <seed> <outdir>

The oracle is the suite's own `run(case)`: the semantic check is inside the target.  A Violation is written to
<outdir>/violation.json (the case as plain data, so the ordinary replay path works) and the process aborts; counters
go to <outdir>/stats.json every 2000 executions.  Falcon is imported from source first and then instrumented with
atheris.instrument_all() so that libFuzzer gets coverage feedback from the pure-Python parsers.
"""
import json
import os
import sys
import time


def main(argv):
    prop, suite_name, runs, seed, outdir = argv[0], argv[1], int(argv[2]), int(argv[3]), argv[4]
    from vf import boot
    boot.ensure_deps(('hypothesis',))
    if boot.DEPS not in sys.path:
        sys.path.append(boot.DEPS)
    boot.import_falcon()
    import importlib
    from vf import core
    from vf import run as R
    from vf.core import Violation
    mod = importlib.import_module(R.CHECK_MODULES[prop])
    suite = {s.name: s for s in mod.SUITES}[suite_name]
    known = R._known_preds(mod, R.load_findings(prop))
    import atheris
    suite.setup()
    stats = {'evaluations': 0, 'decoded': 0, 'nontrivial': 0, 'excluded': 0, 'labels': {}, 'samples': []}
    seen = set()
    t0 = time.time()

    def flush():
        stats['wall_s'] = round(time.time() - t0, 1)
        with open(os.path.join(outdir, 'stats.json.tmp'), 'w') as fh:
            json.dump(stats, fh)
        os.replace(os.path.join(outdir, 'stats.json.tmp'), os.path.join(outdir, 'stats.json'))

    def test_one(data):
        stats['evaluations'] += 1
        if stats['evaluations'] % 500 == 0 or stats['evaluations'] >= runs - 2:
            flush()  # libFuzzer exits the process without running finalisers
        case = suite.fuzz_decode(data)
        if case is None:
            return
        case = core.roundtrip(case)
        stats['decoded'] += 1
        try:
            info = R.execute(suite, case, known, None)
        except Violation as v:
            with open(os.path.join(outdir, 'violation.json'), 'w') as fh:
                fh.write(core.dumps({'property': prop, 'suite': suite_name, 'case': case,
                                     'violation': {'kind': v.kind, 'detail': v.detail}}))
            flush()
            raise
        if info.labels and info.labels[0].startswith('excluded:'):
            stats['excluded'] += 1
        if info.nontrivial:
            fp = core.fingerprint(case)
            if fp not in seen:
                seen.add(fp)
                stats['nontrivial'] += 1
                if len(stats['samples']) < 3:
                    stats['samples'].append(json.loads(core.dumps(case)))
        for lb in info.labels:
            stats['labels'][lb] = stats['labels'].get(lb, 0) + 1

    # instrument falcon's own functions only (coverage feedback where it matters, no slowdown elsewhere)
    import inspect
    n_instr = 0
    done = set()
    for mname, m in list(sys.modules.items()):
        if not (mname == 'falcon' or mname.startswith('falcon.')) or mname.startswith('falcon.testing'):
            continue
        for obj in list(vars(m).values()):
            funcs = []
            if inspect.isfunction(obj):
                funcs.append(obj)
            elif inspect.isclass(obj) and (getattr(obj, '__module__', None) or '').startswith('falcon'):
                for v in vars(obj).values():
                    if isinstance(v, (staticmethod, classmethod)):
                        v = v.__func__
                    if isinstance(v, property):
                        funcs.extend(f for f in (v.fget, v.fset) if f is not None)
                    elif inspect.isfunction(v):
                        funcs.append(v)
            for f in funcs:
                if id(f) in done or not (getattr(f, '__module__', None) or '').startswith('falcon'):
                    continue
                done.add(id(f))
                try:
                    atheris.instrument_func(f)
                    n_instr += 1
                except Exception:
                    pass
    stats['instrumented_functions'] = n_instr
    corpus = os.path.join(outdir, 'corpus')
    os.makedirs(corpus, exist_ok=True)
    for i, seed_input in enumerate(getattr(suite, 'fuzz_corpus', lambda: [])()):
        with open(os.path.join(corpus, 'seed-%d' % i), 'wb') as fh:
            fh.write(seed_input)
    args = [sys.argv[0], '-runs=%d' % runs, '-seed=%d' % (seed or 1), '-max_len=%d' % getattr(suite, 'fuzz_max_len', 256),
            '-print_final_stats=0', '-verbosity=0', corpus]
    atheris.Setup(args, test_one)
    try:
        atheris.Fuzz()
    finally:
        flush()


if __name__ == '__main__':
    main(sys.argv[1:])
