"""Deterministic hang detection: count line events executed inside the repo's source."""
import os
import sys

from vf import boot


class BudgetExceeded(BaseException):
    pass


def run_with_budget(fn, budget=2_000_000, subdir='falcon'):
    """Run fn(); raise BudgetExceeded when more than `budget` line events are
    executed in files under REPO/subdir.  Independent of wall-clock time."""
    prefix = os.path.join(boot.REPO, subdir) + os.sep
    count = [0]
    cache = {}

    def local(frame, event, arg):
        if event == 'line':
            count[0] += 1
            if count[0] > budget:
                raise BudgetExceeded()
        return local

    def tracer(frame, event, arg):
        fn_ = frame.f_code.co_filename
        ok = cache.get(fn_)
        if ok is None:
            ok = cache[fn_] = os.path.realpath(fn_).startswith(prefix)
        return local if ok else None

    old = sys.gettrace()
    sys.settrace(tracer)
    try:
        return fn()
    finally:
        sys.settrace(old)
