"""Bootstrap: third-party deps path, source-only import of falcon from $VERIF_REPO.

/repo contains stale, unrebuildable Cython extension modules that shadow the
.py sources.  Every check imports falcon through the finder below so that what
runs is the Python source of the *current working tree*.
"""
import importlib.abc
import importlib.machinery
import os
import sys
import tempfile

VERIF_ROOT = os.path.dirname(os.path.dirname(os.path.abspath(__file__)))
REPO = os.path.realpath(os.environ.get('VERIF_REPO', '/repo'))
DEPS = os.path.join(VERIF_ROOT, '.deps')
WHEELS = '/opt/veriftools/wheels'

_installed = False


class _SourceOnlyFalconFinder(importlib.abc.MetaPathFinder):
    """Resolve falcon and falcon.* only to .py sources under REPO."""

    _details = (
        importlib.machinery.SourceFileLoader,
        importlib.machinery.SOURCE_SUFFIXES,
    )

    def find_spec(self, fullname, path=None, target=None):
        if fullname != 'falcon' and not fullname.startswith('falcon.'):
            return None
        search = list(path) if path else [REPO]
        for p in search:
            rp = os.path.realpath(p)
            if not (rp == REPO or rp.startswith(REPO + os.sep)):
                continue
            finder = importlib.machinery.FileFinder(p, self._details)
            spec = finder.find_spec(fullname)
            if spec is not None:
                return spec
        raise ModuleNotFoundError(
            'No source module named %r under %s' % (fullname, REPO), name=fullname
        )


def install():
    """Idempotent.  Must run before the first `import falcon`."""
    global _installed
    if _installed:
        return
    _installed = True
    sys.dont_write_bytecode = True
    try:
        sys.pycache_prefix = tempfile.mkdtemp(prefix='vf-pyc-')
    except Exception:
        pass
    if os.path.isdir(DEPS) and DEPS not in sys.path:
        sys.path.append(DEPS)
    for name in [m for m in sys.modules if m == 'falcon' or m.startswith('falcon.')]:
        del sys.modules[name]
    sys.meta_path.insert(0, _SourceOnlyFalconFinder())
    # drop any path entry that would let the normal finders see /repo
    os.environ.setdefault('FALCON_VERIF', '1')


def cleanup():
    import shutil

    p = getattr(sys, 'pycache_prefix', None)
    if p and os.path.basename(p).startswith('vf-pyc-'):
        shutil.rmtree(p, ignore_errors=True)


def import_falcon():
    install()
    import falcon
    import falcon.asgi  # noqa: F401  (registers the ASGI multipart form class)
    import falcon.testing  # noqa: F401

    f = os.path.realpath(falcon.__file__)
    assert f.startswith(REPO + os.sep) and f.endswith('.py'), f
    # every loaded falcon module must come from source
    for name, mod in list(sys.modules.items()):
        if name == 'falcon' or name.startswith('falcon.'):
            mf = getattr(mod, '__file__', None)
            assert mf is None or mf.endswith('.py'), (name, mf)
    return falcon


def source_fingerprint():
    """Hash of all falcon/*.py under REPO (which tree was checked)."""
    import hashlib

    h = hashlib.sha1()
    n = 0
    base = os.path.join(REPO, 'falcon')
    for root, dirs, files in os.walk(base):
        dirs.sort()
        for fn in sorted(files):
            if fn.endswith('.py'):
                fp = os.path.join(root, fn)
                h.update(os.path.relpath(fp, base).encode())
                with open(fp, 'rb') as fh:
                    h.update(fh.read())
                n += 1
    return {'files': n, 'sha1': h.hexdigest()}


def ensure_deps(mods=('hypothesis',)):
    """Install missing third-party modules from the offline wheelhouse into .deps."""
    import importlib
    import subprocess

    if os.path.isdir(DEPS) and DEPS not in sys.path:
        sys.path.append(DEPS)
    missing = []
    for m in mods:
        try:
            importlib.import_module(m)
        except Exception:
            missing.append(m)
    if not missing:
        return []
    os.makedirs(DEPS, exist_ok=True)
    failed = []
    for m in missing:
        r = subprocess.run(
            [sys.executable, '-m', 'pip', 'install', '--no-index', '--find-links',
             WHEELS, '--target', DEPS, '--quiet', m],
            capture_output=True, text=True,
        )
        if r.returncode != 0:
            failed.append((m, r.stderr[-400:]))
    if DEPS not in sys.path:
        sys.path.append(DEPS)
    importlib.invalidate_caches()
    return failed
