"""C07 — Request body streams deliver exactly the declared body: no loss, no over-read."""
import itertools

from hypothesis import strategies as st

import falcon
import falcon.asgi
from falcon.errors import OperationNotAllowed

from vf.core import Info, Suite, Violation
from vf.drivers import asgi as asgi_driver
from vf.drivers import wsgi as wsgi_driver

LEVEL = 'exploration'
RULE = (
    'a case = body bytes as the server holds them (WSGI: wsgi.input incl. pipelined bytes beyond the body; ASGI: '
    'http.request event script with optional disconnect), a Content-Length regime (absent / exact / shorter / longer '
    'than the data) and an operation history over read(n)/read()/readline/readlines/iteration/readall/exhaust/close; '
    'non-trivial = history of >= 2 operations in which a line/iteration/sized operation precedes another read, or '
    'Content-Length differs from the data length, or a disconnect / oversized / key-less event occurs; '
    'distinct = distinct case fingerprint'
)
ASSUMPTIONS = [
    'negative sizes other than -1 are not generated (undocumented)',
    'ASGI read() and iteration are mixed only as documented (one of them to completion, or exhaust/close afterwards)',
    'wsgi.input behaves like a file (read(n) returns n bytes unless EOF) except in the labelled short-read cases',
    'a read that returns b"" (or StopIteration) is an end-of-stream report',
]


def _line_ok(chunk):
    """A line has at most one newline, at its end."""
    i = chunk.find(b'\n')
    return i < 0 or i == len(chunk) - 1


# ---------------------------------------------------------------- WSGI


def _cl_text(cl, case):
    """Content-Length = 1*DIGIT (RFC 9110 8.6): leading zeros are legal spellings of the same length."""
    z = case.get('cl_zeros') or 0
    return '0' * z + str(cl)


def run_wsgi(case):
    data = case['data']
    cl = case['content_length']
    short = case.get('short') or None
    headers = []
    if cl is not None:
        headers.append(('Content-Length', _cl_text(cl, case)))
    headers += [tuple(h) for h in case.get('extra_headers') or []]
    inp = wsgi_driver.Input(data, short=short, fail_at=case.get('fail_at'))
    env = wsgi_driver.build_environ('POST', '/', headers=headers, input_obj=inp)
    req = falcon.Request(env)
    stream = req.bounded_stream
    limit = cl or 0
    B = data[:limit]
    got = bytearray()
    ctx = lambda: 'data=%r Content-Length=%r short=%r fail_at=%r ops=%r' % (data, cl, short, case.get('fail_at'), case['ops'])  # noqa: E731
    done_ops = []

    def took(chunk, what):
        if type(chunk) is not bytes:
            raise Violation('wsgi_stream_type', '%s returned %r; %s' % (what, chunk, ctx()))
        got.extend(chunk)
        if bytes(got) != B[:len(got)]:
            raise Violation('wsgi_stream_not_prefix', '%s after %r: returned so far %r is not a prefix of the declared body %r; %s'
                            % (what, done_ops, bytes(got), B, ctx()))

    def eos(what):
        # an end-of-stream report: everything must have been delivered (if the server had it)
        if len(got) < len(B):
            raise Violation('wsgi_stream_lost_data', '%s after %r reported end-of-stream after %d of %d body bytes (%r of %r); %s'
                            % (what, done_ops, len(got), len(B), bytes(got), B, ctx()))

    for op in case['ops']:
        k = op[0]
        before = len(got)
        if case.get('fail_at') and k in ('read', 'readline', 'next'):
            # single-call operations under a transient server failure: the application catches the error and carries
            # on; a failed call returned nothing, so it must not have moved the stream either
            n = op[1] if len(op) > 1 else None
            try:
                if k == 'next':
                    chunk = next(stream)
                elif k == 'read':
                    chunk = stream.read() if n == 'noarg' else stream.read(n)
                else:
                    chunk = stream.readline() if n == 'noarg' else stream.readline(n)
            except wsgi_driver.TransientInputError:
                done_ops.append(op + ['failed'])
                if stream.eof and len(got) < len(B):
                    raise Violation('wsgi_eof_early', 'after %r (server read failed, nothing returned) eof is True with %d of %d body '
                                    'bytes delivered; %s' % (done_ops, len(got), len(B), ctx()))
                continue
            except StopIteration:
                eos('next()')
                done_ops.append(op)
                continue
            took(chunk, '%s(%r)' % (k, n))
            sized = isinstance(n, int) and n >= 0
            if sized and len(chunk) > n:
                raise Violation('wsgi_read_exceeds_size', '%s(%d) returned %d bytes; %s' % (k, n, len(chunk), ctx()))
            if not chunk and not (sized and n == 0):
                eos('%s(%r)' % (k, n))
        elif k == 'read':
            n = op[1]
            chunk = stream.read() if n == 'noarg' else stream.read(n)
            took(chunk, 'read(%r)' % (n,))
            sized = isinstance(n, int) and n >= 0
            if sized and len(chunk) > n:
                raise Violation('wsgi_read_exceeds_size', 'read(%d) returned %d bytes; %s' % (n, len(chunk), ctx()))
            if not chunk and not (sized and n == 0):
                eos('read(%r)' % (n,))
            if not short:
                want = (len(B) - before) if not sized else min(n, len(B) - before)
                if len(chunk) != want:
                    raise Violation('wsgi_read_short', 'read(%r) after %r returned %d bytes, %d available within the body; %s'
                                    % (n, done_ops, len(chunk), want, ctx()))
        elif k == 'readline':
            n = op[1]
            chunk = stream.readline() if n == 'noarg' else stream.readline(n)
            took(chunk, 'readline(%r)' % (n,))
            sized = isinstance(n, int) and n >= 0
            if sized and len(chunk) > n:
                raise Violation('wsgi_readline_exceeds_size', 'readline(%d) returned %d bytes; %s' % (n, len(chunk), ctx()))
            if not _line_ok(chunk):
                raise Violation('wsgi_readline_not_a_line', 'readline(%r) returned %r; %s' % (n, chunk, ctx()))
            if not chunk and not (sized and n == 0):
                eos('readline(%r)' % (n,))
        elif k == 'readlines':
            n = op[1]
            lines = stream.readlines() if n == 'noarg' else stream.readlines(n)
            for ln in lines:
                took(ln, 'readlines(%r)' % (n,))
                if not _line_ok(ln) or not ln:
                    raise Violation('wsgi_readlines_not_lines', 'readlines(%r) returned %r; %s' % (n, lines, ctx()))
            if n == 'noarg' or n is None or n < 0:
                eos('readlines(%r)' % (n,))
            elif n > 0 and sum(map(len, lines)) > n:
                # a hint may be overshot by less than one line
                if sum(map(len, lines[:-1])) >= n:
                    raise Violation('wsgi_readlines_hint', 'readlines(%d) returned %r (hint already reached before the last line); %s' % (n, lines, ctx()))
        elif k == 'next':
            try:
                chunk = next(stream)
            except StopIteration:
                eos('next()')
            else:
                took(chunk, 'next()')
                if not chunk or not _line_ok(chunk):
                    raise Violation('wsgi_iter_not_a_line', 'next() returned %r; %s' % (chunk, ctx()))
        elif k == 'iter_all':
            for chunk in stream:
                took(chunk, 'iteration')
                if not chunk or not _line_ok(chunk):
                    raise Violation('wsgi_iter_not_a_line', 'iteration yielded %r; %s' % (chunk, ctx()))
            eos('iteration')
        elif k == 'exhaust':
            stream.exhaust()
            # discarded bytes count as delivered for the purposes of eof
            rest = B[len(got):]
            got.extend(rest)
        else:
            raise AssertionError(op)
        done_ops.append(op)
        # the server's stream is never asked for bytes beyond Content-Length
        if inp.pos > limit:
            raise Violation('wsgi_overread', 'after %r wsgi.input cursor is at %d, beyond Content-Length %d (calls %r); %s'
                            % (done_ops, inp.pos, limit, inp.calls, ctx()))
        for name, size in inp.calls:
            if name in ('read', 'readline') and (size is None or size < 0):
                raise Violation('wsgi_unbounded_call', 'wsgi.input.%s(%r) would block on a real socket; %s' % (name, size, ctx()))
        # eof agrees with what was returned
        e = stream.eof
        if e and len(got) < len(B):
            raise Violation('wsgi_eof_early', 'after %r eof is True with %d of %d body bytes delivered; %s' % (done_ops, len(got), len(B), ctx()))
        if (not e) and len(got) == limit:
            raise Violation('wsgi_eof_missing', 'after %r eof is False although all %d declared bytes were delivered; %s' % (done_ops, limit, ctx()))
    return B


def classify_wsgi(case):
    ops = case['ops']
    labels = ['wsgi']
    cl = case['content_length']
    n = len(case['data'])
    regime = 'cl_absent' if cl is None else 'cl_exact' if cl == n else 'cl_shorter' if cl < n else 'cl_longer'
    labels.append(regime)
    seq = False
    for i, op in enumerate(ops[:-1]):
        if op[0] in ('readline', 'readlines', 'next') or (op[0] == 'read' and isinstance(op[1], int) and op[1] >= 0):
            if any(o[0] in ('read', 'readline', 'readlines', 'next', 'iter_all') for o in ops[i + 1:]):
                seq = True
    if seq:
        labels.append('line_or_sized_then_read')
    if case.get('short'):
        labels.append('short_reads')
    if case.get('fail_at'):
        labels.append('transient_server_read_failure')
    if case.get('cl_zeros'):
        labels.append('content_length_with_leading_zeros')
    for op in ops:
        labels.append('op:' + op[0])
    return Info(seq or regime in ('cl_shorter', 'cl_longer'), sorted(set(labels)))


W_OPS = [
    ['read', 1], ['read', 3], ['read', 'noarg'], ['read', -1], ['read', None], ['readline', 'noarg'], ['readline', 2],
    ['readlines', 'noarg'], ['readlines', 2], ['next'], ['iter_all'], ['exhaust'],
]
BODIES = [b'', b'a', b'ab\ncd', b'\n\nab', b'abc\n', b'a\nb\nc\nd']


class WsgiEnum(Suite):
    """WSGI BoundedStream (through falcon.Request.bounded_stream): ALL histories of <= 3 operations from a 12-operation
    alphabet x 6 newline-rich bodies x Content-Length regimes (absent, exact, shorter by 1/2, longer by 2); wsgi.input
    holds pipelined bytes beyond the body and records every call."""

    name = 'wsgi_enum'
    exhaustive = True
    budget = {'quick': 1, 'thorough': 1}

    def cases(self, tier):
        max_ops = 3
        for body in BODIES:
            regimes = [None, len(body), len(body) + 2]
            if len(body) >= 1:
                regimes.append(len(body) - 1)
            if len(body) >= 3:
                regimes.append(len(body) - 2)
            for cl in regimes:
                # when CL <= len(body) the server stream holds pipelined bytes of the next request
                data = body + (b'NEXT\nREQ' if (cl is not None and cl <= len(body)) or cl is None else b'')
                if cl is not None and cl > len(body):
                    data = body
                for n in range(1, max_ops + 1):
                    for h in itertools.product(range(len(W_OPS)), repeat=n):
                        yield {'data': data, 'content_length': cl, 'ops': [W_OPS[i] for i in h]}
                        if n == 1 and cl is not None:
                            yield {'data': data, 'content_length': cl, 'ops': [W_OPS[i] for i in h], 'cl_zeros': 2}

    def run(self, case):
        run_wsgi(case)
        return classify_wsgi(case)


# other request headers must not change how the body is bounded
_extra_headers = st.one_of(st.just([]), st.just([]), st.lists(st.sampled_from([
    ['Transfer-Encoding', 'chunked'], ['Expect', '100-continue'], ['Content-Type', 'text/plain'], ['Connection', 'keep-alive'],
    ['Content-Encoding', 'gzip'], ['TE', 'trailers']]), min_size=1, max_size=2, unique_by=lambda h: h[0]))
_size = st.one_of(st.integers(0, 12), st.sampled_from([-1, None, 'noarg', 64, 100000]))
_wop = st.one_of(
    st.tuples(st.just('read'), _size), st.tuples(st.just('read'), _size),
    st.tuples(st.just('readline'), _size), st.tuples(st.just('readlines'), _size),
    st.tuples(st.just('next')), st.tuples(st.just('iter_all')), st.tuples(st.just('exhaust')),
)
_body = st.lists(st.sampled_from([b'a', b'bc', b'\n', b'\r\n', b'xyz\n', b'\n\n', b'0123456789']), max_size=12).map(b''.join)


class WsgiRandom(Suite):
    """WSGI BoundedStream: random histories of <= 10 operations over bodies of 0-64 bytes, Content-Length absent /
    exact / shorter / longer, pipelined bytes after the body, optional short reads from wsgi.input."""

    name = 'wsgi_random'
    budget = {'quick': 10000, 'thorough': 300000}

    def strategy(self, tier):
        def build(body, regime, extra, ops, short):
            if regime == 'absent':
                cl = None
            elif regime == 'exact':
                cl = len(body)
            elif regime == 'shorter':
                cl = max(0, len(body) - extra)
            else:
                cl = len(body) + extra
            data = body if regime == 'longer' else body + b'PIPELINED\nNEXT'
            return {'data': data, 'content_length': cl, 'ops': ops, 'short': short,
                    'cl_zeros': (len(ops) % 3) if (cl is not None and len(body) % 4 == 0) else 0}
        base = st.builds(build, _body, st.sampled_from(['absent', 'exact', 'exact', 'shorter', 'longer']), st.integers(1, 5),
                         st.lists(_wop, min_size=1, max_size=10),
                         st.one_of(st.none(), st.none(), st.lists(st.integers(0, 4), min_size=1, max_size=3)))
        plain = st.builds(lambda c, extra: dict(c, extra_headers=extra), base, _extra_headers)
        # a sixth of the histories run against a server whose read()/readline() fails transiently (nothing consumed) at
        # 1-3 of its first calls; those histories use the single-call operations only
        single = st.lists(st.sampled_from([['read', 1], ['read', 3], ['read', 7], ['read', 'noarg'], ['read', -1], ['readline', 'noarg'],
                                           ['readline', 2], ['next']]), min_size=2, max_size=10)
        faulty = st.builds(lambda c, ops, fail: dict(c, ops=ops, fail_at=sorted(fail), extra_headers=[]), base, single,
                           st.sets(st.integers(0, 6), min_size=1, max_size=3))
        return st.one_of(plain, plain, plain, plain, plain, faulty)

    def run(self, case):
        run_wsgi(case)
        return classify_wsgi(case)


class WsgiBig(Suite):
    """WSGI BoundedStream over bodies beyond the moderate range (64 KiB +- 1, 70 000, 140 001, 300 000 bytes; one single line
    without a newline, lines of 100 / 9000 bytes, with and without a final newline) with pipelined bytes after the body,
    Content-Length exact or shorter than what the server holds, full and short reads from wsgi.input; 14 operation
    patterns over readline / readlines / iteration / read(n) / exhaust.  Same flat-buffer reference as wsgi_random."""

    name = 'wsgi_big'
    exhaustive = True
    budget = {'quick': 1, 'thorough': 1}
    OPS = [
        [['readline', 'noarg'], ['readline', 'noarg'], ['read', 'noarg']],
        [['iter_all']],
        [['readlines', 'noarg']],
        [['next'], ['next'], ['readlines', 64], ['read', -1]],
        [['read', 100000], ['readline', 'noarg'], ['read', 'noarg']],
        [['read', 3], ['exhaust'], ['read', 'noarg']],
        [['readline', 100000], ['readline', -1], ['read', None]],
        [['read', 65536], ['read', 1], ['readline', 'noarg'], ['exhaust']],
        [['readline', 7], ['readline', 'noarg'], ['readline', 'noarg'], ['readline', 'noarg'], ['iter_all']],
        [['exhaust'], ['readline', 'noarg']],
        [['read', 64], ['readlines', 100000], ['read', 'noarg']],
        [['read', 'noarg']],
        [['next']] * 8 + [['read', 12], ['readline', 'noarg'], ['read', -1]],
        [['readlines', 70000], ['readline', 'noarg'], ['read', -1]],
    ]

    def cases(self, tier):
        sizes = (65535, 65536, 65537, 70000, 140001, 300000)
        for size in (sizes if tier != 'quick' else (65537, 70000, 140001)):
            for shape in ('one_line', 'lines100', 'lines9000'):
                for final_nl in (False, True):
                    for regime in ('exact', 'shorter'):
                        for short in (None, [3, 0, 4]):
                            for oi in range(len(self.OPS)):
                                if short is not None and oi % 3:
                                    continue
                                yield {'size': size, 'shape': shape, 'final_nl': final_nl, 'regime': regime, 'short': short, 'ops': oi}

    def run(self, case):
        size = case['size']
        if case['shape'] == 'one_line':
            body = bytes(97 + i % 23 for i in range(size))
        else:
            n = 100 if case['shape'] == 'lines100' else 9000
            body = b''.join(bytes(65 + (i + j) % 26 for j in range(n - 1)) + b'\n' for i in range(size // n + 1))[:size]
        body = body[:-1] + (b'\n' if case['final_nl'] else b'z')
        cl = len(body) if case['regime'] == 'exact' else len(body) - 5
        full = {'data': body + b'PIPELINED\nNEXT REQUEST\n', 'content_length': cl, 'ops': [list(o) for o in self.OPS[case['ops']]],
                'short': case['short'], 'cl_zeros': 0, 'extra_headers': []}
        try:
            run_wsgi(full)
        except Violation as v:
            d = v.detail
            raise Violation(v.kind, '%s ... %s\n  compact case=%r ops=%r' % (d[:300], d[-300:], case, self.OPS[case['ops']]))
        return Info(True, ['shape:' + case['shape'], 'cl:' + case['regime'], 'short_reads' if case['short'] else 'full_reads',
                           'size:%s' % ('<=64K' if size <= 65536 else '>64K'), 'ops:%d' % case['ops']])



# ---------------------------------------------------------------- ASGI


def asgi_expected(events, cl):
    """Body bytes a spec-reading of the event script delivers, truncated to Content-Length."""
    out = bytearray()
    for ev in events:
        if ev['type'] == 'http.disconnect':
            break
        out.extend(ev.get('body', b''))
        if not ev.get('more_body', False):
            break
    return bytes(out) if cl is None else bytes(out[:cl])


def run_asgi(case):
    events = case['events']
    cl = case['content_length']
    preload = case.get('preload', True)
    headers = []
    if cl is not None:
        headers.append(('Content-Length', _cl_text(cl, case)))
    headers += [tuple(h) for h in case.get('extra_headers') or []]
    scope = asgi_driver.build_scope('POST', '/', headers=headers)
    B = asgi_expected(events, cl)
    ctx = lambda: 'events=%r Content-Length=%r preload=%r ops=%r' % (events, cl, preload, case['ops'])  # noqa: E731

    # index after which receive() must never be awaited
    arrived = 0
    last_needed = len(events) - 1
    for i, ev in enumerate(events):
        if ev['type'] == 'http.disconnect' or not ev.get('more_body', False):
            last_needed = i
            break
        arrived += len(ev.get('body', b''))
        if cl is not None and arrived >= cl:
            last_needed = i
            break
    state = {'i': 0, 'calls': 0}

    async def receive():
        i = state['i']
        state['calls'] += 1
        if i > last_needed:
            raise Violation('asgi_receive_after_end', 'receive() awaited after the %s (event #%d); %s'
                            % ('terminal event / Content-Length bytes', last_needed, ctx()))
        state['i'] = i + 1
        return dict(events[i])

    async def main():
        first = await receive() if preload else None
        if first is not None and first['type'] == 'http.disconnect':
            return
        req = falcon.asgi.Request(scope, receive, first_event=first)
        stream = req.stream
        got = bytearray()
        done_ops = []
        closed = False
        iterated = False

        def took(chunk, what):
            if type(chunk) is not bytes:
                raise Violation('asgi_stream_type', '%s returned %r; %s' % (what, chunk, ctx()))
            got.extend(chunk)
            if bytes(got) != B[:len(got)]:
                raise Violation('asgi_stream_not_prefix', '%s after %r: returned so far %r is not a prefix of the body %r; %s'
                                % (what, done_ops, bytes(got), B, ctx()))

        def eos(what):
            if len(got) < len(B):
                raise Violation('asgi_stream_lost_data', '%s after %r reported end-of-stream after %d of %d bytes; %s'
                                % (what, done_ops, len(got), len(B), ctx()))

        for op in case['ops']:
            k = op[0]
            before = len(got)
            drained = False
            try:
                if k == 'read':
                    n = op[1]
                    chunk = await (stream.read() if n == 'noarg' else stream.read(n))
                    if closed:
                        raise Violation('asgi_closed_stream_usable', 'read after close returned %r; %s' % (chunk, ctx()))
                    took(chunk, 'read(%r)' % (n,))
                    sized = isinstance(n, int) and n >= 0
                    if sized:
                        if len(chunk) > n:
                            raise Violation('asgi_read_exceeds_size', 'read(%d) after %r returned %d bytes %r; %s' % (n, done_ops, len(chunk), chunk, ctx()))
                        if len(chunk) != min(n, len(B) - before):
                            raise Violation('asgi_read_short', 'read(%d) after %r returned %d bytes, %d available; %s'
                                            % (n, done_ops, len(chunk), min(n, len(B) - before), ctx()))
                    else:
                        eos('read(%r)' % (n,))
                        drained = True
                elif k == 'readall':
                    chunk = await stream.readall()
                    if closed:
                        raise Violation('asgi_closed_stream_usable', 'readall after close returned %r; %s' % (chunk, ctx()))
                    took(chunk, 'readall()')
                    eos('readall()')
                    drained = True
                elif k == 'iter_all':
                    if closed or iterated:
                        try:
                            async for chunk in stream:
                                took(chunk, 'iteration')
                        except OperationNotAllowed:
                            pass
                        else:
                            # after eof a second iteration legally yields nothing
                            if len(got) < len(B):
                                raise Violation('asgi_iter_twice', 'second iteration / iteration after close did not raise; %s' % ctx())
                    else:
                        async for chunk in stream:
                            took(chunk, 'iteration')
                            if not chunk:
                                raise Violation('asgi_iter_empty_chunk', 'iteration yielded an empty chunk; %s' % ctx())
                        eos('iteration')
                        drained = True
                        iterated = True
                elif k == 'iter_one':
                    # abandon after the first chunk; the generated history only exhausts/closes afterwards
                    if not (closed or iterated):
                        it = stream.__aiter__()
                        try:
                            chunk = await it.__anext__()
                        except StopAsyncIteration:
                            eos('iteration')
                            drained = True
                        else:
                            took(chunk, 'first iteration chunk')
                        await it.aclose()
                        iterated = True
                elif k == 'exhaust':
                    try:
                        await stream.exhaust()
                    except ValueError:
                        if not closed:
                            raise
                    else:
                        if closed:
                            raise Violation('asgi_closed_stream_usable', 'exhaust after close did not raise; %s' % ctx())
                        got.extend(B[len(got):])
                        drained = True
                elif k == 'close':
                    stream.close()
                    closed = True
                else:
                    raise AssertionError(op)
            except OperationNotAllowed:
                if not closed:
                    raise Violation('asgi_unexpected_not_allowed', '%r raised OperationNotAllowed on an open stream; %s' % (op, ctx()))
            done_ops.append(op)
            if closed:
                if not stream.eof:
                    raise Violation('asgi_eof_after_close', 'eof is False after close; %s' % ctx())
                continue
            t = stream.tell()
            if t != len(got):
                raise Violation('asgi_tell', 'after %r tell() = %d but %d bytes were returned/discarded; %s' % (done_ops, t, len(got), ctx()))
            e = stream.eof
            if e and len(got) < len(B):
                raise Violation('asgi_eof_early', 'after %r eof is True with %d of %d bytes delivered; %s' % (done_ops, len(got), len(B), ctx()))
            if drained and not e:
                raise Violation('asgi_eof_missing', 'after %r (full drain) eof is False; %s' % (done_ops, ctx()))

    asgi_driver.run(main())
    return B


def classify_asgi(case):
    labels = ['asgi']
    events = case['events']
    cl = case['content_length']
    total = sum(len(e.get('body', b'')) for e in events)
    regime = 'cl_absent' if cl is None else 'cl_exact' if cl == total else 'cl_shorter' if cl < total else 'cl_longer'
    labels.append(regime)
    odd = False
    if any(e['type'] == 'http.disconnect' for e in events):
        labels.append('disconnect')
        odd = True
    if any(e['type'] == 'http.request' and 'body' not in e for e in events):
        labels.append('event_without_body')
        odd = True
    if any(e['type'] == 'http.request' and 'more_body' not in e for e in events):
        labels.append('event_without_more_body')
    if cl is not None and any(len(e.get('body', b'')) > cl for e in events):
        labels.append('oversized_chunk')
        odd = True
    if any(e.get('body') == b'' for e in events[:-1]):
        labels.append('empty_chunk')
    if events and events[0].get('body'):
        labels.append('first_event_has_body')
    ops = case['ops']
    seq = len(ops) >= 2 and any(op[0] == 'read' and isinstance(op[1], int) and op[1] > 0 for op in ops[:-1])
    if seq:
        labels.append('sized_read_then_more')
    for op in ops:
        labels.append('op:' + op[0])
    return Info(seq or odd or regime in ('cl_shorter', 'cl_longer'), sorted(set(labels)))


A_OPS = [
    ['read', 1], ['read', 3], ['read', 0], ['read', 100], ['read', 'noarg'], ['read', -1], ['readall'], ['iter_all'], ['exhaust'], ['close'],
]


def _fix_history(ops):
    """Keep only documented-safe mixes: after an abandoned iteration only exhaust/close follow."""
    out = []
    abandoned = False
    for op in ops:
        if abandoned and op[0] not in ('exhaust', 'close'):
            continue
        out.append(op)
        if op[0] == 'iter_one':
            abandoned = True
    return out


def _scripts():
    R = 'http.request'
    yield [{'type': R, 'body': b'abc', 'more_body': False}]
    yield [{'type': R, 'body': b'abc'}]
    yield [{'type': R, 'body': b'', 'more_body': True}, {'type': R, 'body': b'abcd', 'more_body': True}, {'type': R, 'body': b'e', 'more_body': False}]
    yield [{'type': R, 'body': b'ab', 'more_body': True}, {'type': R, 'more_body': True}, {'type': R, 'body': b'cd'}]
    yield [{'type': R, 'body': b'ab', 'more_body': True}, {'type': R, 'body': b'c', 'more_body': True}, {'type': 'http.disconnect'}]
    yield [{'type': R, 'more_body': False}]
    yield [{'type': R, 'body': b'abcdefghij', 'more_body': True}, {'type': R, 'body': b'klm', 'more_body': False}]


class AsgiEnum(Suite):
    """ASGI BoundedStream (through falcon.asgi.Request.stream, first event pre-loaded as the app does): ALL histories of
    <= 3 operations from a 10-operation alphabet x 7 event scripts (missing body / more_body keys, empty chunks, mid-body
    disconnect, oversized first chunk) x Content-Length regimes (absent, exact, shorter, longer); receive() raises if
    awaited after the terminal event or after Content-Length bytes arrived."""

    name = 'asgi_enum'
    exhaustive = True
    budget = {'quick': 1, 'thorough': 1}

    def cases(self, tier):
        for events in _scripts():
            total = sum(len(e.get('body', b'')) for e in events)
            regimes = [None, total, total + 2]
            if total >= 1:
                regimes.append(total - 1)
            if total >= 3:
                regimes.append(2)
            for cl in regimes:
                for n in range(1, 4):
                    for h in itertools.product(range(len(A_OPS)), repeat=n):
                        yield {'events': events, 'content_length': cl, 'ops': [A_OPS[i] for i in h], 'preload': True}
                        if len(h) == 1 and cl is not None:
                            yield {'events': events, 'content_length': cl, 'ops': [A_OPS[i] for i in h], 'preload': True, 'cl_zeros': 2}

    def run(self, case):
        run_asgi(case)
        return classify_asgi(case)


_aop = st.one_of(
    st.tuples(st.just('read'), st.one_of(st.integers(0, 12), st.sampled_from([-1, None, 'noarg', 64]))),
    st.tuples(st.just('read'), st.integers(1, 6)),
    st.tuples(st.just('readall')), st.tuples(st.just('iter_all')), st.tuples(st.just('iter_one')),
    st.tuples(st.just('exhaust')), st.tuples(st.just('close')),
)


@st.composite
def _asgi_case(draw):
    n = draw(st.integers(1, 6))
    events = []
    for i in range(n):
        ev = {'type': 'http.request'}
        if draw(st.integers(0, 9)) > 0:
            ev['body'] = draw(st.sampled_from([b'', b'a', b'bc', b'def', b'0123456789', b'\n', b'xy']))
        last = i == n - 1
        if last:
            if draw(st.booleans()):
                ev['more_body'] = False
        else:
            ev['more_body'] = True
        events.append(ev)
    if draw(st.integers(0, 4)) == 0:
        k = draw(st.integers(0, len(events)))
        events = events[:k] + [{'type': 'http.disconnect'}]
        for ev in events[:-1]:
            ev['more_body'] = True
    total = sum(len(e.get('body', b'')) for e in events)
    regime = draw(st.sampled_from(['absent', 'exact', 'exact', 'shorter', 'longer']))
    cl = None if regime == 'absent' else total if regime == 'exact' else max(0, total - draw(st.integers(1, 6))) if regime == 'shorter' \
        else total + draw(st.integers(1, 5))
    ops = _fix_history(draw(st.lists(_aop, min_size=1, max_size=8)))
    return {'events': events, 'content_length': cl, 'ops': ops, 'preload': draw(st.sampled_from([True, True, True, False])),
            'extra_headers': draw(_extra_headers), 'cl_zeros': draw(st.sampled_from([0, 0, 0, 0, 1, 3])) if cl is not None else 0}


class AsgiRandom(Suite):
    """ASGI BoundedStream: random event scripts (1-6 events, optional body/more_body keys, empty and oversized chunks,
    disconnect at any index) x Content-Length regimes x histories of <= 8 operations incl. abandoned iteration
    followed by exhaust/close; with and without a pre-loaded first event."""

    name = 'asgi_random'
    budget = {'quick': 10000, 'thorough': 300000}

    def strategy(self, tier):
        return _asgi_case()

    def run(self, case):
        if case['events'][0]['type'] == 'http.disconnect' and not case.get('preload', True):
            pass
        run_asgi(case)
        return classify_asgi(case)


SUITES = [WsgiEnum(), AsgiEnum(), WsgiRandom(), WsgiBig(), AsgiRandom()]


def _known_f21(suite_name, case, violation):
    """Abandoned ASGI iteration (first chunk only) followed by exhaust(): the final-event flag is only
    recorded after the consumer resumes the generator, so exhaust() awaits one more event."""
    return (violation.kind == 'asgi_receive_after_end' and 'events' in case
            and any(op[0] == 'iter_one' for op in case['ops']))


KNOWN = {'F21': _known_f21}
