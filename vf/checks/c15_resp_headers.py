"""C15 — Response headers act as a case-insensitive map; cookies get separate lines.

Three suites:

* ``histories``   operation histories replayed inside a real responder (WSGI and ASGI app),
                  a case-insensitive dict model compared after every step, then the header
                  list the server received is compared with the final model.
* ``cookies``     set_cookie / unset_cookie attribute combinations: every Set-Cookie line is
                  parsed by an independent RFC 6265 parser; the cookie-pair is echoed back in
                  a Cookie request header and read through req.cookies / get_cookie_values.
* ``uri_helpers`` location, content_location, append_link, downloadable_as / viewable_as over
                  unicode input: pure-ASCII output that decodes to the input.

Nothing below calls into falcon to compute an expectation.
"""
import datetime as _dt
import re

from hypothesis import strategies as st

import falcon
import falcon.asgi

from vf.core import HarnessError, Info, Suite, Violation
from vf.drivers import asgi as adrv
from vf.drivers import wsgi as wdrv

LEVEL = 'exploration'
RULE = (
    'histories: the history touches one header name in >= 2 different letter casings through >= 2 '
    'different operation kinds (set/append/delete/get/set_headers/typed property/append_link), or '
    'mixes set_cookie/unset_cookie with raw append_header(Set-Cookie); cookies: the value needs '
    'quoting (space, quote, semicolon, comma, backslash, control, empty) or >= 3 attributes are '
    'requested or the case contains an unset_cookie; uri_helpers: the input has a non-ASCII code '
    'point, a percent sign, or a character outside the RFC 3986 URI alphabet; distinct = distinct '
    'case fingerprint'
)
ASSUMPTIONS = [
    'plain header values are printable ASCII / latin-1 str (no CR, LF, NUL); raw Set-Cookie values are ASCII',
    'cookie names are RFC 6265 tokens that are not reserved attribute names; cookie values are ASCII str',
    'max_age is a non-zero int, a float >= 1 or an integer-literal str (max_age=0 / falsy expires mean '
    '"not requested" in the implementation and are ambiguous in the docs)',
    'expires datetimes have 1970 <= year <= 9990; naive datetimes are taken as UTC',
    '`del resp.<property>` is executed only when the model holds the header (behaviour on a missing '
    'header is undocumented)',
    'set_headers() with a Set-Cookie item is generated only as a single-item collection (whether '
    'earlier items are applied before the error is undocumented)',
    'after unset_cookie() on a name that set_cookie() touched before in the same response, only '
    'value/expiry/SameSite/requested Domain+Path are asserted (the repo test-suite pins that '
    'HttpOnly/Secure of the earlier call are kept)',
    '"Expires in the past" for unset_cookie compares with the wall clock read after the call; '
    'the verdict does not depend on when the case runs',
    'append_link title= is ASCII without quote/backslash; ASCII download filenames exclude quote, '
    'backslash and controls (no escaping is documented)',
    'Content-Length is excluded from the emission comparison (the framework owns it; see C05)',
    'http.cookies of the running Python (3.12) accepts control characters in cookie values and '
    'octal-escapes them; newer interpreters that reject them would need the value alphabet narrowed',
]

# ======================================================================== reference helpers

_ALNUM = 'ABCDEFGHIJKLMNOPQRSTUVWXYZabcdefghijklmnopqrstuvwxyz0123456789'
_UNRESERVED = frozenset(_ALNUM + '-._~')
_URI_CHARS = frozenset(_ALNUM + '-._~' + ":/?#[]@!$&'()*+,;=")
_ESC = re.compile('%[0-9A-Fa-f]{2}')
_HEX = '0123456789abcdefABCDEF'

_DAYS = ['Mon', 'Tue', 'Wed', 'Thu', 'Fri', 'Sat', 'Sun']
_MONTHS = ['Jan', 'Feb', 'Mar', 'Apr', 'May', 'Jun', 'Jul', 'Aug', 'Sep', 'Oct', 'Nov', 'Dec']


def lower(name):
    """ASCII lower-casing (header names are ASCII)."""
    return ''.join(chr(ord(c) + 32) if 'A' <= c <= 'Z' else c for c in name)


def recase(name, mask):
    return ''.join(c.upper() if (mask >> (i % 11)) & 1 else c.lower() for i, c in enumerate(name))


def fully_escaped(s, allowed):
    return all(c in allowed for c in _ESC.sub('', s))


def ref_encode(s, allowed):
    return ''.join(c if c in allowed else ''.join('%%%02X' % b for b in c.encode('utf-8')) for c in s)


def ref_encode_check(s, allowed):
    """Documented passthrough for already-escaped input, else percent-encode."""
    return s if fully_escaped(s, allowed) else ref_encode(s, allowed)


def ref_decode(s):
    b = s.encode('utf-8')
    out = bytearray()
    i = 0
    while i < len(b):
        if b[i] == 0x25 and i + 2 < len(b) and chr(b[i + 1]) in _HEX and chr(b[i + 2]) in _HEX:
            out.append(int(b[i + 1:i + 3], 16))
            i += 3
        else:
            out.append(b[i])
            i += 1
    return bytes(out).decode('utf-8', 'replace')


def is_ascii(s):
    return all(ord(c) < 128 for c in s)


def http_date(dt):
    return '%s, %02d %s %04d %02d:%02d:%02d GMT' % (
        _DAYS[dt.weekday()], dt.day, _MONTHS[dt.month - 1], dt.year, dt.hour, dt.minute, dt.second)


_DATE = re.compile(r'^(Mon|Tue|Wed|Thu|Fri|Sat|Sun), (\d\d) (\w{3}) (\d{4}) (\d\d):(\d\d):(\d\d) GMT$')


def parse_http_date(s):
    m = _DATE.match(s)
    if not m or m.group(3) not in _MONTHS:
        return None
    try:
        return _dt.datetime(int(m.group(4)), _MONTHS.index(m.group(3)) + 1, int(m.group(2)),
                            int(m.group(5)), int(m.group(6)), int(m.group(7)))
    except ValueError:
        return None


def mk_datetime(f):
    """[Y, M, D, h, m, s] or [Y, M, D, h, m, s, utc_offset_minutes] -> (datetime arg, UTC instant)."""
    naive = _dt.datetime(f[0], f[1], f[2], f[3], f[4], f[5])
    if len(f) < 7 or f[6] is None:
        return naive, naive
    tz = _dt.timezone(_dt.timedelta(minutes=f[6]))
    return naive.replace(tzinfo=tz), naive - _dt.timedelta(minutes=f[6])


# ---------------------------------------------------------------- Set-Cookie (RFC 6265 4.1.1 / 5.2)

_FLAG_ATTRS = ('secure', 'httponly', 'partitioned')


def parse_set_cookie(line):
    """-> (name, raw value, {lower attr name: value | None})."""
    for ch in line:
        if ord(ch) < 32 or ord(ch) > 126:
            raise Violation('cookie_syntax', 'Set-Cookie line contains %r: %r' % (ch, line))
    parts = line.split(';')
    name, eq, value = parts[0].partition('=')
    if not eq:
        raise Violation('cookie_syntax', 'no cookie-pair in %r' % line)
    attrs = {}
    for p in parts[1:]:
        p = p.strip(' \t')
        if not p:
            raise Violation('cookie_syntax', 'empty cookie-av in %r' % line)
        an, eq, av = p.partition('=')
        an = lower(an.strip(' \t'))
        if an in attrs:
            raise Violation('cookie_syntax', 'attribute %r repeated in %r' % (an, line))
        attrs[an] = av.strip(' \t') if eq else None
    return name.strip(' \t'), value.strip(' \t'), attrs


_PAST = '<past>'


def expected_cookie_attrs(spec, secure_default):
    exp = {}
    if spec.get('expires') is not None:
        exp['expires'] = http_date(mk_datetime(spec['expires'])[1])
    if spec.get('max_age') is not None:
        exp['max-age'] = str(int(spec['max_age']))
    if spec.get('domain') is not None:
        exp['domain'] = spec['domain']
    if spec.get('path') is not None:
        exp['path'] = spec['path']
    secure = spec.get('secure')
    if secure_default if secure is None else secure:
        exp['secure'] = None
    if spec.get('http_only') is None or spec['http_only']:
        exp['httponly'] = None
    if spec.get('same_site') is not None:
        exp['samesite'] = {'lax': 'Lax', 'strict': 'Strict', 'none': 'None'}[lower(spec['same_site'])]
    if spec.get('partitioned'):
        exp['partitioned'] = None
    return exp


def cookie_kwargs(spec):
    kw = {}
    if spec.get('expires') is not None:
        kw['expires'] = mk_datetime(spec['expires'])[0]
    for k in ('max_age', 'domain', 'path', 'same_site'):
        if spec.get(k) is not None:
            kw[k] = spec[k]
    if 'secure' in spec:
        kw['secure'] = spec['secure']
    if spec.get('http_only') is not None:
        kw['http_only'] = spec['http_only']
    if spec.get('partitioned') is not None:
        kw['partitioned'] = spec['partitioned']
    return kw


def unset_kwargs(spec):
    kw = {}
    for k in ('samesite', 'domain', 'path'):
        if spec.get(k) is not None:
            kw[k] = spec[k]
    return kw


class CookieJarModel(object):
    """What each cookie name must look like on the wire (last call wins)."""

    def __init__(self, secure_default):
        self.secure_default = secure_default
        self.state = {}   # name -> dict(kind, spec, exp, prior, sticky)
        self.order = []

    def _sticky(self, name):
        st_ = self.state.get(name)
        return dict(st_['sticky']) if st_ else {}

    def set(self, spec):
        name = spec['name']
        exp = expected_cookie_attrs(spec, self.secure_default)
        sticky = self._sticky(name)
        sticky.update(exp)
        if name not in self.state:
            self.order.append(name)
        self.state[name] = {'kind': 'set', 'spec': spec, 'exp': exp, 'prior': name in self.state,
                            'sticky': sticky}

    def unset(self, spec):
        name = spec['name']
        sticky = self._sticky(name)
        sticky['expires'] = _PAST
        samesite = spec.get('samesite')
        samesite = 'Lax' if samesite is None else samesite
        if samesite:
            sticky['samesite'] = samesite
        else:
            sticky.pop('samesite', None)
        for k in ('domain', 'path'):
            if spec.get(k) is not None:
                sticky[k] = spec[k]
        if name not in self.state:
            self.order.append(name)
        self.state[name] = {'kind': 'unset', 'spec': spec, 'samesite': samesite,
                            'prior': name in self.state, 'sticky': sticky}

    # ---- verdicts on the wire form

    def check_line(self, name, raw_value, attrs, line, now):
        st_ = self.state[name]
        for fl in _FLAG_ATTRS:
            if fl in attrs and attrs[fl] is not None:
                raise Violation('cookie_syntax', 'flag attribute %s carries a value in %r' % (fl, line))
        if st_['kind'] == 'set':
            exp = st_['exp']
            if attrs != exp:
                kind = 'cookie_attrs'
                if st_['prior'] and _matches_sticky(attrs, st_['sticky']):
                    kind = 'cookie_stale_attrs'
                raise Violation(kind, 'set_cookie(%r): Set-Cookie line %r has attributes %r, requested %r%s'
                                % (st_['spec'], line, _show(attrs), _show(exp),
                                   ' (attributes of an earlier call for the same name leaked)'
                                   if kind == 'cookie_stale_attrs' else ''))
            return
        # ---- unset
        spec = st_['spec']
        if raw_value not in ('', '""'):
            raise Violation('unset_cookie_value', 'unset_cookie(%r) emitted %r (value not empty)' % (spec, line))
        if 'expires' not in attrs or attrs['expires'] is None:
            raise Violation('unset_cookie_not_expired', 'unset_cookie(%r) emitted %r without Expires' % (spec, line))
        when = parse_http_date(attrs['expires'])
        if when is None:
            raise Violation('cookie_syntax', 'Expires %r is not an rfc1123-date in %r' % (attrs['expires'], line))
        if not when < now:
            raise Violation('unset_cookie_not_expired', 'unset_cookie(%r) emitted %r: Expires is not in the past '
                            '(now %s UTC)' % (spec, line, now))
        if 'max-age' in attrs:
            # RFC 6265 5.3 step 3: Max-Age has precedence over Expires
            try:
                alive = int(attrs['max-age']) > 0
            except (TypeError, ValueError):
                alive = True
            if alive:
                raise Violation('unset_cookie_not_expired',
                                'unset_cookie(%r) emitted %r: Max-Age=%s takes precedence over Expires '
                                '(RFC 6265 5.3), the user agent keeps the cookie'
                                % (spec, line, attrs['max-age']))
        exp_ss = st_['samesite'] or None
        if attrs.get('samesite') != exp_ss:
            raise Violation('cookie_attrs', 'unset_cookie(%r) emitted %r: SameSite %r, requested %r'
                            % (spec, line, attrs.get('samesite'), exp_ss))
        for k in ('domain', 'path'):
            if spec.get(k) is not None and attrs.get(k) != spec[k]:
                raise Violation('cookie_attrs', 'unset_cookie(%r) emitted %r: %s %r' % (spec, line, k, attrs.get(k)))
        if not st_['prior']:
            allowed = {'expires'}
            if exp_ss:
                allowed.add('samesite')
            allowed.update(k for k in ('domain', 'path') if spec.get(k) is not None)
            if set(attrs) != allowed:
                raise Violation('cookie_attrs', 'unset_cookie(%r) emitted %r: attributes %r, requested %r'
                                % (spec, line, sorted(attrs), sorted(allowed)))


def _matches_sticky(attrs, sticky):
    if set(attrs) != set(sticky):
        return False
    return all(sticky[k] == _PAST or attrs[k] == sticky[k] for k in sticky)


def _show(attrs):
    return '{' + ', '.join('%s=%r' % (k, attrs[k]) if attrs[k] is not None else k for k in sorted(attrs)) + '}'


# ---------------------------------------------------------------- Link (RFC 8288 3)


def parse_link_value(s):
    """One link-value -> (target, [(param name, value | None, quoted)])."""
    if not s.startswith('<') or '>' not in s:
        raise Violation('link_syntax', 'link-value %r does not start with <target>' % s)
    end = s.index('>')
    target = s[1:end]
    rest = s[end + 1:]
    params = []
    i = 0
    n = len(rest)
    while i < n:
        if rest[i] != ';':
            raise Violation('link_syntax', 'expected ";" at offset %d of %r' % (end + 1 + i, s))
        i += 1
        while i < n and rest[i] == ' ':
            i += 1
        j = i
        while j < n and rest[j] not in '=;':
            j += 1
        name = rest[i:j]
        if not name:
            raise Violation('link_syntax', 'empty link-param in %r' % s)
        if j >= n or rest[j] == ';':
            params.append((name, None, False))
            i = j
            continue
        j += 1
        if j < n and rest[j] == '"':
            k = rest.find('"', j + 1)
            if k < 0:
                raise Violation('link_syntax', 'unterminated quoted-string in %r' % s)
            params.append((name, rest[j + 1:k], True))
            i = k + 1
        else:
            k = j
            while k < n and rest[k] != ';':
                k += 1
            params.append((name, rest[j:k], False))
            i = k
    return target, params


def check_link_value(x, spec):
    """The single link-value `x` must say exactly what append_link(**spec) asked for."""
    def bad(what):
        raise Violation('link_value', 'append_link(%r) produced %r: %s' % (spec, x, what))

    if not is_ascii(x):
        bad('not pure ASCII')
    target, params = parse_link_value(x)
    exp_target = ref_encode_check(spec['target'], _URI_CHARS)
    if target != exp_target:
        bad('target %r, expected %r' % (target, exp_target))
    back = ref_decode(target)
    if not fully_escaped(spec['target'], _URI_CHARS) and back != spec['target']:
        bad('target decodes to %r' % back)
    exp = []
    rel = spec['rel']
    if '//' in rel:
        exp.append(('rel', ' '.join(ref_encode_check(r, _URI_CHARS) for r in rel.split()), True))
    else:
        exp.append(('rel', rel, False))
    if spec.get('title') is not None:
        exp.append(('title', spec['title'], True))
    if spec.get('title_star') is not None:
        lang, text = spec['title_star']
        exp.append(('title*', "UTF-8'%s'%s" % (lang, ref_encode_check(text, _UNRESERVED)), False))
    if spec.get('type_hint') is not None:
        exp.append(('type', spec['type_hint'], True))
    hl = spec.get('hreflang')
    if hl is not None:
        for lang in ([hl] if isinstance(hl, str) else hl):
            exp.append(('hreflang', lang, False))
    if spec.get('anchor') is not None:
        exp.append(('anchor', ref_encode_check(spec['anchor'], _URI_CHARS), True))
    co = spec.get('crossorigin')
    if co is not None:
        if lower(co) == 'anonymous':
            exp.append(('crossorigin', None, False))
        else:
            exp.append(('crossorigin', 'use-credentials', True))
    for p, v in spec.get('link_extension') or ():
        exp.append((p, v, False))
    if sorted(params, key=repr) != sorted(exp, key=repr):
        bad('link-params %r, expected %r' % (params, exp))
    ts = spec.get('title_star')
    if ts is not None and not fully_escaped(ts[1], _UNRESERVED):
        got = [v for n, v, q in params if n == 'title*'][0]
        text = ref_decode(got.split("'", 2)[2])
        if text != ts[1]:
            bad('title* decodes to %r' % text)


def link_kwargs(spec):
    kw = {}
    for k in ('title', 'anchor', 'hreflang', 'type_hint', 'crossorigin'):
        if spec.get(k) is not None:
            kw[k] = spec[k]
    if spec.get('title_star') is not None:
        kw['title_star'] = tuple(spec['title_star'])
    if spec.get('link_extension') is not None:
        kw['link_extension'] = [tuple(p) for p in spec['link_extension']]
    return kw


# ---------------------------------------------------------------- typed header properties

PROPS = {
    'cache_control': 'cache-control',
    'content_location': 'content-location',
    'content_length': 'content-length',
    'content_range': 'content-range',
    'content_type': 'content-type',
    'downloadable_as': 'content-disposition',
    'viewable_as': 'content-disposition',
    'etag': 'etag',
    'expires': 'expires',
    'last_modified': 'last-modified',
    'location': 'location',
    'retry_after': 'retry-after',
    'vary': 'vary',
    'accept_ranges': 'accept-ranges',
}


_BAD_VALUES = {'etag': '', 'content_range': (0,), 'last_modified': 'yesterday', 'expires': 'tomorrow', 'location': 87,
               'content_location': 88, 'downloadable_as': 1234, 'viewable_as': 4321, 'vary': 5, 'cache_control': 7}


def prop_value(prop, arg):
    """-> (object to assign, header value the docs promise)."""
    if prop in ('cache_control', 'vary'):
        return list(arg), ', '.join(arg)
    if prop in ('location', 'content_location'):
        return arg, ref_encode_check(arg, _URI_CHARS)
    if prop in ('content_length', 'retry_after'):
        return arg, '%d' % arg
    if prop == 'content_range':
        unit = arg[3] if len(arg) == 4 else 'bytes'
        return tuple(arg), '%s %s-%s/%s' % (unit, arg[0], arg[1], arg[2])
    if prop in ('content_type', 'accept_ranges'):
        return arg, arg
    if prop == 'downloadable_as':
        return arg, 'attachment; filename="%s"' % arg
    if prop == 'viewable_as':
        return arg, 'inline; filename="%s"' % arg
    if prop == 'etag':
        return arg, arg if arg.endswith('"') else '"' + arg + '"'
    if prop in ('expires', 'last_modified'):
        dt = mk_datetime(arg)[0]
        return dt, http_date(dt)
    raise HarnessError('unknown property %r' % prop)


# ======================================================================== running real apps


class _Box(object):
    fn = None
    exc = None
    ran = 0


class _SyncResource(object):
    def __init__(self, box):
        self.box = box

    def on_get(self, req, resp):
        self.box.ran += 1
        try:
            self.box.fn(req, resp)
        except Exception as e:  # noqa: handed to run() outside of falcon's error handling
            self.box.exc = e


class _AsyncResource(object):
    def __init__(self, box):
        self.box = box

    async def on_get(self, req, resp):
        self.box.ran += 1
        try:
            self.box.fn(req, resp)
        except Exception as e:  # noqa
            self.box.exc = e


_APPS = {}


def _get_app(driver):
    if driver not in _APPS:
        box = _Box()
        if driver == 'wsgi':
            app = falcon.App()
            app.add_route('/', _SyncResource(box))
        else:
            app = falcon.asgi.App()
            app.add_route('/', _AsyncResource(box))
        _APPS[driver] = (app, box)
    return _APPS[driver]


def serve(driver, secure_default, fn, cookie_header=None):
    """Run `fn(req, resp)` as the GET / responder of a real app; -> list of (name, value) as sent."""
    app, box = _get_app(driver)
    app.resp_options.secure_cookies_by_default = secure_default
    box.fn = fn
    box.exc = None
    box.ran = 0
    headers = [('Host', 'falconframework.org'), ('User-Agent', 'vf-c15')]
    if cookie_header is not None:
        headers.append(('Cookie', cookie_header))
    try:
        if driver == 'wsgi':
            res = wdrv.call(app, wdrv.build_environ(headers=headers))
            sent = None if res.headers is None else list(res.headers)
            code = None if res.status is None else res.code
        else:
            res = adrv.call(app, adrv.build_scope(headers=headers))
            start = res.start
            sent = None
            code = None
            if start is not None:
                code = start['status']
                sent = []
                for k, v in start.get('headers', []):
                    if type(k) is not bytes or type(v) is not bytes or k != k.lower():
                        raise Violation('asgi_header_form', 'header pair %r: %r is not lower-case bytes' % (k, v))
                    sent.append((k.decode('latin-1'), v.decode('latin-1')))
    finally:
        box.fn = None
        app.resp_options.secure_cookies_by_default = True
    if box.exc is not None:
        raise box.exc
    if res.error is not None:
        raise res.error
    if box.ran != 1 or sent is None:
        raise HarnessError('responder ran %d times, headers %r' % (box.ran, sent))
    if code != 200:
        raise Violation('status', '%s: responder finished normally but the status is %r' % (driver, code))
    return sent


def utcnow():
    return _dt.datetime.now(_dt.timezone.utc).replace(tzinfo=None)


def split_sent(sent):
    plain = [(lower(k), v) for k, v in sent if lower(k) != 'set-cookie']
    cookies = [v for k, v in sent if lower(k) == 'set-cookie']
    return plain, cookies


def check_cookie_lines(driver, lines, raw, jar, now):
    """One line per raw append and per cookie name; each cookie line says what was requested."""
    rest = list(lines)
    for r in raw:
        if r not in rest:
            raise Violation('raw_cookie_lost', '%s: appended raw Set-Cookie %r is not among the lines sent %r'
                            % (driver, r, lines))
        rest.remove(r)
    seen = {}
    for line in rest:
        name, value, attrs = parse_set_cookie(line)
        if name in seen:
            raise Violation('cookie_line_count', '%s: two Set-Cookie lines for cookie %r: %r' % (driver, name, lines))
        seen[name] = (value, attrs, line)
    if sorted(seen) != sorted(jar.state) or len(lines) != len(raw) + len(jar.state):
        raise Violation('cookie_line_count', '%s: Set-Cookie lines %r; expected %d raw line(s) %r plus one line for '
                        'each of the cookies %r' % (driver, lines, len(raw), raw, sorted(jar.state)))
    for name in jar.order:
        value, attrs, line = seen[name]
        jar.check_line(name, value, attrs, line, now)
    return seen


# ======================================================================== suite 1: histories

POOL = ['Content-Type', 'Location', 'ETag', 'Cache-Control', 'Link', 'X-Vf-Trace']
_EXTRA_PROBE = ['vary', 'content-disposition', 'content-location', 'expires', 'last-modified',
                'retry-after', 'accept-ranges', 'content-range', 'content-length']


class HeaderModel(object):
    def __init__(self, secure_default):
        self.h = {}
        self.raw = []
        self.jar = CookieJarModel(secure_default)


def _probe(resp, model, mask, where):
    got = resp.headers
    if type(got) is not dict or got != model.h:
        raise Violation('headers_mismatch', '%s: resp.headers = %r, model %r' % (where, got, model.h))
    names = POOL + _EXTRA_PROBE
    for i, n in enumerate(names):
        cased = recase(n, (mask * 7 + i * 13) & 2047)
        exp = model.h.get(lower(n))
        v = resp.get_header(cased)
        if v != exp:
            raise Violation('get_header_mismatch', '%s: get_header(%r) = %r, model %r' % (where, cased, v, exp))
        if exp is None:
            v = resp.get_header(cased, default='dflt')
            if v != 'dflt':
                raise Violation('get_header_default', '%s: get_header(%r, default="dflt") = %r' % (where, cased, v))
    for prop in ('location', 'content_type', 'etag', 'cache_control'):
        v = getattr(resp, prop)
        if v != model.h.get(PROPS[prop]):
            raise Violation('property_get_mismatch', '%s: resp.%s = %r, model %r' % (where, prop, v, model.h.get(PROPS[prop])))
    # the mapping handed out is a copy
    got['x-vf-poison'] = '1'
    got.pop('link', None)
    again = resp.headers
    if again != model.h:
        raise Violation('headers_not_a_copy', '%s: mutating the dict returned by resp.headers changed the '
                        'response: %r, model %r' % (where, again, model.h))


def _expect_forbidden(call, what, where):
    try:
        call()
    except falcon.HeaderNotSupported:
        return
    raise Violation('set_cookie_guard', '%s: %s did not raise HeaderNotSupported' % (where, what))


def apply_op(resp, model, op, where):
    """Apply one operation to the real response and to the model."""
    kind = op[0]
    h = model.h
    if kind == 'set':
        resp.set_header(op[1], op[2])
        h[lower(op[1])] = op[2]
    elif kind == 'append':
        resp.append_header(op[1], op[2])
        k = lower(op[1])
        h[k] = h[k] + ', ' + op[2] if k in h else op[2]
    elif kind == 'delete':
        resp.delete_header(op[1])
        h.pop(lower(op[1]), None)
    elif kind == 'get':
        v = resp.get_header(op[1]) if op[2] is None else resp.get_header(op[1], op[2])
        exp = h.get(lower(op[1]), op[2])
        if v != exp:
            raise Violation('get_header_mismatch', '%s: get_header(%r, %r) = %r, model %r' % (where, op[1], op[2], v, exp))
    elif kind == 'headers':
        if resp.headers != h:
            raise Violation('headers_mismatch', '%s: resp.headers = %r, model %r' % (where, resp.headers, h))
    elif kind == 'set_headers':
        pairs = [(p[0], p[1]) for p in op[2]]
        if op[1] == 'dict':
            arg = dict(pairs)
            pairs = list(arg.items())
        elif op[1] == 'iter':
            arg = iter(list(pairs))  # a one-shot iterable of pairs
        elif op[1] == 'gen':
            arg = ((n, v) for n, v in list(pairs))
        else:
            arg = pairs
        resp.set_headers(arg)
        for n, v in pairs:
            h[lower(n)] = v
    elif kind == 'set_headers_shared':
        # ONE long-lived dict (a middleware's table of headers) that the application keeps editing and passes again
        shared = model.__dict__.setdefault('shared', {})
        for n, v in op[1]:
            shared[n] = v
        for n in op[2]:
            shared.pop(n, None)
        resp.set_headers(shared)
        for n, v in shared.items():
            h[lower(n)] = v
    elif kind == 'prop_set_bad':
        # a value the property's formatter cannot take: if the assignment raises, it must leave the map as it was
        before = dict(resp.headers)
        try:
            setattr(resp, op[1], _BAD_VALUES[op[1]])
        except Exception as e:  # noqa
            if resp.headers != before:
                raise Violation('failed_assignment_changed_headers', '%s: resp.%s = %r raised %s but the headers went %r -> %r'
                                % (where, op[1], _BAD_VALUES[op[1]], type(e).__name__, before, resp.headers))
        else:
            # accepted after all (a more lenient formatter): follow the implementation for this one header
            v = resp.get_header(PROPS[op[1]])
            if v is None:
                h.pop(PROPS[op[1]], None)
            else:
                h[PROPS[op[1]]] = v
    elif kind == 'prop_set':
        obj, exp = prop_value(op[1], op[2])
        setattr(resp, op[1], obj)
        h[PROPS[op[1]]] = exp
    elif kind == 'prop_none':
        setattr(resp, op[1], None)
        h.pop(PROPS[op[1]], None)
    elif kind == 'prop_del':
        if PROPS[op[1]] in h:
            delattr(resp, op[1])
            del h[PROPS[op[1]]]
    elif kind == 'prop_get':
        v = getattr(resp, op[1])
        if v != h.get(PROPS[op[1]]):
            raise Violation('property_get_mismatch', '%s: resp.%s = %r, model %r' % (where, op[1], v, h.get(PROPS[op[1]])))
    elif kind == 'link':
        spec = op[1]
        old = h.get('link')
        resp.append_link(spec['target'], spec['rel'], **link_kwargs(spec))
        new = resp.get_header('Link')
        if new is None:
            raise Violation('link_value', '%s: no Link header after append_link(%r)' % (where, spec))
        if old is None:
            x = new
        else:
            if not new.startswith(old + ', '):
                raise Violation('link_append', '%s: Link was %r, after append_link(%r) it is %r (not appended '
                                'with ", ")' % (where, old, spec, new))
            x = new[len(old) + 2:]
        check_link_value(x, spec)
        h['link'] = new
    elif kind == 'cookie':
        spec = op[1]
        resp.set_cookie(spec['name'], spec['value'], **cookie_kwargs(spec))
        model.jar.set(spec)
    elif kind == 'cookie_bad':
        # documented: ValueError when the value is not a valid cookie value (not ASCII), KeyError for such a name; the
        # refused call must leave the cookies set so far alone (the model is not touched)
        try:
            if op[2] == 'value':
                resp.set_cookie(op[1], 'caf\u00e9 \u2603', path='/refused')
            else:
                resp.set_cookie(op[1] + '\u00e9', 'v')
        except (ValueError, KeyError):
            pass
        else:
            raise Violation('invalid_cookie_accepted', '%s: set_cookie with a non-ASCII %s did not raise' % (where, op[2]))
    elif kind == 'unset':
        spec = op[1]
        resp.unset_cookie(spec['name'], **unset_kwargs(spec))
        model.jar.unset(spec)
    elif kind == 'raw_cookie':
        resp.append_header(op[1], op[2])
        model.raw.append(op[2])
    elif kind == 'forbid_get':
        _expect_forbidden(lambda: resp.get_header(op[1]), 'get_header(%r)' % op[1], where)
    elif kind == 'forbid_set':
        _expect_forbidden(lambda: resp.set_header(op[1], op[2]), 'set_header(%r, %r)' % (op[1], op[2]), where)
    elif kind == 'forbid_delete':
        _expect_forbidden(lambda: resp.delete_header(op[1]), 'delete_header(%r)' % op[1], where)
    elif kind == 'forbid_set_headers':
        arg = {op[2]: op[3]} if op[1] == 'dict' else [(op[2], op[3])]
        _expect_forbidden(lambda: resp.set_headers(arg), 'set_headers(%r)' % (arg,), where)
    else:
        raise HarnessError('unknown op %r' % (op,))


_TOUCH_KIND = {'set': 'set', 'append': 'append', 'delete': 'delete', 'get': 'get'}


def history_info(steps):
    casings = {}
    kinds = {}
    labels = set()
    has_cookie = has_raw = False

    def touch(name_l, casing, kind):
        if casing is not None:
            casings.setdefault(name_l, set()).add(casing)
        kinds.setdefault(name_l, set()).add(kind)

    for s in steps:
        op = s['op']
        k = op[0]
        labels.add('op:' + k)
        if k in _TOUCH_KIND:
            touch(lower(op[1]), op[1], k)
        elif k == 'set_headers':
            for p in op[2]:
                touch(lower(p[0]), p[0], 'set_headers')
        elif k == 'set_headers_shared':
            for p in op[1]:
                touch(lower(p[0]), p[0], 'set_headers')
        elif k.startswith('prop_'):
            touch(PROPS[op[1]], None, 'property')
        elif k == 'link':
            touch('link', None, 'append_link')
        elif k in ('cookie', 'unset', 'cookie_bad'):
            has_cookie = True
        elif k == 'raw_cookie':
            has_raw = True
        if k in ('set', 'append') and not is_ascii(op[2]):
            labels.add('latin1_value')
    nt_case = any(len(casings.get(n, ())) >= 2 and len(kinds[n]) >= 2 for n in kinds)
    nt_cookie = has_cookie and has_raw
    if nt_case:
        labels.add('nontrivial:casings+kinds')
    if nt_cookie:
        labels.add('nontrivial:cookie+raw')
    labels.add('len:%s' % ('1-5' if len(steps) <= 5 else '6-10' if len(steps) <= 10 else '11-15'))
    return nt_case or nt_cookie, labels


# ---- strategies

_mask = st.integers(0, 2047)
# two names are drawn more often so that one name is hit by several operations in several casings
_hname = st.builds(recase, st.sampled_from(POOL + ['ETag', 'Location', 'ETag', 'Location']), _mask)
_sc_name = st.builds(recase, st.just('Set-Cookie'), _mask)
_ascii_val = st.text(alphabet=st.characters(min_codepoint=0x20, max_codepoint=0x7e), max_size=8)
_latin_val = st.text(alphabet=st.one_of(st.characters(min_codepoint=0x20, max_codepoint=0x7e),
                                        st.characters(min_codepoint=0xa0, max_codepoint=0xff)), min_size=1, max_size=6)
_hvalue = st.one_of(_ascii_val, _ascii_val, st.sampled_from(['a', 'b', 'text/plain', '"x"', 'no-cache']), _latin_val)
_token = st.text(alphabet='abcdefghijklmnopqrstuvwxyz-', min_size=1, max_size=6)
_dt6 = st.tuples(st.integers(1970, 9990), st.integers(1, 12), st.integers(1, 28), st.integers(0, 23),
                 st.integers(0, 59), st.integers(0, 59)).map(list)
_dt7 = st.builds(lambda d, off: d + [off], _dt6, st.one_of(st.none(), st.integers(-14 * 60, 14 * 60),
                                                            st.sampled_from([0, 60, -300, 330])))
_uri_small = st.one_of(
    st.sampled_from(['/a', '/a/b?x=1&y=2', 'http://example.com/p', '/ü', '/a b', '/%41', '/x%zz', '/a#f', '',
                     '/café/%C3%A9', '//h/p', '/€']),
    st.text(alphabet=st.sampled_from(list('/ab?=&%2 ') + ['é', '€']), max_size=8),
)
_safe_fname = st.text(alphabet='abcXYZ019._- ', min_size=1, max_size=8)
_etag = st.one_of(_token, _token.map(lambda t: '"%s"' % t), _token.map(lambda t: 'W/"%s"' % t))

_PROP_ARGS = {
    'cache_control': st.lists(st.sampled_from(['no-cache', 'no-store', 'max-age=60', 'private']), min_size=1, max_size=3),
    'vary': st.lists(st.sampled_from(['Accept', 'Accept-Encoding', '*', 'Cookie']), min_size=1, max_size=3),
    'content_location': _uri_small,
    'location': _uri_small,
    'content_length': st.integers(0, 10 ** 6),
    'retry_after': st.integers(0, 10 ** 6),
    'content_range': st.one_of(
        st.tuples(st.integers(0, 99), st.integers(0, 99), st.one_of(st.integers(0, 999), st.just('*'))).map(list),
        st.tuples(st.integers(0, 99), st.integers(0, 99), st.integers(0, 999), st.sampled_from(['items', 'bytes'])).map(list)),
    'content_type': st.sampled_from(['text/plain', 'application/json', 'text/html; charset=utf-8', 'x/y']),
    'accept_ranges': st.sampled_from(['bytes', 'none']),
    'downloadable_as': _safe_fname,
    'viewable_as': _safe_fname,
    'etag': _etag,
    'expires': _dt6,
    'last_modified': _dt6,
}
# properties that collide with the name pool are drawn more often
_PROP_WEIGHTED = ['content_type', 'location', 'etag', 'cache_control'] * 4 + sorted(PROPS)
_prop = st.sampled_from(_PROP_WEIGHTED)
_prop_set = _prop.flatmap(lambda p: _PROP_ARGS[p].map(lambda a: ['prop_set', p, a]))

_lang = st.sampled_from(['en', 'de', 'en-US', 'fr-CA'])


def _opt(s):
    return st.one_of(st.none(), s)


def _link_spec(target, anchor, text):
    return st.fixed_dictionaries({
        'target': target,
        'rel': st.one_of(_token, st.sampled_from(['next', 'http://example.com/ext-type',
                                                  'alternate http://example.com/ext-type',
                                                  'https://example.com/é alternate'])),
        'title': _opt(st.text(alphabet='abc XYZ;,=', max_size=6)),
        'title_star': _opt(st.tuples(st.one_of(st.just(''), _lang), text).map(list)),
        'anchor': _opt(anchor),
        'hreflang': _opt(st.one_of(_lang, st.lists(_lang, min_size=1, max_size=3))),
        'type_hint': _opt(st.sampled_from(['text/html', 'application/json'])),
        'crossorigin': _opt(st.sampled_from(['anonymous', 'use-credentials', 'Anonymous', 'USE-CREDENTIALS'])),
        'link_extension': _opt(st.lists(st.tuples(_token, _token).map(list), min_size=1, max_size=2)),
    })


_RESERVED_COOKIE_NAMES = frozenset(['expires', 'path', 'comment', 'domain', 'max-age', 'secure', 'httponly',
                                    'version', 'samesite', 'partitioned'])
_TOKEN_CHARS = _ALNUM + "!#$%&'*+-.^_`|~"
_cookie_name_any = st.text(alphabet=_TOKEN_CHARS, min_size=1, max_size=8).filter(
    lambda n: lower(n) not in _RESERVED_COOKIE_NAMES)
_cookie_value_any = st.one_of(
    st.text(alphabet=st.characters(min_codepoint=0, max_codepoint=127), max_size=10),
    st.text(alphabet=st.sampled_from(list('ab1" ;,\\=\t\n\x00\x7f%')), max_size=8),
    st.sampled_from(['', '""', '"', 'a', '\\', '\\073', ' ', 'a b', 'x=y', '"quoted"']),
    _token,
)
_max_age = st.one_of(
    st.integers(1, 10 ** 9),
    st.floats(min_value=1.0, max_value=1e9, allow_nan=False, allow_infinity=False),
    st.integers(1, 10 ** 9).map(str),
)
_domain = st.builds(lambda dot, labels: dot + '.'.join(labels), st.sampled_from(['', '.']),
                    st.lists(st.text(alphabet='abcxyz019-', min_size=1, max_size=5), min_size=1, max_size=3))
_path = st.text(alphabet="/abXY01-._~%,= '", min_size=1, max_size=8).filter(lambda p: p.strip(' ') == p)
_same_site = st.sampled_from(['Lax', 'Strict', 'None']).flatmap(lambda v: st.builds(recase, st.just(v), _mask))


def _cookie_spec(name, value):
    return st.fixed_dictionaries({
        'name': name,
        'value': value,
        'expires': _opt(_dt7),
        'max_age': _opt(_max_age),
        'domain': _opt(_domain),
        'path': _opt(_path),
        'secure': st.sampled_from([None, True, False]),
        'http_only': st.sampled_from([None, True, False]),
        'same_site': _opt(_same_site),
        'partitioned': st.sampled_from([None, False, True]),
    })


def _unset_spec(name):
    return st.fixed_dictionaries({
        'name': name,
        'samesite': _opt(st.sampled_from(['Lax', 'Strict', 'None', ''])),
        'domain': _opt(_domain),
        'path': _opt(_path),
    })


_hist_cookie_name = st.sampled_from(['sid', 'Sid', 'x-tok'])
_hist_cookie_value = st.one_of(st.sampled_from(['a', 'v 1', 'x;y', '"q"']), _token)
_raw_cookie = st.one_of(
    st.sampled_from(['sid=raw; Path=/', 'other=1', 'Sid=2; Secure', 'x-tok=', 'a=b, c=d']),
    st.builds(lambda n, v: n + '=' + v, _token, _token),
)
_pairs = st.lists(st.tuples(_hname, _hvalue).map(list), min_size=0, max_size=4)

_op = st.one_of(
    st.builds(lambda n, v: ['set', n, v], _hname, _hvalue),
    st.builds(lambda n, v: ['set', n, v], _hname, _hvalue),
    st.builds(lambda n, v: ['append', n, v], _hname, _hvalue),
    st.builds(lambda n, v: ['append', n, v], _hname, _hvalue),
    st.builds(lambda n: ['delete', n], _hname),
    st.builds(lambda n: ['delete', n], _hname),
    st.builds(lambda n, d: ['get', n, d], _hname, st.one_of(st.none(), _ascii_val)),
    st.just(['headers']),
    st.builds(lambda k, p: ['set_headers', k, p], st.sampled_from(['dict', 'list', 'iter', 'gen']), _pairs),
    _prop_set,
    _prop_set,
    st.builds(lambda p: ['prop_set_bad', p], st.sampled_from(sorted(_BAD_VALUES))),
    st.builds(lambda add, drop: ['set_headers_shared', add, drop], _pairs, st.lists(_hname, max_size=1)),
    st.builds(lambda add, drop: ['set_headers_shared', add, drop], _pairs, st.lists(_hname, max_size=1)),
    st.builds(lambda p: ['prop_none', p], _prop),
    st.builds(lambda p: ['prop_del', p], _prop),
    st.builds(lambda p: ['prop_get', p], _prop),
    _link_spec(_uri_small, _uri_small, st.one_of(_token, st.sampled_from(['été', 'a b', '%41']))).map(
        lambda s: ['link', s]),
    _cookie_spec(_hist_cookie_name, _hist_cookie_value).map(lambda s: ['cookie', s]),
    _cookie_spec(_hist_cookie_name, _hist_cookie_value).map(lambda s: ['cookie', s]),
    _unset_spec(_hist_cookie_name).map(lambda s: ['unset', s]),
    st.builds(lambda n, w: ['cookie_bad', n, w], _hist_cookie_name, st.sampled_from(['value', 'value', 'name'])),
    st.builds(lambda n, v: ['raw_cookie', n, v], _sc_name, _raw_cookie),
    st.builds(lambda n, v: ['raw_cookie', n, v], _sc_name, _raw_cookie),
    st.builds(lambda n: ['forbid_get', n], _sc_name),
    st.builds(lambda n, v: ['forbid_set', n, v], _sc_name, _ascii_val),
    st.builds(lambda n: ['forbid_delete', n], _sc_name),
    st.builds(lambda k, n, v: ['forbid_set_headers', k, n, v], st.sampled_from(['dict', 'list']), _sc_name, _ascii_val),
)


class Histories(Suite):
    """Histories (1..15 steps) of set_header / append_header / delete_header / set_headers(dict|list) /
    get_header / headers / typed properties (assign, None, del, read) / append_link / set_cookie /
    unset_cookie / append_header('Set-Cookie', raw) and the forbidden get/set/delete/set_headers
    ('Set-Cookie'), names from a 6-name pool in random casing, replayed inside the GET responder of a
    real falcon.App (vf WSGI driver) and falcon.asgi.App (vf ASGI driver).  After every step a
    case-insensitive dict model is compared through resp.headers, get_header() of 15 names in a
    per-step random casing and four typed properties; the forbidden calls must raise
    HeaderNotSupported and change nothing.  The header list the server received must contain each
    model header exactly once, nothing else (bar Content-Type/Content-Length), lower-case byte names
    on ASGI, and one Set-Cookie line per raw append and per cookie name with the requested attributes."""

    name = 'histories'
    budget = {'quick': 6000, 'thorough': 150000}

    def strategy(self, tier):
        step = st.builds(lambda op, probe: {'op': op, 'probe': probe}, _op, _mask)
        # draw the length explicitly: list strategies on their own strongly prefer short lists
        steps = st.sampled_from([1, 2, 3, 4, 5, 6, 7, 8, 9, 10, 11, 12, 13, 14, 15, 15, 12, 10, 8, 6]).flatmap(
            lambda n: st.lists(step, min_size=n, max_size=n))
        return st.fixed_dictionaries({'secure_default': st.booleans(), 'steps': steps})

    def run(self, case):
        steps = case['steps']
        for driver in ('wsgi', 'asgi'):
            model = HeaderModel(case['secure_default'])

            def responder(req, resp, model=model, driver=driver):
                _probe(resp, model, 0, '%s: fresh response' % driver)
                for i, s in enumerate(steps):
                    where = '%s: step %d %r' % (driver, i, s['op'])
                    apply_op(resp, model, s['op'], where)
                    _probe(resp, model, s['probe'], 'after ' + where)

            sent = serve(driver, case['secure_default'], responder)
            now = utcnow()
            plain, cookie_lines = split_sent(sent)
            names = [k for k, v in plain]
            for k, v in model.h.items():
                if k == 'content-length':
                    continue
                if names.count(k) != 1:
                    raise Violation('emit_count', '%s: header %r sent %d times; sent %r, model %r'
                                    % (driver, k, names.count(k), sent, model.h))
                got = [x for n, x in plain if n == k][0]
                if got != v:
                    raise Violation('emit_value', '%s: header %r sent as %r, model %r' % (driver, k, got, v))
            for k in names:
                if k not in model.h and k not in ('content-type', 'content-length'):
                    raise Violation('emit_extra', '%s: header %r sent but not in the model %r; sent %r'
                                    % (driver, k, model.h, sent))
                if names.count(k) != 1:
                    raise Violation('emit_count', '%s: header %r sent %d times: %r' % (driver, k, names.count(k), sent))
            check_cookie_lines(driver, cookie_lines, model.raw, model.jar, now)
        nt, labels = history_info(steps)
        return Info(nt, sorted(labels))


# ======================================================================== suite 2: cookies


def _needs_quoting(v):
    return v == '' or any(c in ' ";,\\' or ord(c) < 33 or ord(c) > 126 for c in v)


class Cookies(Suite):
    """1..4 set_cookie / unset_cookie calls on distinct RFC 6265 token names (values: any ASCII incl.
    controls, quotes, ';', ',', backslash, spaces, empty; expires naive/aware; max_age int/float/str;
    domain; path; secure None/True/False x secure_cookies_by_default; http_only; same_site in any
    casing; partitioned) through a real WSGI or ASGI app.  Every Set-Cookie line is parsed by an
    independent RFC 6265 parser and must carry exactly the requested attributes (Max-Age=int(x),
    Expires = the instant as rfc1123-date in GMT, SameSite capitalised); unset_cookie gives an empty
    value, an Expires in the past and no live Max-Age.  The cookie-pairs are echoed in one Cookie
    request header: req.cookies[name] and req.get_cookie_values(name) return the original values.
    Documented rejections (non-ASCII name -> KeyError, non-ASCII value -> ValueError, non-token or
    reserved name -> KeyError) must raise and emit nothing."""

    name = 'cookies'
    budget = {'quick': 4000, 'thorough': 80000}

    def strategy(self, tier):
        op = st.one_of(
            _cookie_spec(_cookie_name_any, _cookie_value_any).map(lambda s: ['cookie', s]),
            _cookie_spec(_cookie_name_any, _cookie_value_any).map(lambda s: ['cookie', s]),
            _cookie_spec(_cookie_name_any, _cookie_value_any).map(lambda s: ['cookie', s]),
            _unset_spec(_cookie_name_any).map(lambda s: ['unset', s]),
        )
        reject = st.one_of(
            st.builds(lambda n: ['name', n, 'v'], st.sampled_from(['ké', '€', 'a b', 'a=b', 'a;b', '', 'a,b',
                                                                  'Expires', 'path', 'Max-Age', 'HttpOnly', 'a"b'])),
            st.builds(lambda v: ['value', 'k', v], st.sampled_from(['é', 'a€b', 'ÿ', 'xĀ'])),
        )
        return st.fixed_dictionaries({
            'driver': st.sampled_from(['wsgi', 'asgi']),
            'secure_default': st.booleans(),
            'ops': st.lists(op, min_size=1, max_size=4, unique_by=lambda o: o[1]['name']),
            'reject': _opt(reject),
        })

    def run(self, case):
        driver = case['driver']
        jar = CookieJarModel(case['secure_default'])
        rej = case.get('reject')

        def responder(req, resp):
            if rej is not None:
                try:
                    resp.set_cookie(rej[1], rej[2])
                except KeyError:
                    if rej[0] != 'name':
                        raise Violation('cookie_reject', 'set_cookie(%r, %r) raised KeyError, documented ValueError'
                                        % (rej[1], rej[2]))
                except ValueError:
                    if rej[0] != 'value':
                        raise Violation('cookie_reject', 'set_cookie(%r, %r) raised ValueError, documented KeyError'
                                        % (rej[1], rej[2]))
                else:
                    raise Violation('cookie_reject', 'set_cookie(%r, %r) was accepted' % (rej[1], rej[2]))
            for kind, spec in case['ops']:
                if kind == 'cookie':
                    resp.set_cookie(spec['name'], spec['value'], **cookie_kwargs(spec))
                    jar.set(spec)
                else:
                    resp.unset_cookie(spec['name'], **unset_kwargs(spec))
                    jar.unset(spec)

        sent = serve(driver, case['secure_default'], responder)
        now = utcnow()
        plain, lines = split_sent(sent)
        seen = check_cookie_lines(driver, lines, [], jar, now)

        # ---- echo the live cookies back the way a user agent does
        live = [(k, s) for k, s in case['ops'] if k == 'cookie']
        if live:
            header = '; '.join('%s=%s' % (s['name'], seen[s['name']][0]) for k, s in live)
            got = {}

            def reader(req, resp):
                got['cookies'] = dict(req.cookies)
                got['values'] = {s['name']: req.get_cookie_values(s['name']) for k, s in live}
                got['missing'] = req.get_cookie_values('vf-not-sent')

            serve(driver, True, reader, cookie_header=header)
            exp = {s['name']: s['value'] for k, s in live}
            if got['cookies'] != exp:
                bad = sorted(n for n in exp if got['cookies'].get(n) != exp[n])
                only_empty = (set(got['cookies']) == set(exp)
                              and all(exp[n] == '' and got['cookies'][n] == '""' for n in bad))
                raise Violation('cookie_roundtrip_empty_value' if only_empty else 'cookie_roundtrip',
                                '%s: Set-Cookie lines %r echoed as Cookie: %r -> req.cookies = %r, '
                                'expected %r (differs for %r)' % (driver, lines, header, got['cookies'], exp, bad))
            for n, v in exp.items():
                if got['values'][n] != [v]:
                    raise Violation('cookie_roundtrip', '%s: Cookie: %r -> get_cookie_values(%r) = %r, expected %r'
                                    % (driver, header, n, got['values'][n], [v]))
            if got['missing'] is not None:
                raise Violation('cookie_roundtrip', 'get_cookie_values of a cookie that was not sent = %r' % (got['missing'],))

        labels = {driver, 'secure_default:%s' % case['secure_default']}
        nt = False
        for kind, spec in case['ops']:
            if kind == 'unset':
                labels.add('unset')
                nt = True
                continue
            v = spec['value']
            if _needs_quoting(v):
                labels.add('value:needs_quoting')
                nt = True
            if v == '':
                labels.add('value:empty')
            if any(ord(c) < 32 or ord(c) == 127 for c in v):
                labels.add('value:control')
            nattr = len(expected_cookie_attrs(spec, case['secure_default']))
            if nattr >= 3:
                nt = True
            labels.add('attrs:%s' % ('0-2' if nattr < 3 else '3-5' if nattr < 6 else '6-8'))
            labels.add('secure_arg:%s' % spec['secure'])
            if spec['expires'] is not None:
                labels.add('expires:%s' % ('naive' if spec['expires'][6] is None else 'aware'))
            if spec['max_age'] is not None:
                labels.add('max_age:%s' % type(spec['max_age']).__name__)
            if spec['same_site'] is not None:
                labels.add('same_site')
            if spec['partitioned']:
                labels.add('partitioned')
        if rej is not None:
            labels.add('reject:' + rej[0])
        return Info(nt, sorted(labels))


# ======================================================================== suite 3: URI-bearing helpers

_utext = st.one_of(
    st.text(alphabet=st.characters(blacklist_categories=('Cs',)), max_size=10),
    st.lists(st.one_of(
        st.sampled_from(['%', '%2', '%41', '%C3%A9', '%zz', ' ', '/', '?', '#', '&', '=', ';', ',', '"', '<', '>', '\\',
                         'é', '€', '\U0001F600', 'a', 'Z', '9', '~', '+', "'", '\x7f', '\t']),
        st.text(alphabet=st.characters(blacklist_categories=('Cs',)), max_size=3)), max_size=8).map(''.join),
    _uri_small,
    # beyond the moderate range: hundreds / thousands of well-formed escapes followed (or not) by something that is not one
    st.builds(lambda n, unit, tail: '/p/' + unit * n + tail, st.sampled_from([100, 255, 256, 257, 300, 1024, 3000]),
              st.sampled_from(['%41', '%C3%A9', '%e2%82%ac']), st.sampled_from(['', '', '%', '/save-100%', '%zz', '\u00e9', ' x', '%4'])),
    st.builds(lambda n, tail: 'abcdefghij' * n + tail, st.sampled_from([30, 7000]), st.sampled_from(['', '\u00e9', '%', '%41'])),
)
_fname = st.one_of(
    st.text(alphabet=st.characters(blacklist_categories=('Cs',)), min_size=1, max_size=10),
    st.lists(st.sampled_from(['report', '.pdf', ' ', 'é', '€', '\U0001F600', '%', '%41', '"', '/', '\\', ';',
                              '.', '_', 'Å', '１', '\u0663', '\u0968', '\u0e52', '\u00df', '\u00f8', '\u4e2d', '\u00bd']), min_size=1, max_size=6).map(''.join),
)


def _ascii_fname_ok(v):
    return all(32 <= ord(c) < 127 and c not in '"\\' for c in v)


_SAFE_FALLBACK = frozenset(_ALNUM + '._-')


class UriHelpers(Suite):
    """location, content_location, append_link(target, anchor, title_star, extension rel) and
    downloadable_as / viewable_as over arbitrary unicode (no lone surrogates) on falcon.Response and
    falcon.asgi.Response: the header value is pure ASCII; it equals the RFC 3986 percent-encoding
    of the input (reserved and unreserved characters kept, UTF-8 octets escaped) unless the input
    already consists only of allowed characters and well-formed escapes (documented passthrough,
    output == input); decoding the output returns the input; filename* percent-decodes to the
    filename and the plain filename fallback is ASCII."""

    name = 'uri_helpers'
    budget = {'quick': 4000, 'thorough': 80000}

    def strategy(self, tier):
        loc = st.builds(lambda k, v: {'kind': k, 'value': v}, st.sampled_from(['location', 'content_location']), _utext)
        link = _link_spec(_utext, _utext, _utext).map(lambda s: {'kind': 'link', 'spec': s})
        disp = st.builds(lambda k, v: {'kind': k, 'value': v}, st.sampled_from(['downloadable_as', 'viewable_as']),
                         _fname.filter(lambda v: not is_ascii(v) or _ascii_fname_ok(v)))
        return st.builds(lambda c, a: dict(c, asgi=a), st.one_of(loc, loc, link, link, disp), st.booleans())

    def run(self, case):
        resp = falcon.asgi.Response() if case['asgi'] else falcon.Response()
        kind = case['kind']
        labels = [kind]
        if kind in ('location', 'content_location'):
            v = case['value']
            setattr(resp, kind, v)
            out = resp.get_header(kind.replace('_', '-'))
            self._check_uri(kind, v, out)
            if getattr(resp, kind) != out:
                raise Violation('property_get_mismatch', 'resp.%s = %r but the header is %r' % (kind, getattr(resp, kind), out))
            inputs = [v]
        elif kind == 'link':
            spec = case['spec']
            resp.append_link(spec['target'], spec['rel'], **link_kwargs(spec))
            out = resp.get_header('link')
            if out is None:
                raise Violation('link_value', 'no Link header after append_link(%r)' % (spec,))
            check_link_value(out, spec)
            inputs = [spec['target'], spec['anchor'] or '', (spec['title_star'] or ['', ''])[1]]
        else:
            v = case['value']
            setattr(resp, kind, v)
            out = resp.get_header('content-disposition')
            dtype = 'attachment' if kind == 'downloadable_as' else 'inline'
            if out is None or not is_ascii(out):
                raise Violation('disposition_not_ascii', 'resp.%s = %r -> %r' % (kind, v, out))
            if is_ascii(v):
                exp = '%s; filename="%s"' % (dtype, v)
                if out != exp:
                    raise Violation('disposition_value', 'resp.%s = %r -> %r, expected %r' % (kind, v, out, exp))
            else:
                m = re.match(r"^(\w+); filename=([^;]*); filename\*=UTF-8''(.*)$", out, re.S)
                if not m or m.group(1) != dtype:
                    raise Violation('disposition_value', 'resp.%s = %r -> %r (not "%s; filename=...; filename*=UTF-8\'\'...")'
                                    % (kind, v, out, dtype))
                fallback, ext = m.group(2), m.group(3)
                if not fallback or any(c not in _SAFE_FALLBACK for c in fallback):
                    raise Violation('disposition_fallback', 'resp.%s = %r -> fallback filename %r' % (kind, v, fallback))
                if any(c not in _UNRESERVED for c in _ESC.sub('', ext)):
                    raise Violation('disposition_value', 'resp.%s = %r -> filename* value %r has unescaped characters'
                                    % (kind, v, ext))
                if ref_decode(ext) != v:
                    raise Violation('disposition_roundtrip', 'resp.%s = %r -> filename* %r decodes to %r'
                                    % (kind, v, ext, ref_decode(ext)))
                labels.append('filename*')
            inputs = [v]
        nt = False
        for s in inputs:
            if not is_ascii(s):
                labels.append('non_ascii')
                nt = True
            if '%' in s:
                labels.append('percent')
                nt = True
            if any(c not in _URI_CHARS for c in s if ord(c) < 128 and c != '%'):
                labels.append('ascii_outside_uri_alphabet')
                nt = True
            if s and fully_escaped(s, _URI_CHARS) and '%' in s:
                labels.append('passthrough')
        labels.append('asgi' if case['asgi'] else 'wsgi')
        return Info(nt, sorted(set(labels)))

    @staticmethod
    def _check_uri(kind, v, out):
        if out is None or not is_ascii(out):
            raise Violation('uri_not_ascii', 'resp.%s = %r -> header %r' % (kind, v, out))
        exp = ref_encode_check(v, _URI_CHARS)
        if out != exp:
            raise Violation('uri_encoding', 'resp.%s = %r -> header %r, RFC 3986 encoding %r' % (kind, v, out, exp))
        if fully_escaped(v, _URI_CHARS):
            if out != v:
                raise Violation('uri_passthrough', 'resp.%s = %r (already escaped) -> %r' % (kind, v, out))
        elif ref_decode(out) != v:
            raise Violation('uri_roundtrip', 'resp.%s = %r -> %r decodes to %r' % (kind, v, out, ref_decode(out)))


class ManyEntries(Suite):
    """Counts beyond the moderate range, replayed like `histories` inside a real responder on both stacks: 70-600 distinct
    header names set in mixed letter casing (every third deleted again under another casing, every fifth appended to),
    one name appended to 300 times, set_headers() with a 300-entry dict, and 70-300 cookies of distinct names (every
    fourth unset again).  The case-insensitive model must hold after every step and in what the server receives."""

    name = 'many_entries'
    exhaustive = True
    budget = {'quick': 1, 'thorough': 1}

    def cases(self, tier):
        for n in ((70, 300) if tier == 'quick' else (63, 64, 65, 70, 129, 257, 300, 600)):
            for shape in ('names', 'appends', 'bulk_dict', 'cookies'):
                for secure in (False, True):
                    yield {'n': n, 'shape': shape, 'secure_default': secure}

    def run(self, case):
        n, shape = case['n'], case['shape']
        ops = []
        if shape == 'names':
            for i in range(n):
                name = 'X-Many-%d' % i
                ops.append(['set', name.upper() if i % 2 else name, 'v%d' % i])
                if i % 5 == 0:
                    ops.append(['append', name.lower(), 'more'])
            for i in range(0, n, 3):
                ops.append(['delete', ('X-Many-%d' % i).swapcase()])
            ops.append(['get', 'x-many-%d' % (n - 1), None])
        elif shape == 'appends':
            for i in range(min(n, 300)):
                ops.append(['append', 'X-Acc' if i % 2 else 'x-acc', 'item%d' % i])
            ops.append(['get', 'X-ACC', None])
        elif shape == 'bulk_dict':
            ops.append(['set', 'x-bulk-3', 'old'])
            ops.append(['set_headers', 'dict', [['X-Bulk-%d' % i, 'b%d' % i] for i in range(n)]])
            ops.append(['set_headers', 'list', [['x-bulk-%d' % i, 'again%d' % i] for i in range(0, n, 7)]])
        else:
            for i in range(min(n, 300)):
                ops.append(['cookie', {'name': 'ck%d' % i, 'value': 'v%d' % i, 'expires': None, 'max_age': 60 + i if i % 3 == 0 else None,
                                       'domain': None, 'path': '/p' if i % 2 else None, 'secure': None, 'http_only': None, 'same_site': None,
                                       'partitioned': None}])
                if i % 4 == 0:
                    ops.append(['unset', {'name': 'ck%d' % i, 'samesite': None, 'domain': None, 'path': None}])
        ops.append(['headers'])
        steps = [{'op': op, 'probe': i % 2048} for i, op in enumerate(ops)]
        try:
            Histories().run({'secure_default': case['secure_default'], 'steps': steps})
        except Violation as v:
            d = v.detail
            raise Violation(v.kind, '%s ... %s\n  compact case=%r' % (d[:300], d[-300:], case))
        return Info(True, ['shape:' + shape, 'n:%s' % ('<=64' if n <= 64 else '<=256' if n <= 300 else '>300')])



SUITES = [Histories(), Cookies(), UriHelpers(), ManyEntries()]

# Narrow predicates (the violation kinds below are raised for exactly one input class each), used only
# if the corresponding finding is listed as `known` in known_findings.jsonl instead of being fixed.
KNOWN = {
    # F18: an empty cookie value is emitted as k="" and read back as the two characters '""'
    'F18': lambda suite_name, case, v: v.kind == 'cookie_roundtrip_empty_value',
    'C15-stale-cookie-attrs': lambda suite_name, case, v: v.kind == 'cookie_stale_attrs',
    'C15-unset-keeps-max-age': lambda suite_name, case, v: (
        v.kind == 'unset_cookie_not_expired' and 'Max-Age' in v.detail),
}
