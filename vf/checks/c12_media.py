"""C12 — Media round-trips unchanged and request media is parsed at most once.

Three suites:

* ``roundtrip``  resp.media = doc rendered by a real falcon.App / falcon.asgi.App responder; the
  body is fed back as a request with the same content type on both stacks (ASGI: generated
  chunkings); req.get_media() must equal doc and an independent decoder must agree.
* ``history``    generated call histories over get_media() / get_media(default_when_empty=x) /
  .media on bodies that are valid, empty, whitespace, truncated, corrupted, wrongly encoded or
  deeply nested; the handler is instrumented (entries counted) and so is the body stream.
* ``truncations`` exhaustive: every byte prefix of a fixed list of small JSON documents x stack x
  handler wiring x four fixed histories.

The oracle shares no code with falcon: classification of a body is done with the stdlib json
module over a strict UTF-8 decode, forms are decoded with urllib.parse.parse_qs, documents are
compared with a type-strict iterative comparison.
"""
import copy
import json
import urllib.parse

from hypothesis import strategies as st

import falcon
import falcon.asgi
import falcon.media
from falcon.media.base import BaseHandler

from vf.gen import resp_history as RH
from vf.core import HarnessError, Info, Suite, Violation
from vf.drivers import asgi as A
from vf.drivers import wsgi as W

LEVEL = 'exploration'
RULE = (
    'round trip: the document has container depth >= 2 and contains a non-ASCII string (form: a '
    'non-ASCII or reserved character in a key or value, or a multi-valued key); history / '
    'truncations: the body is invalid for the handler (malformed, wrong encoding, too deeply '
    'nested, empty for JSON), or the history has >= 3 calls mixing calls with and without '
    'default_when_empty; distinct = distinct case fingerprint'
)
ASSUMPTIONS = [
    'JSON documents: nesting <= 6, str keys, no lone surrogates, no NaN/Infinity, top-level None is '
    'not used as response media (None means "no media" in the documented API)',
    'request bodies are sent with an exact Content-Length (WSGI always; ASGI with or without the '
    'header); mismatching lengths belong to C07',
    'JSON text is UTF-8 (RFC 8259); a charset parameter other than utf-8 is not exercised',
    'stdlib json (strict UTF-8 decode first) is the reference for "is this body a JSON document"; '
    'a body whose nesting makes the reference parser raise RecursionError counts as undecodable; a '
    'well-formed document nested deeper than 200 levels may be returned or rejected as malformed '
    '(parser capacity is an implementation limit), consistently across the history',
    'deserialize entries are counted by instance-level wrappers around deserialize, '
    'deserialize_async and the _deserialize_sync fast-path attribute of a stock handler, by a '
    'delegating BaseHandler subclass (generic path), and by the public loads= hook',
    'URL-encoded bodies other than generated encodings of a form mapping are only required to give '
    'a dict or MediaMalformedError (query-string parsing details belong to C08)',
]

CTYPES = {
    'json': 'application/json',
    'json_charset': 'application/json; charset=utf-8',
    'vendor': 'application/vnd.x+json',
    'form': 'application/x-www-form-urlencoded',
    'missing': None,  # no Content-Type header: RequestOptions.default_media_type (JSON) applies
}
HANDLER_KEY = {
    'json': 'application/json',
    'json_charset': 'application/json',
    'missing': 'application/json',
    'vendor': 'application/vnd.x+json',
    'form': 'application/x-www-form-urlencoded',
}
VENDOR = CTYPES['vendor']


# ------------------------------------------------------------------ reference helpers


def same(a, b):
    """Type-strict, iterative document equality (bool is not int, 1 is not 1.0, -0.0 is not 0.0)."""
    stack = [(a, b)]
    while stack:
        x, y = stack.pop()
        if type(x) is not type(y):
            return False
        if type(x) is dict:
            if len(x) != len(y):
                return False
            for k in x:
                if type(k) is not str or k not in y:
                    return False
                stack.append((x[k], y[k]))
        elif type(x) is list:
            if len(x) != len(y):
                return False
            stack.extend(zip(x, y))
        elif type(x) is float:
            if repr(x) != repr(y):
                return False
        elif x != y:
            return False
    return True


def brief(obj, limit=300):
    r = repr(obj)
    return r if len(r) <= limit else r[:limit] + '...(%d chars)' % len(r)


def depth(doc):
    best = 0
    stack = [(doc, 0)]
    while stack:
        x, d = stack.pop()
        if type(x) is dict:
            best = max(best, d + 1)
            stack.extend((v, d + 1) for v in x.values())
        elif type(x) is list:
            best = max(best, d + 1)
            stack.extend((v, d + 1) for v in x)
    return best


def has_non_ascii(doc):
    stack = [doc]
    while stack:
        x = stack.pop()
        if type(x) is str:
            if any(ord(c) > 127 for c in x):
                return True
        elif type(x) is dict:
            stack.extend(x.keys())
            stack.extend(x.values())
        elif type(x) is list:
            stack.extend(x)
    return False


def classify_json(body):
    """Reference verdict for a JSON request body: ('notfound',) | ('malformed', why) | ('value', v)
    | ('value_or_malformed', v).  The last one is used for well-formed documents nested deeper than
    LENIENT_DEPTH: how deep a parser can go is an implementation limit that depends on the
    interpreter and on the stack already in use, so falcon may either return the document or
    reject it as malformed (but nothing else).  A document the reference parser itself cannot
    parse (RecursionError at a shallower stack than falcon's) must be rejected."""
    if not body:
        return ('notfound',)
    try:
        text = body.decode('utf-8')
    except UnicodeDecodeError:
        return ('malformed', 'not UTF-8')
    try:
        value = json.loads(text)
    except RecursionError:
        return ('malformed', 'nesting too deep for the parser')
    except ValueError:
        return ('malformed', 'not JSON')
    if depth(value) > LENIENT_DEPTH:
        return ('value_or_malformed', value)
    return ('value', value)


LENIENT_DEPTH = 200


def classify_form(body, doc):
    """Reference verdict for a URL-encoded body; doc is the mapping the body was generated from
    (None for arbitrary bytes): ('value', v) | ('malformed', why) | ('dict_or_malformed',)."""
    if not body:
        return ('value', {})
    try:
        body.decode('ascii')
    except UnicodeDecodeError:
        return ('malformed', 'not ASCII')
    if doc is not None:
        return ('value', doc)
    return ('dict_or_malformed',)


def classify_partial(body):
    head = body[:1]
    if not head:
        return ('notfound',)
    if head in (b'[', b'{'):
        return ('value', {'head': head.decode('ascii')})
    return ('malformed', 'first byte')


def form_reference(body):
    """Independent decoding of an urlencoded body into {key: str | [str, ...]}."""
    if not body:
        return {}
    pairs = urllib.parse.parse_qs(body.decode('ascii'), keep_blank_values=True, strict_parsing=True,
                                  encoding='utf-8', errors='strict')
    return {k: (v[0] if len(v) == 1 else v) for k, v in pairs.items()}


# ------------------------------------------------------------------ instrumentation


class Counter(object):
    def __init__(self):
        self.entries = 0   # outermost entries into the handler's deserialize*
        self.depth = 0
        self.loads = 0     # calls of the loads= hook (stock JSON handler only)
        self.fast = 0      # entries through the _deserialize_sync fast path

    def enter(self):
        if self.depth == 0:
            self.entries += 1
        self.depth += 1

    def leave(self):
        self.depth -= 1


def instrument_stock(handler, counter):
    """Count entries of a stock handler instance without subclassing it (so that falcon keeps
    taking the same code paths, including the ASGI fast path)."""
    orig_sync = handler.deserialize
    orig_async = handler.deserialize_async

    def deserialize(stream, content_type, content_length):
        counter.enter()
        try:
            return orig_sync(stream, content_type, content_length)
        finally:
            counter.leave()

    async def deserialize_async(stream, content_type, content_length):
        counter.enter()
        try:
            return await orig_async(stream, content_type, content_length)
        finally:
            counter.leave()

    handler.deserialize = deserialize
    handler.deserialize_async = deserialize_async
    fast = getattr(handler, '_deserialize_sync', None)
    if fast is not None:
        def _deserialize_sync(data):
            counter.fast += 1
            counter.enter()
            try:
                return fast(data)
            finally:
                counter.leave()

        handler._deserialize_sync = _deserialize_sync
    return handler


class Delegating(BaseHandler):
    """Generic-path handler: a BaseHandler subclass delegating to a stock handler."""

    def __init__(self, inner, counter):
        self.inner = inner
        self.counter = counter

    def serialize(self, media, content_type):
        return self.inner.serialize(media, content_type)

    def deserialize(self, stream, content_type, content_length):
        self.counter.enter()
        try:
            return self.inner.deserialize(stream, content_type, content_length)
        finally:
            self.counter.leave()

    async def deserialize_async(self, stream, content_type, content_length):
        self.counter.enter()
        try:
            return await self.inner.deserialize_async(stream, content_type, content_length)
        finally:
            self.counter.leave()


class SyncOnly(BaseHandler):
    """The documented minimal recipe: a BaseHandler subclass that implements the synchronous interface only; on ASGI the
    inherited deserialize_async() wrapper reads the body and calls deserialize()."""

    def __init__(self, inner, counter):
        self.inner = inner
        self.counter = counter

    def serialize(self, media, content_type):
        return self.inner.serialize(media, content_type)

    def deserialize(self, stream, content_type, content_length):
        self.counter.enter()
        try:
            return self.inner.deserialize(stream, content_type, content_length)
        finally:
            self.counter.leave()


class Partial(BaseHandler):
    """Custom handler that looks at the first byte only and asks falcon to exhaust the stream."""

    exhaust_stream = True

    def __init__(self, counter):
        self.counter = counter

    @staticmethod
    def decide(head):
        if not head:
            raise falcon.MediaNotFoundError('Partial')
        if head in (b'[', b'{'):
            return {'head': head.decode('ascii')}
        raise falcon.MediaMalformedError('Partial')

    def deserialize(self, stream, content_type, content_length):
        self.counter.enter()
        try:
            return self.decide(stream.read(1))
        finally:
            self.counter.leave()

    async def deserialize_async(self, stream, content_type, content_length):
        self.counter.enter()
        try:
            return self.decide(await stream.read(1))
        finally:
            self.counter.leave()


def make_handler(ct, mode, counter):
    is_form = ct == 'form'
    if mode == 'partial':
        return Partial(counter)
    if is_form:
        inner = falcon.media.URLEncodedFormHandler()
    else:
        def loads(text):
            counter.loads += 1
            return json.loads(text)

        inner = falcon.media.JSONHandler(loads=loads)
    if mode == 'stock':
        return instrument_stock(inner, counter)
    if mode == 'generic':
        return Delegating(inner, counter)
    if mode == 'sync_only':
        return SyncOnly(inner, counter)
    raise HarnessError('unknown handler mode %r' % (mode,))


class CountingReceive(object):
    """ASGI app wrapper: counts receive() awaits and the body bytes handed to the app."""

    def __init__(self, app):
        self.app = app
        self.calls = 0
        self.bytes = 0

    async def __call__(self, scope, receive, send):
        async def counted():
            self.calls += 1
            event = await receive()
            if event.get('type') == 'http.request':
                self.bytes += len(event.get('body', b''))
            return event

        await self.app(scope, counted, send)


def make_events(body, chunks, tail_empty, keyless=False):
    """Split body into http.request events.  Sizes cycle through `chunks` (0 = an empty event with
    more_body=True, legal in ASGI); long bodies scale the sizes so the event count stays small.
    keyless: optional keys are omitted where the ASGI spec gives them defaults (an empty `body`, a false
    `more_body`), as some servers do."""
    if not chunks or not any(chunks) or not body:
        events = [{'type': 'http.request', 'body': body, 'more_body': False}]
        if keyless:
            if not body:
                del events[0]['body']
            del events[0]['more_body']
    else:
        scale = max(1, len(body) // 400)
        events = []
        pos = 0
        i = 0
        while pos < len(body):
            n = chunks[i % len(chunks)] * scale
            events.append({'type': 'http.request', 'body': body[pos:pos + n], 'more_body': True})
            pos += n
            i += 1
        events[-1]['more_body'] = False
    if tail_empty:
        events[-1]['more_body'] = True
        events.append({'type': 'http.request'} if keyless else {'type': 'http.request', 'body': b'', 'more_body': False})
    return events


def check_no_late_receive(res, where):
    """Once the final http.request event has been handed over, the framework has no reason to await
    receive() again while it parses the media (on a real server that call blocks until the client leaves)."""
    if res.receive_after_end:
        raise Violation('receive_after_final_event', '%s: receive() awaited %d time(s) after the final http.request event'
                        % (where, res.receive_after_end))


def drive(coro):
    """Run a coroutine that never suspends (WSGI side of the shared interpreter)."""
    try:
        coro.send(None)
    except StopIteration as stop:
        return stop.value
    coro.close()
    raise HarnessError('synchronous accessor suspended')


def req_headers(ct, body, with_cl):
    headers = []
    if CTYPES[ct] is not None:
        headers.append(('Content-Type', CTYPES[ct]))
    if with_cl:
        headers.append(('Content-Length', str(len(body))))
    return headers


# ------------------------------------------------------------------ round trip


def _consume(media):
    """What a responder may do with ITS parsed document: modify it in place."""
    if isinstance(media, dict):
        for v in media.values():
            if isinstance(v, list):
                v.append('vf-used')
        media['vf-used'] = True
        for k in list(media)[:1]:
            if k != 'vf-used':
                media.pop(k)
    elif isinstance(media, list):
        media.append('vf-used')


class RoundTrip(Suite):
    """resp.media = doc is rendered by a GET responder of a real falcon.App and falcon.asgi.App
    (default handlers; application/vnd.x+json registered explicitly); every body obtained is decoded
    by an independent decoder (strict UTF-8 + json.loads / urllib.parse.parse_qs) and POSTed back
    with the same content type to both stacks (ASGI: generated chunking incl. empty events, with
    and without Content-Length); req.get_media() must be type-strictly equal to doc and a second
    call must return the same object."""

    name = 'roundtrip'
    budget = {'quick': 3200, 'thorough': 80000}

    def strategy(self, tier):
        json_case = st.builds(
            lambda doc, ct, chunks, tail, cl: {'kind': 'json', 'doc': json.dumps(doc), 'ct': ct,
                                               'chunks': chunks, 'tail_empty': tail, 'cl': cl},
            top_docs(), st.sampled_from(['json', 'json_charset', 'vendor']), chunkings(), st.booleans(),
            st.booleans())
        form_case = st.builds(
            lambda doc, chunks, tail, cl, csv: {'kind': 'form', 'doc': json.dumps(doc), 'ct': 'form',
                                                'chunks': chunks, 'tail_empty': tail, 'cl': cl, 'form_csv': csv},
            forms(), chunkings(), st.booleans(), st.booleans(), st.booleans())
        return weighted((3, json_case), (1, form_case))

    def run(self, case):
        doc = json.loads(case['doc'])
        ct = case['ct']
        ctype = CTYPES[ct]
        is_form = case['kind'] == 'form'

        box = {}

        class WRes(object):
            def on_get(self, req, resp):
                resp.content_type = ctype
                resp.media = doc

            def on_post(self, req, resp):
                try:
                    first = req.get_media()
                    box['got'] = (copy.deepcopy(first), req.get_media() is first)
                    _consume(first)
                except Exception as e:  # noqa
                    box['err'] = e
                resp.text = 'ok'

        class ARes(object):
            async def on_get(self, req, resp):
                resp.content_type = ctype
                resp.media = doc

            async def on_post(self, req, resp):
                try:
                    first = await req.get_media()
                    box['got'] = (copy.deepcopy(first), (await req.get_media()) is first)
                    _consume(first)
                except Exception as e:  # noqa
                    box['err'] = e
                resp.text = 'ok'

        wapp = falcon.App()
        aapp = falcon.asgi.App()
        for app in (wapp, aapp):
            app.req_options.media_handlers[VENDOR] = falcon.media.JSONHandler()
            app.resp_options.media_handlers[VENDOR] = falcon.media.JSONHandler()
            if case.get('form_csv'):
                # comma-separated lists enabled on the request side: commas inside values travel percent-encoded, so the
                # document must still come back unchanged
                app.req_options.media_handlers[falcon.MEDIA_URLENCODED] = falcon.media.URLEncodedFormHandler(csv=True)
        wapp.add_route('/m', WRes())
        aapp.add_route('/m', ARes())

        # ---- render on both stacks
        bodies = []
        res = W.call(wapp, W.build_environ('GET', '/m'))
        self._check_render('wsgi', res, case, doc, ctype)
        bodies.append(('wsgi', res.body))
        res = A.call(aapp, A.build_scope('GET', '/m'))
        self._check_render('asgi', res, case, doc, ctype)
        if res.body != bodies[0][1]:
            bodies.append(('asgi', res.body))

        # ---- independent decoding of what was rendered
        for origin, body in bodies:
            try:
                if is_form:
                    ref = form_reference(body)
                else:
                    ref = json.loads(body.decode('utf-8'))
            except ValueError as e:
                raise Violation('rendered_body_undecodable',
                                '%s: resp.media=%s as %s rendered %s; independent decoder: %s: %s'
                                % (origin, brief(doc), ctype, brief(body), type(e).__name__, e))
            if not same(ref, doc):
                raise Violation('rendered_body_differs',
                                '%s: resp.media=%s as %s rendered %s which decodes to %s'
                                % (origin, brief(doc), ctype, brief(body), brief(ref)))

        # ---- feed back, twice: the responder uses up the document it parsed (pops / appends), so a second
        # request with the same bytes must again get a document equal to the one that was sent
        for origin, body in bodies + bodies:
            box.clear()
            res = W.call(wapp, W.build_environ('POST', '/m', headers=req_headers(ct, body, True), body=body))
            self._check_back('wsgi', origin, res, box, case, doc, body)
            box.clear()
            events = make_events(body, case['chunks'], case['tail_empty'], keyless=not case['cl'])
            res = A.call(aapp, A.build_scope('POST', '/m', headers=req_headers(ct, body, case['cl'])), events)
            check_no_late_receive(res, 'asgi roundtrip request, events=%r' % (events[:4],))
            self._check_back('asgi', origin, res, box, case, doc, body)

        if is_form:
            multi = any(type(v) is list for v in doc.values())
            special = any(not (c.isalnum() and ord(c) < 128)
                          for k, v in doc.items() for s in ([k] + (v if type(v) is list else [v])) for c in s)
            nontrivial = multi or special
            labels = ['form', 'form:csv_on' if case.get('form_csv') else 'form:csv_off', 'form:multi' if multi else 'form:single',
                      'form:special_chars' if special else 'form:plain']
        else:
            d = depth(doc)
            na = has_non_ascii(doc)
            nontrivial = d >= 2 and na
            labels = ['json', 'ct:' + ct, 'depth:%d' % d, 'non_ascii' if na else 'ascii_only',
                      'top:' + type(doc).__name__]
        labels.append('chunked' if any(case['chunks']) else 'single_event')
        if len(bodies) > 1:
            labels.append('bodies_differ_between_stacks')
        return Info(nontrivial, labels)

    @staticmethod
    def _check_render(stack, res, case, doc, ctype):
        if res.error is not None:
            raise Violation('render_raised', '%s: resp.media=%s as %s: %s: %s'
                            % (stack, brief(doc), ctype, type(res.error).__name__, res.error))
        if res.code != 200:
            raise Violation('render_status', '%s: resp.media=%s as %s -> status %s body %s'
                            % (stack, brief(doc), ctype, res.code, brief(res.body)))
        if res.header('content-type') != ctype:
            raise Violation('render_content_type', '%s: content type set to %r, response has %r'
                            % (stack, ctype, res.header('content-type')))

    @staticmethod
    def _check_back(stack, origin, res, box, case, doc, body):
        where = '%s request (body rendered by %s, content type %r, chunks=%r tail_empty=%r cl=%r)' % (
            stack, origin, CTYPES[case['ct']], case['chunks'], case['tail_empty'], case['cl'])
        if res.error is not None:
            raise Violation('request_raised', '%s: %s: %s' % (where, type(res.error).__name__, res.error))
        if 'err' in box:
            e = box['err']
            raise Violation('roundtrip_get_media_raised', '%s: doc=%s body=%s: get_media() raised %s: %s'
                            % (where, brief(doc), brief(body), type(e).__name__, e))
        if 'got' not in box or res.code != 200:
            raise Violation('roundtrip_no_result', '%s: status %s body %s' % (where, res.code, brief(res.body)))
        got, cached = box['got']
        if not same(got, doc):
            raise Violation('roundtrip_differs', '%s: doc=%s body=%s get_media()=%s'
                            % (where, brief(doc), brief(body), brief(got)))
        if not cached:
            raise Violation('second_call_new_object', '%s: second get_media() returned a different object' % where)


# ------------------------------------------------------------------ histories


DEFAULTS = {
    'none': lambda: None,
    'dict': lambda: {'default': True},
    'list': lambda: [],
    'zero': lambda: 0,
    'false': lambda: False,
    'str': lambda: 'fallback',
}


async def interpret(ops, acc, probe):
    """Execute the history; returns a list of (op, default_obj, 'ret'|'exc', value, probe())."""
    out = []
    for op in ops:
        kind = op[0]
        dflt = None
        try:
            if kind == 'get':
                val = await acc.get()
            elif kind == 'media':
                val = await acc.media()
            elif kind in ('default', 'default_pos'):
                dflt = DEFAULTS[op[1]]()
                val = await acc.default(dflt, kind == 'default_pos')
            else:
                raise HarnessError('unknown op %r' % (op,))
            out.append((op, dflt, 'ret', val, probe()))
        except HarnessError:
            raise
        except BaseException as e:  # noqa - the verdict is taken outside
            if isinstance(e, (KeyboardInterrupt, SystemExit, GeneratorExit)) or type(e).__name__ == 'CaseTimeout':
                raise
            # what the error SAYS at the moment it is raised (an HTTPError's description / dict may be derived from other
            # attributes, e.g. its cause): kept next to the instance so that later raises can be compared with it
            try:
                e._vf_said = (getattr(e, 'title', None), getattr(e, 'description', None),
                              json.dumps(e.to_dict(), sort_keys=True, default=str) if hasattr(e, 'to_dict') else None)
                said = getattr(e, '_vf_said_log', None)
                if said is None:
                    said = e._vf_said_log = []
                said.append(e._vf_said)
            except Exception:  # noqa - exotic exception objects: nothing to compare
                pass
            out.append((op, dflt, 'exc', e, probe()))
    return out


class SyncAcc(object):
    def __init__(self, req):
        self.req = req

    async def get(self):
        return self.req.get_media()

    async def media(self):
        return self.req.media

    async def default(self, x, positional):
        return self.req.get_media(x) if positional else self.req.get_media(default_when_empty=x)


class AsyncAcc(object):
    def __init__(self, req):
        self.req = req

    async def get(self):
        return await self.req.get_media()

    async def media(self):
        return await self.req.media

    async def default(self, x, positional):
        if positional:
            return await self.req.get_media(x)
        return await self.req.get_media(default_when_empty=x)


def run_history(case):
    """Run one history case on its stack; returns (expected, outcomes, extra) after judging it."""
    stack = case['stack']
    ct = case['ct']
    mode = case['handler']
    body = case['body']
    ops = case['ops']
    doc = json.loads(case['doc']) if case.get('doc') is not None else None
    if not ops:
        raise HarnessError('empty history')

    counter = Counter()
    handler = make_handler(ct, mode, counter)
    box = {}

    if mode == 'partial':
        expected = classify_partial(body)
    elif ct == 'form':
        expected = classify_form(body, doc)
    else:
        expected = classify_json(body)
        if doc is not None and not (expected[0] == 'value' and same(expected[1], doc)):
            raise HarnessError('generator: body %r does not encode doc %r' % (body[:200], doc))

    def finish(outcomes, resp):
        box['outcomes'] = outcomes
        last = outcomes[-1]
        if last[2] == 'exc':
            raise last[3]
        resp.text = 'ok'

    if stack == 'wsgi':
        inp = W.Input(body)

        def probe():
            return (counter.entries, counter.loads, len(inp.calls), inp.pos)

        class Res(object):
            def on_post(self, req, resp):
                outcomes = drive(interpret(ops, SyncAcc(req), probe))
                box['tail'] = req.bounded_stream.read()
                box['after_tail'] = probe()
                finish(outcomes, resp)

        app = falcon.App()
        app.req_options.media_handlers[HANDLER_KEY[ct]] = handler
        app.add_route('/m', Res())
        env = W.build_environ('POST', '/m', headers=req_headers(ct, body, True), body=body, input_obj=inp)
        res = W.call(app, env)
        code = res.code if res.status else None
        consumed = inp.pos
    elif stack == 'asgi':
        class Res(object):
            async def on_post(self, req, resp):
                outcomes = await interpret(ops, AsyncAcc(req), probe)
                box['tail'] = await req.stream.read()
                box['after_tail'] = probe()
                finish(outcomes, resp)

        app = falcon.asgi.App()
        app.req_options.media_handlers[HANDLER_KEY[ct]] = handler
        app.add_route('/m', Res())
        counting = CountingReceive(app)

        def probe():
            return (counter.entries, counter.loads, counting.calls, counting.bytes)

        events = make_events(body, case['chunks'], case['tail_empty'], keyless=not case['cl'])
        res = A.call(counting, A.build_scope('POST', '/m', headers=req_headers(ct, body, case['cl'])), events)
        check_no_late_receive(res, 'asgi request ct=%r ops=%r events=%r' % (CTYPES[ct], ops, events[:4]))
        code = res.code if res.start else None
        consumed = counting.bytes
    else:
        raise HarnessError('unknown stack %r' % (stack,))

    ctx = '%s ct=%r handler=%s body=%s ops=%r chunks=%r tail_empty=%r cl=%r' % (
        stack, CTYPES[ct], mode, brief(body, 120), ops, case.get('chunks'), case.get('tail_empty'), case.get('cl'))

    if 'outcomes' not in box:
        raise Violation('responder_not_completed', '%s: status %s, escaped %r' % (ctx, code, res.error))
    outcomes = box['outcomes']

    # ---- per-call verdicts against the reference
    first_exc = None
    first_val = None
    have_val = False
    klass = expected[0]
    if klass in ('dict_or_malformed', 'value_or_malformed'):
        # two acceptable behaviours; the first call decides which one every later call must repeat
        eff = 'value' if outcomes[0][2] == 'ret' else 'malformed'
    else:
        eff = klass
    has_ref = klass in ('value', 'value_or_malformed')
    for idx, (op, dflt, how, val, _) in enumerate(outcomes):
        call = 'call #%d %r' % (idx + 1, op)
        with_default = op[0] in ('default', 'default_pos')
        if how == 'exc':
            if not isinstance(val, Exception):
                raise val
            if not isinstance(val, falcon.HTTPError):
                raise Violation('unexpected_exception', '%s: %s raised %s: %s (expected %s)'
                                % (ctx, call, type(val).__name__, brief(str(val), 200), klass))
            if not (400 <= val.status_code < 500):
                raise Violation('error_not_4xx', '%s: %s raised %r with status %r' % (ctx, call, val, val.status))
        if eff == 'value':
            if how != 'ret':
                raise Violation('valid_body_rejected', '%s: %s raised %r; reference: valid document %s'
                                % (ctx, call, val, brief(expected[1]) if has_ref else 'dict'))
            if has_ref and not same(val, expected[1]):
                raise Violation('wrong_value', '%s: %s returned %s, reference %s'
                                % (ctx, call, brief(val), brief(expected[1])))
            if klass == 'dict_or_malformed' and type(val) is not dict:
                raise Violation('form_not_dict', '%s: %s returned %s' % (ctx, call, brief(val)))
            if have_val and val is not first_val:
                raise Violation('value_not_cached', '%s: %s returned a different object than the first call'
                                % (ctx, call))
            first_val, have_val = val, True
        elif eff == 'notfound' and with_default:
            if how != 'ret':
                raise Violation('default_ignored', '%s: %s raised %r on an empty body' % (ctx, call, val))
            if val is not dflt:
                raise Violation('default_not_returned', '%s: %s returned %s instead of the given default %s'
                                % (ctx, call, brief(val), brief(dflt)))
        else:
            # notfound without default, malformed (with or without default)
            want = falcon.MediaNotFoundError if eff == 'notfound' else falcon.MediaMalformedError
            if how != 'exc':
                raise Violation('invalid_body_accepted', '%s: %s returned %s; reference: %s (%s)'
                                % (ctx, call, brief(val), klass,
                                   expected[1] if klass == 'malformed' else 'the first call raised' if eff == 'malformed'
                                   else 'empty body'))
            if not isinstance(val, want) or (want is falcon.MediaMalformedError
                                             and isinstance(val, falcon.MediaNotFoundError)):
                raise Violation('wrong_error_class', '%s: %s raised %r, expected %s'
                                % (ctx, call, val, want.__name__))
            if first_exc is not None and val is not first_exc:
                raise Violation('error_not_cached', '%s: %s raised a different exception instance (%r) than '
                                'the earlier call (%r)' % (ctx, call, val, first_exc))
            first_exc = val
            log = getattr(val, '_vf_said_log', None) or []
            if any(x != log[0] for x in log[1:]):
                raise Violation('cached_error_changed', '%s: the error re-raised by %s no longer says what it said when it was first '
                                'raised: (title, description, to_dict()) went %r -> %r' % (ctx, call, log[0], [x for x in log if x != log[0]][0]))

    # ---- parse-once and stream invariants
    p0 = outcomes[0][4]
    if p0[0] != 1:
        raise Violation('deserialize_entries', '%s: handler entered %d times by the first call' % (ctx, p0[0]))
    for idx, (op, _, _, _, p) in enumerate(outcomes[1:], 2):
        if p[0] != 1 or p[1] != p0[1]:
            raise Violation('parsed_again', '%s: after call #%d %r the handler was entered %d times '
                            '(loads calls %d -> %d)' % (ctx, idx, op, p[0], p0[1], p[1]))
        if p[2:] != p0[2:]:
            raise Violation('stream_touched_again', '%s: call #%d %r touched the body stream: '
                            '(reads, position) %r -> %r' % (ctx, idx, op, p0[2:], p[2:]))
    if p0[1] > 1:
        raise Violation('loads_twice', '%s: loads called %d times' % (ctx, p0[1]))
    if mode != 'partial' and ct != 'form' and klass != 'notfound' and expected != ('malformed', 'not UTF-8') and p0[1] != 1:
        raise Violation('loads_not_called', '%s: loads called %d times for a UTF-8 body' % (ctx, p0[1]))

    # ---- the whole body was consumed by the first call (stock handlers read it all; a handler
    #      with exhaust_stream = True gets it drained by the framework), nothing is left over
    if consumed != len(body) or p0[3] != len(body):
        raise Violation('body_not_consumed', '%s: %d of %d body bytes consumed by the first call, %d in total'
                        % (ctx, p0[3], len(body), consumed))
    if box['tail'] != b'':
        raise Violation('stream_not_exhausted', '%s: %d bytes still readable after get_media()'
                        % (ctx, len(box['tail'])))

    # ---- what the client sees when the responder lets the last outcome propagate
    last = outcomes[-1]
    if res.error is not None:
        raise Violation('escaped_to_server', '%s: %s: %s escaped from the app'
                        % (ctx, type(res.error).__name__, res.error))
    if last[2] == 'exc':
        if code != last[3].status_code or not (400 <= code < 500):
            raise Violation('error_status', '%s: responder re-raised %r, response status %s' % (ctx, last[3], code))
    elif code != 200:
        raise Violation('status', '%s: response status %s body %s' % (ctx, code, brief(res.body)))
    return expected, outcomes


def history_info(case, expected, outcomes):
    ops = case['ops']
    with_d = sum(1 for o in ops if o[0] in ('default', 'default_pos'))
    mixing = len(ops) >= 3 and 0 < with_d < len(ops)
    klass = expected[0]
    if klass == 'dict_or_malformed':
        klass = 'form_arbitrary:' + ('dict' if outcomes[0][2] == 'ret' else 'malformed')
    elif klass == 'value_or_malformed':
        klass = 'deep_wellformed:' + ('value' if outcomes[0][2] == 'ret' else 'malformed')
    invalid = klass in ('notfound', 'malformed') or klass.endswith(':malformed')
    kind = case.get('kind') or '?'
    labels = [
        'stack:' + case['stack'], 'ct:' + case['ct'], 'handler:' + case['handler'],
        'body:' + ('wrong_encoding' if kind.startswith('enc:') else kind), 'ref:' + klass,
        'ops:%s' % (len(ops) if len(ops) < 4 else '4+'),
    ]
    if mixing:
        labels.append('mixing_defaults')
    if case['stack'] == 'asgi':
        labels.append('asgi:' + ('chunked' if any(case['chunks']) and case['body'] else 'single_event'))
    return Info(invalid or mixing, labels)


class History(Suite):
    """One request per case on WSGI or ASGI (generated chunking) with a JSON (three content types
    or none), URL-encoded or custom exhaust_stream handler wired as stock instance (instance-level
    counting wrappers, loads= hook), delegating BaseHandler subclass, or partial reader; the body is
    valid, empty, whitespace, a truncation or single-byte corruption of a document, wrongly encoded
    (UTF-16/32, BOM, latin-1, stray high bytes), random bytes or deeply nested ('[' x 10/1000/
    3000/100000); a history of 1-6 get_media() / get_media(default_when_empty=x) / .media calls is
    executed and every call is judged: value type-strictly equal to the reference and identical (is)
    across calls, or the same MediaNotFoundError / MediaMalformedError instance (4xx HTTPError, never
    another exception), default returned only for an empty JSON body and never cached; handler
    entered exactly once, body stream untouched by later calls, body fully consumed, and the
    response status is the error's 4xx when the responder lets it propagate."""

    name = 'history'
    budget = {'quick': 4200, 'thorough': 120000}

    def strategy(self, tier):
        return history_cases()

    def run(self, case):
        expected, outcomes = run_history(case)
        return history_info(case, expected, outcomes)


SMALL_DOCS = [
    '{"a": [1, 2.5e3, true, null], "b": "x\\u00e9\\n"}',
    '[]',
    '{}',
    '"é\U0001f600"',
    '[[[]]]',
    '-0.0',
    'null',
    ' [1] ',
    '{"k":{"k":{"k":"v"}}}',
    '[1,2]\n',
    'true',
    '"\\ud83d\\ude00"',
    '{"":""}',
]
FIXED_HISTORIES = [
    [['get']],
    [['media'], ['get'], ['default', 'dict']],
    [['default', 'none'], ['get'], ['media'], ['default', 'list']],
    [['get'], ['default_pos', 'zero'], ['default', 'dict'], ['get']],
]
FIXED_CHUNKS = [[], [1], [2, 3], [7, 0]]


class _HandlerBug(Exception):
    """What a faulty media handler raises (not an HTTPError)."""


class FailingHandler(BaseHandler):
    """Reads the whole body, then fails with a non-HTTP exception (a bug in an application's own handler)."""

    def __init__(self, counter):
        self.counter = counter

    def serialize(self, media, content_type):
        return b'null'

    def deserialize(self, stream, content_type, content_length):
        self.counter.enter()
        try:
            stream.read()
            raise _HandlerBug('cannot decode')
        finally:
            self.counter.leave()

    async def deserialize_async(self, stream, content_type, content_length):
        self.counter.enter()
        try:
            await stream.read()
            raise _HandlerBug('cannot decode')
        finally:
            self.counter.leave()


class HandlerFailure(Suite):
    """Parse-at-most-once when parsing FAILS with something that is not an HTTP error: (a) a custom handler that reads
    the body and raises its own exception, on WSGI and ASGI; (b) on WSGI, a wsgi.input whose first read() raises OSError
    (a transient socket failure) under the stock JSON handler.  The responder catches every error and goes on through a
    history of 2-4 get_media() / get_media(default_when_empty=x) / .media calls: every call must raise the SAME exception
    instance as the first, the handler must have been entered once and the stream must not be touched again."""

    name = 'handler_failure'
    exhaustive = True
    budget = {'quick': 1, 'thorough': 1}

    def cases(self, tier):
        hists = [h for h in FIXED_HISTORIES if len(h) >= 2] + [[['get'], ['get']], [['media'], ['media'], ['get']]]
        for body in (b'{"a": 1}', b'[1, 2, 3]', b'x'):
            for h in hists:
                yield {'stack': 'wsgi', 'how': 'custom', 'body': body, 'ops': h}
                yield {'stack': 'asgi', 'how': 'custom', 'body': body, 'ops': h}
                yield {'stack': 'wsgi', 'how': 'input', 'body': body, 'ops': h}

    def run(self, case):
        counter = Counter()
        body = case['body']
        ops = case['ops']
        box = {}
        ctx = '%s failure=%s body=%r ops=%r' % (case['stack'], case['how'], body, ops)
        headers = [('Content-Type', 'application/json'), ('Content-Length', str(len(body)))]
        if case['stack'] == 'wsgi':
            inp = W.Input(body, fail_at=[0] if case['how'] == 'input' else None)

            def probe():
                return (counter.entries, len(inp.calls), inp.pos)

            class Res(object):
                def on_post(self, req, resp):
                    box['outcomes'] = drive(interpret(ops, SyncAcc(req), probe))
                    resp.text = 'ok'

            app = falcon.App()
            if case['how'] == 'custom':
                app.req_options.media_handlers['application/json'] = FailingHandler(counter)
            else:
                app.req_options.media_handlers['application/json'] = instrument_stock(falcon.media.JSONHandler(), counter)
            app.add_route('/m', Res())
            res = W.call(app, W.build_environ('POST', '/m', headers=headers, body=body, input_obj=inp))
            want = _HandlerBug if case['how'] == 'custom' else W.TransientInputError
        else:
            def probe():
                return (counter.entries, counting.calls, counting.bytes)

            class Res(object):
                async def on_post(self, req, resp):
                    box['outcomes'] = await interpret(ops, AsyncAcc(req), probe)
                    resp.text = 'ok'

            app = falcon.asgi.App()
            app.req_options.media_handlers['application/json'] = FailingHandler(counter)
            app.add_route('/m', Res())
            counting = CountingReceive(app)
            res = A.call(counting, A.build_scope('POST', '/m', headers=headers), make_events(body, [3], False))
            want = _HandlerBug
        if res.error is not None or 'outcomes' not in box:
            raise Violation('responder_not_completed', '%s: escaped %r' % (ctx, res.error))
        outcomes = box['outcomes']
        first = outcomes[0]
        for idx, (op, _d, how, val, p) in enumerate(outcomes):
            call = 'call #%d %r' % (idx + 1, op)
            if how != 'exc' or not isinstance(val, want):
                raise Violation('failure_forgotten', '%s: %s %s %r; the first call failed with %r, which every later call must raise again'
                                % (ctx, call, 'returned' if how == 'ret' else 'raised', val, first[3]))
            if val is not first[3]:
                raise Violation('error_not_cached', '%s: %s raised a different exception instance (%r) than the first call (%r)'
                                % (ctx, call, val, first[3]))
            if p != first[4]:
                raise Violation('parsed_again', '%s: after %s (handler entries, stream reads, position) went %r -> %r'
                                % (ctx, call, first[4], p))
        if first[4][0] != 1:
            raise Violation('deserialize_entries', '%s: handler entered %d times by the first call' % (ctx, first[4][0]))
        return Info(True, ['stack:' + case['stack'], 'failure:' + case['how'], 'ops:%d' % len(ops)])


class Truncations(Suite):
    """Exhaustive: every byte prefix (0..len) of 13 small JSON documents (objects, arrays, scalars,
    escapes, raw multi-byte UTF-8, surrounding whitespace) x {WSGI, ASGI} x {stock, delegating}
    handler x 4 fixed call histories (ASGI chunking fixed per history: one event, 1-byte events,
    2/3-byte events, 7-byte and empty events); same verdicts as the history suite."""

    name = 'truncations'
    exhaustive = True
    budget = {'quick': 1, 'thorough': 1}

    def cases(self, tier):
        for text in SMALL_DOCS:
            data = text.encode('utf-8')
            for cut in range(len(data) + 1):
                for stack in ('wsgi', 'asgi'):
                    for mode in ('stock', 'generic'):
                        for h, ops in enumerate(FIXED_HISTORIES):
                            yield {
                                'stack': stack, 'ct': 'json' if cut % 2 == 0 else 'vendor', 'handler': mode,
                                'body': data[:cut],
                                'kind': 'full' if cut == len(data) else ('empty' if cut == 0 else 'prefix'),
                                'doc': None, 'ops': ops, 'chunks': FIXED_CHUNKS[h], 'tail_empty': h == 2,
                                'cl': h % 2 == 0,
                            }

    def run(self, case):
        expected, outcomes = run_history(case)
        return history_info(case, expected, outcomes)


# ------------------------------------------------------------------ generators


_SPECIAL_TEXT = ['', '"', '\\', '/', '\b\f\n\r\t', '\x00', '\x1f', '\x7f', '\u2028', '\u2029', '\xe9', '\u20ac',
                 '\U0001f600', '\U0010ffff', '\ufeff', '</script>', '\ud7ff', '\ue000', '\xff', '\\u0041', '%41+&=;',
                 'a b', 'e\u0301', '\u0130', '\x85', '\xa0']
_text = st.one_of(
    st.text(alphabet=st.characters(blacklist_categories=('Cs',)), max_size=8),
    st.sampled_from(_SPECIAL_TEXT),
    st.text(alphabet=st.characters(min_codepoint=0x10000, max_codepoint=0x10ffff), min_size=1, max_size=3),
    st.text(alphabet='ab"\\\né', max_size=6),
)
_ints = st.one_of(st.integers(-5, 5), st.integers(-2 ** 200, 2 ** 200),
                  st.sampled_from([2 ** 53, 2 ** 53 + 1, -2 ** 63, 2 ** 64, 10 ** 30]))
_floats = st.one_of(st.floats(allow_nan=False, allow_infinity=False),
                    st.sampled_from([0.0, -0.0, 0.1, 1e308, 5e-324, 1.7976931348623157e308, 1e16, 1e-7, 2.5]))
_scalars = st.one_of(st.none(), st.booleans(), _ints, _floats, _text)


def weighted(*pairs):
    """one_of with explicit weights (one_of drops repeated branches)."""
    table = [i for i, (w, _) in enumerate(pairs) for _ in range(w)]
    return st.sampled_from(table).flatmap(lambda i: pairs[i][1])


def _clip(doc, left=6):
    """Bound container nesting to `left` levels (deeper containers are emptied)."""
    if type(doc) is dict:
        return {k: _clip(v, left - 1) for k, v in doc.items()} if left > 0 else 'clipped'
    if type(doc) is list:
        return [_clip(v, left - 1) for v in doc] if left > 0 else 'clipped'
    return doc


def _wrap(doc, n, key):
    for i in range(n):
        doc = {key: doc} if i % 2 else [doc]
    return doc


def _extend_doc(children):
    return st.one_of(st.lists(children, max_size=4), st.dictionaries(_text, children, max_size=4))


def _extend_latin(children):
    return st.one_of(st.lists(children, min_size=1, max_size=3),
                     st.dictionaries(st.just('k'), children, min_size=1, max_size=1))


def any_docs(max_leaves=12):
    base = st.recursive(_scalars, _extend_doc, max_leaves=max_leaves)
    nested = st.builds(_wrap, base, st.integers(0, 5), _text)
    return st.one_of(base, nested).map(_clip)


def top_docs():
    containers = st.one_of(st.lists(any_docs(), max_size=4), st.dictionaries(_text, any_docs(), max_size=4)).map(_clip)
    return st.one_of(containers, containers, any_docs().filter(lambda d: d is not None))


_form_text = st.one_of(
    st.text(alphabet=st.characters(blacklist_categories=('Cs',)), max_size=6),
    st.sampled_from(['', ' ', '+', '&', '=', '%', '%41', 'a,b', ',', ';', '#', '?', 'é', '\U0001f600', '\x00',
                     'a b+c', '/', '\n']),
    st.text(alphabet='ab&=+%, ', max_size=6),
)
_form_key = _form_text.filter(lambda s: len(s) > 0)


def forms():
    return st.dictionaries(_form_key, st.one_of(_form_text, st.lists(_form_text, min_size=2, max_size=4)), max_size=5)


def chunkings():
    return st.one_of(st.just([]), st.lists(st.integers(0, 9), min_size=1, max_size=5),
                     st.lists(st.integers(1, 3), min_size=1, max_size=3))


def _render(doc, ascii_, indent, seps, pad_l, pad_r):
    text = json.dumps(doc, ensure_ascii=ascii_, indent=indent, separators=seps)
    return pad_l + text + pad_r


_ws = st.text(alphabet=' \t\r\n', max_size=3)
_json_text = st.builds(_render, any_docs(8), st.booleans(), st.sampled_from([None, None, 1]),
                       st.sampled_from([None, (',', ':')]), _ws, _ws)
_latin_doc = st.recursive(
    st.text(alphabet=st.characters(min_codepoint=0x20, max_codepoint=0xff), min_size=1, max_size=6),
    _extend_latin, max_leaves=4)


def _cut(data, frac):
    return data[:int(len(data) * frac)]


def _corrupt(data, pos, byte):
    if not data:
        return bytes([byte])
    i = pos % len(data)
    return data[:i] + bytes([byte]) + data[i + 1:]


def _insert(data, pos, extra):
    i = pos % (len(data) + 1)
    return data[:i] + extra + data[i:]


def _deep(opener, d, closed, closer):
    return (opener * d + ('1' + closer * d if closed else '')).encode('ascii')


def json_bodies():
    """Strategy of (kind label, body bytes, doc-json or None)."""
    frac = st.floats(0, 1, allow_nan=False)
    valid = any_docs(8).flatmap(lambda doc: st.builds(
        lambda a, i, s, l, r: ('valid', _render(doc, a, i, s, l, r).encode('utf-8'), json.dumps(doc)),
        st.booleans(), st.sampled_from([None, None, 1]), st.sampled_from([None, (',', ':')]), _ws, _ws))
    empty = st.just(('empty', b'', None))
    white = st.text(alphabet=' \t\r\n', min_size=1, max_size=5).map(lambda s: ('whitespace', s.encode(), None))
    trunc = st.builds(lambda t, f: ('truncated', _cut(t.encode('utf-8'), f), None), _json_text, frac)
    corrupt = st.builds(lambda t, p, b: ('corrupted', _corrupt(t.encode('utf-8'), p, b), None), _json_text,
                        st.integers(0, 10 ** 6), st.one_of(st.integers(0, 255), st.sampled_from([0x80, 0xff, 0xc3, 0x22, 0x5c])))
    stray = st.builds(lambda t, p, x: ('stray_bytes', _insert(t.encode('utf-8'), p, x), None), _json_text,
                      st.integers(0, 10 ** 6), st.sampled_from([b'\x80', b'\xff', b'\xc3', b'\xed\xa0\x80', b'\xf8', b'\xc0\xaf',
                                                                b'\xe2\x82', b'\x00', b'\xef\xbb\xbf']))
    wrong = st.builds(lambda t, enc: ('enc:' + enc, t.encode(enc), None), _json_text,
                      st.sampled_from(['utf-16', 'utf-16-le', 'utf-16-be', 'utf-32', 'utf-8-sig']))
    latin = _latin_doc.map(lambda d: ('enc:latin-1', json.dumps(d, ensure_ascii=False).encode('latin-1'), None))
    rand = st.binary(min_size=1, max_size=12).map(lambda b: ('random_bytes', b, None))
    literals = st.sampled_from([b'NaN', b'[Infinity]', b'-Infinity', b'{"a":1,"a":2}', b'[1,]', b"{'a':1}", b'01', b'1 2',
                                b'"\\ud800"', b'"\t"', b'[1]\x00', b'\xef\xbb\xbf[]', b'nul', b'0', b'""', b'"a"', b'1e999',
                                b'-', b'{"a":}', b'[', b']', b'\x00']).map(lambda b: ('literal', b, None))
    # integer literals around the interpreter's int <-> str conversion limit (4300 digits by default): beyond it the
    # stdlib parser refuses the document with a plain ValueError; a handler must turn that into a malformed-media error
    bigint = st.builds(lambda n, wrap: ('big_int:%d' % n, (b'[' + b'7' * n + b']') if wrap else b'9' * n, None),
                       st.sampled_from([4299, 4300, 4301, 5000, 20000]), st.booleans())
    deep = st.builds(lambda o, d, closed: ('deep:%d' % d, _deep(o[0], d, closed, o[1]), None),
                     st.sampled_from([('[', ']'), ('{"a":', '}'), ('[{"a":', '}]')]),
                     st.sampled_from([10, 10, 400, 1000, 3000, 100000]), st.sampled_from([True, False, True]))
    return weighted((4, valid), (1, empty), (1, white), (2, trunc), (1, corrupt), (1, stray), (2, wrong), (1, latin),
                    (1, rand), (1, literals), (2, deep), (1, bigint))


def form_bodies():
    valid = forms().map(lambda f: ('valid', urllib.parse.urlencode(f, doseq=True).encode('ascii'), json.dumps(f)))
    empty = st.just(('empty', b'', None))
    non_ascii = st.builds(lambda f, p, x: ('non_ascii', _insert(urllib.parse.urlencode(f, doseq=True).encode('ascii'), p, x), None),
                          forms(), st.integers(0, 10 ** 6), st.sampled_from([b'\xc3\xa9', b'\xff', b'\x80', b'\xf0\x9f\x98\x80']))
    junk = st.one_of(
        st.sampled_from([b'%zz', b'&&==', b'%ff%fe=1', b'a', b'=', b'a=%', b'a=%4', b' ', b'a=1;b=2', b'%C3=%A9', b'a=1&a=2&a',
                         b'?a=1', b'a=b=c', b'+', b'%00']),
        st.text(alphabet='ab=&%+;,12 fF', min_size=1, max_size=10).map(lambda s: s.encode('ascii')),
    ).map(lambda b: ('arbitrary_ascii', b, None))
    return weighted((3, valid), (1, empty), (2, non_ascii), (2, junk))


_op = st.one_of(
    st.just(['get']), st.just(['media']),
    st.builds(lambda k: ['default', k], st.sampled_from(sorted(DEFAULTS))),
    st.builds(lambda k: ['default_pos', k], st.sampled_from(sorted(DEFAULTS))),
    st.builds(lambda k: ['default', k], st.sampled_from(['dict', 'none'])),
)


def history_cases():
    def build(stack, ctb, mode, ops, chunks, tail, cl):
        ct, (kind, body, doc) = ctb
        if mode == 'partial':
            doc = None
        return {'stack': stack, 'ct': ct, 'handler': mode, 'body': body, 'kind': kind, 'doc': doc, 'ops': ops,
                'chunks': chunks, 'tail_empty': tail, 'cl': cl}

    json_ctb = st.tuples(st.sampled_from(['json', 'json', 'json_charset', 'vendor', 'missing']), json_bodies())
    form_ctb = st.tuples(st.just('form'), form_bodies())
    return st.builds(
        build,
        st.sampled_from(['wsgi', 'asgi']),
        weighted((3, json_ctb), (1, form_ctb)),
        st.sampled_from(['stock', 'stock', 'generic', 'generic', 'partial', 'sync_only', 'sync_only']),
        st.lists(_op, min_size=1, max_size=6),
        chunkings(), st.booleans(), st.booleans(),
    )


# ------------------------------------------------------------------ response-side assignment histories


def _resp_history_case():
    scalar = st.one_of(st.integers(-5, 5), st.text(alphabet='ab\u00e9', max_size=3), st.booleans(), st.none())
    doc = st.one_of(st.dictionaries(st.sampled_from(['a', 'b', 'k']), scalar, max_size=3), st.lists(scalar, max_size=3))
    op = st.one_of(
        st.tuples(st.just('assign'), st.integers(0, 1)),
        st.tuples(st.just('assign'), st.integers(0, 1)),
        st.tuples(st.just('assign_copy'), st.integers(0, 1)),
        st.tuples(st.just('mutate'), st.integers(0, 1), st.sampled_from(['a', 'z']), scalar),
        st.tuples(st.just('render')),
        st.tuples(st.just('render')),
    )
    return st.builds(lambda stack, docs, ops, last, renders: {'stack': stack, 'docs': docs, 'ops': [list(o) for o in ops] + [['assign', last]] + [['render']] * renders},
                     st.sampled_from(['wsgi', 'asgi']), st.tuples(doc, doc).map(list), st.lists(op, max_size=7),
                     st.integers(0, 1), st.integers(0, 2))


class ResponseHistory(Suite):
    """Response side: histories of resp.media assignments (the same object again, or an equal copy), in-place mutation of
    the document between assignments, and early render_body() calls (as a digest / ETag middleware would make); the body
    finally sent by a real app must decode to the document as it was when it was assigned last."""

    name = 'response_history'
    budget = {'quick': 2500, 'thorough': 60000}

    def strategy(self, tier):
        return _resp_history_case()

    def run(self, case):
        import copy
        docs = [copy.deepcopy(d) for d in case['docs']]
        ops = case['ops']
        expected = {}
        kinds = set()

        def apply_sync(resp):
            for op in ops:
                k = op[0]
                kinds.add(k)
                if k == 'assign':
                    resp.media = docs[op[1]]
                    expected['doc'] = docs[op[1]]
                elif k == 'assign_copy':
                    c = copy.deepcopy(docs[op[1]])
                    resp.media = c
                    expected['doc'] = c
                elif k == 'mutate':
                    d = docs[op[1]]
                    if isinstance(d, dict):
                        d[op[2]] = op[3]
                    else:
                        d.append(op[3])
                elif k == 'render':
                    yield resp

        if case['stack'] == 'wsgi':
            class R(object):
                def on_get(self, req, resp):
                    for r in apply_sync(resp):
                        r.render_body()
            app = falcon.App()
            app.add_route('/', R())
            res = W.call(app, W.build_environ('GET', '/'))
            if res.error is not None:
                raise res.error
            status, body = res.code, res.body
        else:
            class RA(object):
                async def on_get(self, req, resp):
                    for r in apply_sync(resp):
                        await r.render_body()
            app = falcon.asgi.App()
            app.add_route('/', RA())
            res = A.call(app, A.build_scope('GET', '/'))
            if res.error is not None:
                raise res.error
            status, body = res.code, res.body
        # mutations after the last assignment are not generated (the history always ends with assign [+ renders])
        want = expected['doc']
        try:
            got = json.loads(body.decode('utf-8'))
        except ValueError:
            raise Violation('response_body_not_json', 'ops=%r body=%r' % (ops, body))
        if status != 200 or got != want:
            raise Violation('stale_rendered_media', '%s ops=%r docs(initial)=%r: body decodes to %r but the document assigned last is %r'
                            % (case['stack'], ops, case['docs'], got, want))
        seq = [o[0] for o in ops]
        nt = 'mutate' in kinds and 'render' in seq[:-1] and seq.count('assign') + seq.count('assign_copy') >= 2
        return Info(nt, [case['stack']] + sorted('op:' + k for k in kinds) + (['render_then_mutate_then_reassign'] if nt else []))


class BigDocs(Suite):
    """Documents beyond the moderate range through the same round trip as `roundtrip`: lists / mappings of 5000-60000 items,
    one string of 70 000-1 100 000 characters (multi-byte, escape-worthy), a form with 3000 names and a form value of
    200 000 characters; bodies of 64 KiB-2 MiB delivered to ASGI in events of 4096 / 65536 bytes or at once."""

    name = 'big_docs'
    exhaustive = True
    budget = {'quick': 1, 'thorough': 1}

    def cases(self, tier):
        for shape, n in (('list', 5000), ('list', 60000), ('dict', 5000), ('string', 70001), ('string', 1100000), ('nested', 3000),
                         ('form_names', 3000), ('form_value', 200000)):
            if tier == 'quick' and n in (60000, 1100000):
                continue
            for chunks in ([], [4096], [65536, 1]):
                for cl in (True, False):
                    yield {'shape': shape, 'n': n, 'chunks': chunks, 'cl': cl}

    def run(self, case):
        shape, n = case['shape'], case['n']
        if shape == 'list':
            doc = ['item-%d \u00e9' % i for i in range(n)]
        elif shape == 'dict':
            doc = {'key-%d' % i: [i, 'v\u20ac', None] for i in range(n)}
        elif shape == 'string':
            doc = {'s': ('ab\u00e9\u20ac\U0001f600"\\\n' * (n // 8 + 1))[:n]}
        elif shape == 'nested':
            doc = [{'id': i, 'tags': ['t%d' % (i % 7)] * 3, 'name': 'n' * (i % 50)} for i in range(n)]
        elif shape == 'form_names':
            doc = {'name%d' % i: 'v%d' % i for i in range(n)}
        else:
            doc = {'a': ('x y&=+%\u00e9' * (n // 8 + 1))[:n], 'b': 'short'}
        is_form = shape.startswith('form')
        full = {'kind': 'form' if is_form else 'json', 'doc': json.dumps(doc), 'ct': 'form' if is_form else 'json', 'chunks': case['chunks'],
                'tail_empty': False, 'cl': case['cl']}
        if is_form:
            full['form_csv'] = False
        try:
            RoundTrip().run(full)
        except Violation as v:
            d = v.detail
            raise Violation(v.kind, '%s ... %s\n  compact case=%r' % (d[:300], d[-300:], case))
        return Info(True, ['shape:' + shape, 'events:%r' % (case['chunks'] or 'single',), 'content_length' if case['cl'] else 'no_content_length'])



class ResponseHistoryEnum(Suite):
    """EVERY history of at most 6 (thorough: 8) operations on one response object out of: media = document A / document B /
    None, change the document in place and assign the same object again, data = bytes / None, render_body() — on
    falcon.Response and falcon.asgi.Response (vf/gen/resp_history.py).  Whenever media is what is sent, every
    render_body() result must decode to the document as it was when it was assigned last."""

    name = 'response_history_enum'
    exhaustive = True
    budget = {'quick': 1, 'thorough': 1}
    MAX_LEN = {'quick': 6, 'thorough': 8}

    def cases(self, tier):
        for stack in ('wsgi', 'asgi'):
            for prefix in RH.block_cases(RH.MEDIA_ONLY, 2 if tier == 'quick' else 3):
                yield {'stack': stack, 'prefix': prefix, 'max_len': self.MAX_LEN[tier]}

    def run(self, case):
        make = falcon.Response if case['stack'] == 'wsgi' else falcon.asgi.Response
        n, after = RH.run_block(make, RH.MEDIA_ONLY, case['prefix'], case['max_len'], 'response_media_stale')
        return Info(True, [case['stack'], 'histories:%d' % n, 'with_render_before_an_assignment:%d' % after])



SUITES = [RoundTrip(), BigDocs(), History(), HandlerFailure(), Truncations(), ResponseHistory(), ResponseHistoryEnum()]
KNOWN = {}
