"""C09 — Typed request-header accessors agree with the RFC reading or answer 400.

Every suite draws a *structured* header value (vf/gen/c09_http.py): the value, its rendered
text and the expected parse come from the same structure, so the oracle never parses the text.
A share of the values goes through a single-character edit; for those only totality holds
("returns something or raises an HTTPError with a 4xx status").  Every case is executed on a
WSGI request (falcon.Request over an environ built by the minimal PEP 3333 driver) and on an
ASGI request (falcon.asgi.Request over a scope built by the minimal ASGI driver); every
accessor is read twice and both reads must agree.

Nothing below calls into falcon to compute an expectation.
"""
import datetime as _dt

from hypothesis import strategies as st

import falcon
import falcon.asgi

from vf.core import Info, Suite, Violation
from vf.drivers import asgi as adrv
from vf.drivers import wsgi as wdrv
from vf.gen import c09_http as g

LEVEL = 'exploration'
RULE = (
    'a case is non-trivial when the generated header value is grammar-valid and has >= 2 list members / '
    'parameters / cookie-pairs / forwarded-pairs (or, for scalar headers, exercises a boundary: '
    'first==last / multi / whitespace-padded range, obsolete date form, >= 2 date headers, Host with a port or '
    'an IP literal or exotic reg-name, no Host header so that netloc comes from server name + port), or when it '
    'went through the single-edit mutator, or when the header name is sent or looked up in non-canonical '
    'letter casing; every response->request round-trip case counts; distinct = distinct case fingerprint'
)
ASSUMPTIONS = [
    'header values are RFC 9110 field-values: HTAB, SP, VCHAR, obs-text (latin-1); no CR/LF/NUL/other controls '
    '(servers reject those before the application sees them)',
    'one field line per header name (no duplicate-line merging by the server is simulated)',
    'rfc850-date two-digit years: only year % 100 is asserted (the century rule of RFC 9110 depends on the wall '
    'clock; the docs promise no particular rule); leap second :60 is not generated as a valid value',
    'obsolete date forms are asserted only through get_header_as_datetime(..., obs_date=True); req.date & co. '
    'document RFC 1123 input only, so there they fall under "value or 4xx"',
    'HTTP-date parsing relies on the C locale for day/month names (strptime); the round-trip domain is years '
    '1000-9999 (strftime %Y does not zero-pad smaller years on this platform)',
    'Forwarded quoted-strings are generated without obs-text (falcon documents that it excludes obs-text); '
    'elements made only of ";" are not generated as valid values; empty list members (", ,") are ignored',
    'cookie whitespace leniency (no/multiple blanks after ";", blanks around "=") and RFC 2109 backslash/octal '
    'escapes inside quoted values are asserted because falcon states it mirrors http.cookies there',
    'host comparison is case-insensitive; req.subdomain is asserted for DNS-style reg-names only '
    '(undefined for IP literals per the docs)',
    'Accept: media ranges are lower-case, carry no parameter other than q, and each range appears once '
    '(precedence among duplicates / parameters is C11 territory)',
    'ASGI server=[path, None] (UNIX socket) and Range values outside the documented forms are checked for '
    'totality only',
    'ASGI scope without server (or server=None) reads as ("localhost", default port of the scheme), as pinned by '
    'tests/asgi/test_request_asgi.py; missing / None client and missing REMOTE_ADDR read as 127.0.0.1 (docstrings)',
    'IPv6 hosts are reported without brackets (parse_host contract, pinned by the repo tests)',
    'resp.etag is given ETag.dumps() output, or the bare opaque string for non-empty strong tags '
    '(resp.etag = "" raises IndexError in _format_etag_header; response-side, not asserted here)',
    'Atheris byte-level campaign of the design is not part of this module',
]

_UTC = _dt.timezone.utc


# ======================================================================== plumbing


async def _receive():  # never awaited by header accessors
    return {'type': 'http.disconnect'}


def status_of(exc):
    s = exc.status
    try:
        return int(s)
    except (TypeError, ValueError):
        return int(str(s)[:3])


def plain(v):
    """Observable value -> plain data (type-faithful enough for a strict comparison)."""
    if isinstance(v, falcon.ETag):
        return {'etag': str(v), 'weak': v.is_weak}
    if isinstance(v, falcon.Forwarded):
        return {'src': v.src, 'dest': v.dest, 'host': v.host, 'scheme': v.scheme}
    if isinstance(v, _dt.datetime):
        off = v.utcoffset()
        return {'fields': [v.year, v.month, v.day, v.hour, v.minute, v.second], 'us': v.microsecond,
                'utcoff': None if off is None else off.total_seconds()}
    if isinstance(v, (list, tuple)):
        return [plain(x) for x in v]
    if isinstance(v, dict):
        return {k: plain(x) for k, x in v.items()}
    if v is None or type(v) in (bool, int, str, float):
        return v
    if hasattr(v, 'items'):
        return {k: plain(x) for k, x in v.items()}
    return {'$unexpected_type': type(v).__name__, 'repr': repr(v)}


def same(a, b):
    """Strict structural equality (1 != True, 1 != 1.0)."""
    if type(a) is not type(b):
        return False
    if isinstance(a, list):
        return len(a) == len(b) and all(same(x, y) for x, y in zip(a, b))
    if isinstance(a, dict):
        return a.keys() == b.keys() and all(same(a[k], b[k]) for k in a)
    return a == b


class Probe(object):
    """One request object on one stack; reads are performed twice and must agree."""

    def __init__(self, stack, req, sent):
        self.stack = stack
        self.req = req
        self.sent = sent
        self.reads = 0

    def _where(self, what):
        sent = [(n, v if len(v) <= 300 else '%s...(%d characters)...%s' % (v[:80], len(v), v[-20:])) for n, v in self.sent]
        return '%s req.%s with headers %r' % (self.stack, what, sent)

    def _once(self, what, fn):
        self.reads += 1
        try:
            return ('ok', plain(fn()))
        except falcon.HTTPError as e:
            code = status_of(e)
            if not 400 <= code <= 499:
                raise Violation('http_error_not_4xx', '%s raised %s with status %r' % (self._where(what), type(e).__name__, e.status))
            return ('http', code)
        except Exception as e:  # noqa
            raise Violation('unexpected_exception', '%s raised %s: %s' % (self._where(what), type(e).__name__, str(e)[:200]))

    def read(self, what, fn):
        r1 = self._once(what, fn)
        r2 = self._once(what, fn)
        if not (r1[0] == r2[0] and same(r1[1], r2[1])):
            raise Violation('unstable_read', '%s: first read %r, second read %r' % (self._where(what), r1, r2))
        return r1

    def expect(self, what, fn, expected):
        r = self.read(what, fn)
        if r[0] != 'ok' or not same(r[1], expected):
            raise Violation('wrong_value', '%s = %r, expected %r' % (self._where(what), r, ('ok', expected)))
        return r

    def expect_4xx(self, what, fn):
        r = self.read(what, fn)
        if r[0] != 'http':
            raise Violation('expected_4xx', '%s = %r, documented to answer with a 4xx error' % (self._where(what), r))
        return r

    def value_or_4xx(self, what, fn, expected):
        """Lenient class: a reading must be the right one."""
        r = self.read(what, fn)
        if r[0] == 'ok' and not same(r[1], expected):
            raise Violation('wrong_lenient_value', '%s = %r, a reading must be %r (or a 4xx)' % (self._where(what), r, expected))
        return r


def make_probes(headers, scheme='http', server=('falconframework.org', 80), server_mode='present',
                client=('127.0.0.1', 4711), client_mode='present', root_path='', raw_path='/', query='',
                scheme_missing=False):
    """Build the WSGI and the ASGI request for one logical request."""
    env = wdrv.build_environ(headers=headers, scheme=scheme, server=server, client=client, root_path=root_path,
                             raw_path=raw_path, query=query)
    if client_mode != 'present':
        del env['REMOTE_ADDR']
        del env['REMOTE_PORT']
    a_server = {'present': server, 'omit': adrv.OMIT, 'none': None, 'unix': ('/run/app.sock', None)}[server_mode]
    a_client = {'present': client, 'omit': adrv.OMIT, 'none': None}[client_mode]
    scope = adrv.build_scope(headers=headers, scheme=scheme, server=a_server, client=a_client, root_path=root_path,
                             raw_path=raw_path, query=query)
    if scheme_missing:
        del scope['scheme']
    sent = list(headers)
    return [Probe('WSGI', falcon.Request(env), sent), Probe('ASGI', falcon.asgi.Request(scope, _receive), sent)]


def name_labels(name, lookup, canon):
    lb = []
    if name != canon:
        lb.append('sent_name:noncanonical_case')
    if lookup != canon:
        lb.append('lookup_name:noncanonical_case')
    return lb


def check_raw(p, lookup, text):
    """get_header is case-insensitive and returns the value as sent."""
    p.expect('get_header(%r)' % lookup, lambda: p.req.get_header(lookup), text)
    if text is None:
        # documented: a missing header with required=True answers HTTPBadRequest (HTTPMissingHeader)
        p.expect_4xx('get_header(%r, required=True)' % lookup, lambda: p.req.get_header(lookup, required=True))
        p.expect('get_header(%r, default=...)' % lookup, lambda: p.req.get_header(lookup, default='dflt'), 'dflt')
    else:
        p.expect('get_header(%r, required=True)' % lookup, lambda: p.req.get_header(lookup, required=True), text)
        p.expect('get_header(%r, default=...)' % lookup, lambda: p.req.get_header(lookup, default='dflt'), text)
    p.expect('headers_lower.get(%r)' % lookup.lower(), lambda: p.req.headers_lower.get(lookup.lower()), text)


# ======================================================================== Content-Length


class ContentLength(Suite):
    """Content-Length: 1*DIGIT incl. leading zeros and values beyond 2^64, the empty value, the
    missing header, single-edit mutants; read through req.content_length, get_header_as_int and
    get_header in arbitrary name casing."""

    name = 'content_length'
    budget = {'quick': 1600, 'thorough': 60000}

    def strategy(self, tier):
        return st.builds(
            lambda v, name, lookup, present: {'value': v, 'name': name, 'lookup': lookup, 'present': present},
            g.mutate_some(g.content_length_values()), g.cased('Content-Length'), g.cased('Content-Length'),
            st.sampled_from([True] * 9 + [False]))

    def run(self, case):
        v = case['value']
        text = v['text']
        headers = [(case['name'], text)] if case['present'] else []
        lookup = case['lookup']
        for p in make_probes(headers):
            req = p.req
            if not case['present']:
                check_raw(p, lookup, None)
                p.expect('content_length', lambda: req.content_length, None)
                p.expect('get_header_as_int', lambda: req.get_header_as_int(lookup), None)
                p.expect_4xx('get_header_as_int(required)', lambda: req.get_header_as_int(lookup, required=True))
                continue
            check_raw(p, lookup, text)
            if v['mutated']:
                p.read('content_length', lambda: req.content_length)
                p.read('get_header_as_int', lambda: req.get_header_as_int(lookup))
            elif v['kind'] == 'empty':
                p.expect('content_length', lambda: req.content_length, None)
                p.read('get_header_as_int', lambda: req.get_header_as_int(lookup))
            elif v['kind'] == 'invalid':
                p.read('content_length', lambda: req.content_length)
                p.read('get_header_as_int', lambda: req.get_header_as_int(lookup))
            else:
                p.expect('content_length', lambda: req.content_length, v['expect'])
                p.expect('get_header_as_int', lambda: req.get_header_as_int(lookup), v['expect'])
        lb = list(v['labels']) + name_labels(case['name'], lookup, 'Content-Length')
        lb.append('mutated' if v['mutated'] else 'valid')
        if not case['present']:
            lb = ['cl:missing']
        nt = v['mutated'] or case['name'] != 'Content-Length' or lookup != 'Content-Length'
        return Info(nt and case['present'], lb)


# ======================================================================== Range


class Range(Suite):
    """Range: first-last (often first == last), first-, -suffix, multi-range, other / mixed-case
    units, whitespace, invalid specs, single-edit mutants; req.range and req.range_unit."""

    name = 'range'
    budget = {'quick': 2400, 'thorough': 100000}

    def strategy(self, tier):
        return st.builds(
            lambda v, name, lookup: {'value': v, 'name': name, 'lookup': lookup},
            g.mutate_some(g.range_values()), g.cased('Range'), g.cased('Range'))

    def run(self, case):
        v = case['value']
        text = v['text']
        for p in make_probes([(case['name'], text)]):
            req = p.req
            check_raw(p, case['lookup'], text)
            if v['mutated']:
                p.read('range', lambda: req.range)
                p.read('range_unit', lambda: req.range_unit)
                continue
            kind = v['kind']
            if kind == 'value':
                p.expect('range', lambda: req.range, v['expect'])
            elif kind == 'multi':
                p.expect_4xx('range', lambda: req.range)
            elif kind == 'lenient':
                p.value_or_4xx('range', lambda: req.range, v['expect'])
            else:
                p.read('range', lambda: req.range)
            r = p.read('range_unit', lambda: req.range_unit)
            if v['unit'] is not None and kind != 'lenient':
                # range units are case-insensitive (RFC 9110 14.1)
                if r[0] != 'ok' or type(r[1]) is not str or r[1].lower() != v['unit'].lower():
                    raise Violation('wrong_value', '%s = %r, expected unit %r' % (p._where('range_unit'), r, v['unit']))
        lb = list(v['labels']) + name_labels(case['name'], case['lookup'], 'Range')
        lb.append('mutated' if v['mutated'] else 'valid')
        if v.get('unit') and v['unit'] != 'bytes':
            lb.append('range:unit_not_bytes')
        nt = (v['mutated'] or case['name'] != 'Range' or case['lookup'] != 'Range' or v['kind'] in ('multi', 'lenient')
              or 'range:first==last' in v['labels'])
        return Info(nt, lb)


# ======================================================================== HTTP-date


_DATE_PROPS = {'Date': 'date', 'If-Modified-Since': 'if_modified_since', 'If-Unmodified-Since': 'if_unmodified_since'}


def _check_dt(p, what, r, exp):
    """r: ('ok', plain datetime) compared with the generator's fields (year may be mod 100)."""
    ok = r[0] == 'ok' and isinstance(r[1], dict) and 'fields' in r[1]
    if ok:
        got = r[1]
        f = exp['fields']
        ok = got['utcoff'] == 0 and got['us'] == 0 and got['fields'][1:] == f[1:]
        if ok:
            if f[0] is None:
                ok = got['fields'][0] % 100 == exp['yy']
            else:
                ok = got['fields'][0] == f[0]
    if not ok:
        raise Violation('wrong_value', '%s = %r, expected UTC datetime %r' % (p._where(what), r, exp))


class _TzVaried(Suite):
    """HTTP dates are GMT: a third of the cases run with the process time zone set away from UTC."""

    def strategy(self, tier):
        base = self._strategy(tier)
        return st.builds(lambda c, tz: dict(c, tz=tz), base, st.sampled_from([None, None, 'XXX5', 'YYY-3']))

    def run(self, case):
        from vf.core import local_timezone
        with local_timezone(case.get('tz')):
            info = self._run(case)
        if case.get('tz'):
            info = Info(info.nontrivial, list(info.labels) + ['server_tz:' + case['tz']])
        return info


class Dates(_TzVaried):
    """HTTP-date: IMF-fixdate through req.date / if_modified_since / if_unmodified_since and
    get_header_as_datetime; the obsolete RFC 850 and asctime forms through
    get_header_as_datetime(obs_date=True); several date headers with different values in one
    request; years 1-9999; single-edit mutants."""

    name = 'dates'
    budget = {'quick': 2400, 'thorough': 100000}

    def _strategy(self, tier):
        def entry_for(h):
            return st.builds(lambda v, name, lookup: {'header': h, 'value': v, 'name': name, 'lookup': lookup},
                             g.mutate_some(g.date_values()), g.cased(h), g.cased(h))

        def build(entries):
            seen = []
            out = []
            for e in entries:
                if e['header'] not in seen:
                    seen.append(e['header'])
                    out.append(e)
            return {'entries': out}

        return st.builds(build, st.lists(st.sampled_from(g.DATE_HEADERS).flatmap(entry_for), min_size=1, max_size=3))

    def _run(self, case):
        entries = case['entries']
        headers = [(e['name'], e['value']['text']) for e in entries]
        present = [e['header'] for e in entries]
        lb = set()
        nt = False
        for p in make_probes(headers):
            req = p.req
            for e in entries:
                v = e['value']
                lookup = e['lookup']
                check_raw(p, lookup, v['text'])
                readers = [('get_header_as_datetime(%r)' % lookup, lambda: req.get_header_as_datetime(lookup), False),
                           ('get_header_as_datetime(%r, obs_date=True)' % lookup,
                            lambda: req.get_header_as_datetime(lookup, obs_date=True), True)]
                prop = _DATE_PROPS.get(e['header'])
                if prop:
                    readers.append((prop, lambda: getattr(req, prop), False))
                for what, fn, obs in readers:
                    r = p.read(what, fn)
                    if v['mutated'] or v['form'] == 'edge':
                        continue
                    if v['form'] == 'imf' or obs:
                        _check_dt(p, what, r, v['expect'])
            for h, prop in sorted(_DATE_PROPS.items()):
                if h not in present:
                    p.expect(prop, lambda: getattr(req, prop), None)
            if 'X-Custom-Date' not in present:
                p.expect('get_header_as_datetime(missing)', lambda: req.get_header_as_datetime('x-custom-date'), None)
                p.expect_4xx('get_header_as_datetime(missing, required)',
                             lambda: req.get_header_as_datetime('x-custom-date', required=True))
        for e in entries:
            v = e['value']
            lb.update(v['labels'])
            lb.add('mutated' if v['mutated'] else 'valid')
            lb.update(name_labels(e['name'], e['lookup'], e['header']))
            if v['mutated'] or e['name'] != e['header'] or e['lookup'] != e['header'] or v['form'] != 'imf':
                nt = True
        lb.add('date:headers=%d' % len(entries))
        return Info(nt or len(entries) >= 2, sorted(lb))


# ======================================================================== entity-tags


def _etag_expect(v):
    if v is None:
        return None
    e = v['expect']
    if e is None:
        return None
    if e == '*':
        return ['*']
    return [{'etag': op, 'weak': wk} for op, wk in e]


class ETags(Suite):
    """If-Match / If-None-Match entity-tag lists: weak and strong tags, commas / W/ / * /
    backslashes / obs-text inside opaque tags, empty opaque tags, empty list members and odd
    OWS, "*", blank values, both headers present with different lists (read in a generated
    order), single-edit mutants."""

    name = 'etags'
    budget = {'quick': 2400, 'thorough': 100000}

    def strategy(self, tier):
        val = g.weighted((1, st.none()), (3, g.mutate_some(g.etag_values())))
        return st.builds(
            lambda im, inm, n1, n2, first: {'if_match': im, 'if_none_match': inm, 'name_im': n1, 'name_inm': n2,
                                            'first': first},
            val, val, g.cased('If-Match'), g.cased('If-None-Match'), st.sampled_from(['if_match', 'if_none_match']))

    def run(self, case):
        headers = []
        if case['if_match'] is not None:
            headers.append((case['name_im'], case['if_match']['text']))
        if case['if_none_match'] is not None:
            headers.append((case['name_inm'], case['if_none_match']['text']))
        order = [case['first']] + [a for a in ('if_match', 'if_none_match') if a != case['first']]
        for p in make_probes(headers):
            req = p.req
            for attr in order:
                v = case[attr]
                if v is not None and v['mutated']:
                    p.read(attr, lambda: getattr(req, attr))
                else:
                    p.expect(attr, lambda: getattr(req, attr), _etag_expect(v))
            # and once more after the other header has been parsed (memoised values stay apart)
            for attr in order:
                v = case[attr]
                if v is None or not v['mutated']:
                    p.expect(attr, lambda: getattr(req, attr), _etag_expect(v))
        lb = set()
        nt = False
        for attr, nm, canon in (('if_match', 'name_im', 'If-Match'), ('if_none_match', 'name_inm', 'If-None-Match')):
            v = case[attr]
            if v is None:
                lb.add(attr + ':missing')
                continue
            lb.update(v['labels'])
            lb.add('mutated' if v['mutated'] else 'valid')
            if case[nm] != canon:
                lb.add('sent_name:noncanonical_case')
                nt = True
            if v['mutated'] or (isinstance(v['expect'], list) and len(v['expect']) >= 2):
                nt = True
        if case['if_match'] is not None and case['if_none_match'] is not None:
            lb.add('etag:both_headers')
        return Info(nt, sorted(lb))


class RepeatedLines(Suite):
    """List-valued headers sent as SEVERAL field lines (RFC 9110 5.3: equivalent to one comma-joined line): If-Match /
    If-None-Match entity-tag lists and Accept split over 2-3 lines with differently cased names; the ASGI request gets
    the separate lines, the WSGI request the line a server would have joined.  The accessors must read the combined list."""

    name = 'repeated_lines'
    budget = {'quick': 1500, 'thorough': 40000}

    def strategy(self, tier):
        ev = g.etag_values().filter(lambda v: isinstance(v['expect'], list))
        return st.builds(
            lambda which, vals, names, acc: {'which': which, 'values': vals, 'names': names, 'accept': acc},
            st.sampled_from(['if_match', 'if_none_match']), st.lists(ev, min_size=2, max_size=3),
            st.lists(st.sampled_from(['If-Match', 'if-match', 'IF-MATCH', 'If-match']), min_size=3, max_size=3),
            st.lists(st.sampled_from(['text/html', 'application/json;q=0.5', 'image/png;q=0', 'application/xml']),
                     min_size=2, max_size=3, unique=True))

    def run(self, case):
        canon = 'If-Match' if case['which'] == 'if_match' else 'If-None-Match'
        headers = []
        expect = []
        for i, v in enumerate(case['values']):
            name = case['names'][i]
            if canon == 'If-None-Match':
                name = {'If-Match': 'If-None-Match', 'if-match': 'if-none-match', 'IF-MATCH': 'IF-NONE-MATCH',
                        'If-match': 'If-none-match'}[name]
            headers.append((name, v['text']))
            expect.extend(_etag_expect(v))
        for i, a in enumerate(case['accept']):
            headers.append((('Accept', 'accept', 'ACCEPT')[i % 3], a))
        table = {}
        for a in case['accept']:
            r, _, q = a.partition(';q=')
            table[r] = float(q) if q else 1.0
        for p in make_probes(headers):
            req = p.req
            p.expect(case['which'], lambda: getattr(req, case['which']), expect)
            for mt in ('text/html', 'application/json', 'image/png', 'application/xml', 'text/plain'):
                p.expect('client_accepts(%r)' % mt, lambda mt=mt: req.client_accepts(mt), table.get(mt, 0.0) > 0)
        return Info(True, ['lines:%d' % len(case['values']), case['which']])


# ======================================================================== cookies


class Cookies(Suite):
    """RFC 6265 cookie-strings: repeated names (first value wins in req.cookies, all values in
    order from get_cookie_values), case-sensitive names, DQUOTE-wrapped values incl. the empty
    one, RFC 2109 escapes, '=' inside values, strict '; ' separators and lenient whitespace,
    missing header, single-edit mutants."""

    name = 'cookies'
    budget = {'quick': 2400, 'thorough': 100000}

    def strategy(self, tier):
        return st.builds(
            lambda v, name, lookup, first, present: {'value': v, 'name': name, 'lookup': lookup, 'first': first,
                                                     'present': present},
            g.mutate_some(g.cookie_values(), 30), g.cased('Cookie'), g.cased('Cookie'),
            st.sampled_from(['cookies', 'get_cookie_values']), st.sampled_from([True] * 19 + [False]))

    def run(self, case):
        v = case['value']
        text = v['text']
        headers = [(case['name'], text)] if case['present'] else []
        exp = v['expect']
        valid = case['present'] and not v['mutated']
        names = [n for n, _ in exp]
        values = {n: list(vals) for n, vals in exp}
        absent = 'zz-not-sent'
        while absent in names:
            absent += '-'
        for p in make_probes(headers):
            req = p.req
            if case['present']:
                check_raw(p, case['lookup'], text)

            def read_cookies():
                if not case['present']:
                    p.expect('cookies', lambda: req.cookies, {})
                elif valid:
                    p.expect('cookies', lambda: req.cookies, {n: values[n][0] for n in names})
                else:
                    r = p.read('cookies', lambda: req.cookies)
                    if r[0] == 'ok' and not (isinstance(r[1], dict) and all(type(x) is str for x in r[1].values())):
                        raise Violation('wrong_type', '%s = %r is not a dict of str' % (p._where('cookies'), r))

            def read_values():
                for n in names:
                    fn = (lambda n=n: req.get_cookie_values(n))
                    if valid:
                        p.expect('get_cookie_values(%r)' % n, fn, list(values[n]))
                    elif not case['present']:
                        p.expect('get_cookie_values(%r)' % n, fn, None)
                    else:
                        p.read('get_cookie_values(%r)' % n, fn)
                if valid or not case['present']:
                    p.expect('get_cookie_values(%r)' % absent, lambda: req.get_cookie_values(absent), None)

            if case['first'] == 'cookies':
                read_cookies()
                read_values()
            else:
                read_values()
                read_cookies()
        if not case['present']:
            return Info(False, ['cookie:missing_header'])
        lb = list(v['labels']) + name_labels(case['name'], case['lookup'], 'Cookie')
        lb.append('mutated' if v['mutated'] else 'valid')
        npairs = sum(len(x) for x in values.values())
        nt = v['mutated'] or npairs >= 2 or case['name'] != 'Cookie' or case['lookup'] != 'Cookie'
        return Info(nt, lb)


# ======================================================================== Forwarded & friends


def _int_unlimited(digits):
    """The number a *DIGIT string denotes, whatever its length (CPython refuses > 4300 digits unless told otherwise)."""
    import sys
    old = sys.get_int_max_str_digits()
    sys.set_int_max_str_digits(0)
    try:
        return int(digits)
    finally:
        sys.set_int_max_str_digits(old)


def _default_port(scheme):
    return 443 if scheme in ('https', 'wss') else 80


def expected_netloc(stack, case):
    """Reference netloc / host / port from the parts of the case (None where undefined)."""
    scheme = case['scheme']
    h = case.get('host')
    if h is not None:
        if h['mutated']:
            return {'netloc': h['text'], 'host': None, 'port': None}
        port = h['port']
        return {'netloc': h['text'], 'host': h['host'],
                'port': _int_unlimited(port) if port else _default_port(scheme)}
    mode = case['server_mode']
    if stack == 'WSGI' or mode == 'present':
        name, port = case['server']
    elif mode == 'unix':
        return {'netloc': None, 'host': None, 'port': None}
    else:
        name, port = 'localhost', _default_port(scheme)
    netloc = name if port == _default_port(scheme) else '%s:%d' % (name, port)
    return {'netloc': netloc, 'host': name, 'port': port}


_schemes = st.sampled_from(['http', 'http', 'https'])
_servers = st.tuples(st.sampled_from(['falconframework.org', 'localhost', '10.0.0.7', 'srv.internal']),
                     st.one_of(st.sampled_from([80, 443, 8000, 8080, 8443]), st.integers(1, 65535)))
_server_modes = st.sampled_from(['present', 'present', 'present', 'omit', 'none'])
_client_addrs = st.one_of(g.ipv4, st.sampled_from(['127.0.0.1', '::1', '2001:db8::7', '192.0.2.1']))


class ForwardedSuite(Suite):
    """RFC 7239 Forwarded (1-4 elements, quoted IPv6 with port, obfuscated nodes and ports,
    "unknown", mixed-case parameter names, quoted-pairs, extension parameters with ";" and ","
    inside quoted-strings, empty list members) together with X-Forwarded-For / -Proto / -Host and
    X-Real-IP in every presence combination: req.forwarded, access_route, remote_addr,
    forwarded_scheme, forwarded_host, forwarded_uri, forwarded_prefix against the precedence the
    docs give; client address present / missing / None (ASGI) or REMOTE_ADDR missing (WSGI);
    accessors read in a generated order; single-edit mutants of Forwarded and X-Forwarded-For."""

    name = 'forwarded'
    budget = {'quick': 3200, 'thorough': 150000}

    ACCESSORS = ['forwarded', 'access_route', 'remote_addr', 'forwarded_scheme', 'forwarded_host', 'forwarded_uri',
                 'forwarded_prefix']

    def strategy(self, tier):
        opt = lambda s, w=1: st.one_of(*([st.none()] * w + [s]))  # noqa: E731
        return st.builds(
            lambda fwd, xff, xreal, xproto, xhost, scheme, host, server, smode, caddr, cmode, root, path, query,
            name, order: {
                'fwd': fwd, 'xff': xff, 'xreal': xreal, 'xproto': xproto, 'xhost': xhost, 'scheme': scheme,
                'host': host, 'server': list(server), 'server_mode': smode, 'client': caddr, 'client_mode': cmode,
                'root_path': root, 'path': path, 'query': query, 'name': name, 'order': order},
            g.weighted((1, st.none()), (4, g.mutate_some(g.forwarded_values(), 30))),
            opt(g.mutate_some(g.xff_values(), 20)),
            opt(_client_addrs, 2),
            opt(st.sampled_from(['http', 'https', 'HTTPS', 'Http', 'wss']), 2),
            opt(g.host_values().map(lambda h: h['text']), 2),
            _schemes,
            opt(g.host_values().map(lambda h: dict(h, mutated=False))),
            _servers, _server_modes, _client_addrs, st.sampled_from(['present', 'present', 'omit', 'none']),
            g.root_paths, g.paths(), g.queries, g.cased('Forwarded'), st.permutations(self.ACCESSORS))

    def run(self, case):
        headers = []
        if case['host'] is not None:
            headers.append(('Host', case['host']['text']))
        if case['xff'] is not None:
            headers.append(('X-Forwarded-For', case['xff']['text']))
        if case['xreal'] is not None:
            headers.append(('x-real-ip', case['xreal']))
        if case['fwd'] is not None:
            headers.append((case['name'], case['fwd']['text']))
        if case['xproto'] is not None:
            headers.append(('X-Forwarded-Proto', case['xproto']))
        if case['xhost'] is not None:
            headers.append(('X-FORWARDED-HOST', case['xhost']))
        raw_path, path = case['path']
        rel = case['root_path'] + path + ('?' + case['query'] if case['query'] else '')
        fwd = case['fwd']
        xff = case['xff']
        remote = case['client'] if case['client_mode'] == 'present' else '127.0.0.1'
        for p in make_probes(headers, scheme=case['scheme'], server=tuple(case['server']),
                             server_mode=case['server_mode'], client=(case['client'], 4711),
                             client_mode=case['client_mode'], root_path=case['root_path'], raw_path=raw_path,
                             query=case['query']):
            req = p.req
            net = expected_netloc(p.stack, case)['netloc']
            exp = {}
            # ---- reference values (None: no expectation, totality only)
            if fwd is None:
                exp['forwarded'] = ('v', None)
            elif not fwd['mutated']:
                exp['forwarded'] = ('v', [{'src': e['src'], 'dest': e['dest'], 'host': e['host'], 'scheme': e['scheme']}
                                          for e in fwd['expect']])
            route = None
            if fwd is not None:
                if not fwd['mutated']:
                    route = [e['src_name'] for e in fwd['expect'] if e['src'] is not None]
            elif xff is not None:
                if not xff['mutated']:
                    route = list(xff['expect'])
            elif case['xreal'] is not None:
                route = [case['xreal']]
            else:
                route = []
            if route is not None:
                if not route or route[-1] != remote:
                    route = route + [remote]
                exp['access_route'] = ('v', route)
            exp['remote_addr'] = ('v', remote)
            fscheme = fhost = None
            if fwd is not None:
                if not fwd['mutated']:
                    first = fwd['expect'][0]
                    fscheme = first['scheme'] or case['scheme']
                    fhost = first['host'] or net
            else:
                fscheme = case['xproto'].lower() if case['xproto'] is not None else case['scheme']
                fhost = case['xhost'] if case['xhost'] is not None else net
            if fscheme is not None:
                exp['forwarded_scheme'] = ('v', fscheme)
            if fhost is not None:
                exp['forwarded_host'] = ('v', fhost)
            if fscheme is not None and fhost is not None:
                exp['forwarded_uri'] = ('v', fscheme + '://' + fhost + rel)
                exp['forwarded_prefix'] = ('v', fscheme + '://' + fhost + case['root_path'])
            got = {}
            for attr in case['order']:
                fn = (lambda attr=attr: getattr(req, attr))
                if attr in exp:
                    got[attr] = p.expect(attr, fn, exp[attr][1])
                else:
                    got[attr] = p.read(attr, fn)
            # ---- composition holds for whatever was read
            if all(got[a][0] == 'ok' for a in ('forwarded_scheme', 'forwarded_host', 'forwarded_uri', 'forwarded_prefix')):
                base = '%s://%s' % (got['forwarded_scheme'][1], got['forwarded_host'][1])
                if got['forwarded_uri'][1] != base + rel or got['forwarded_prefix'][1] != base + case['root_path']:
                    raise Violation('composition', '%s: forwarded_uri %r / forwarded_prefix %r are not %r + %r / %r'
                                    % (p._where('forwarded_uri'), got['forwarded_uri'][1], got['forwarded_prefix'][1],
                                       base, rel, case['root_path']))
            if fwd is not None:
                check_raw(p, case['name'].swapcase(), fwd['text'])
        lb = set()
        nt = False
        if fwd is not None:
            lb.update(fwd['labels'])
            lb.add('fwd:mutated' if fwd['mutated'] else 'fwd:valid')
            if fwd['mutated'] or fwd['npairs'] >= 2 or case['name'] != 'Forwarded':
                nt = True
        else:
            lb.add('fwd:absent')
        if xff is not None:
            lb.update(xff['labels'])
            if fwd is None and (xff['mutated'] or len(xff['expect']) >= 2):
                nt = True
            if xff['mutated']:
                lb.add('xff:mutated')
        for k in ('xreal', 'xproto', 'xhost'):
            if case[k] is not None:
                lb.add(k + ':present')
        lb.add('client:' + case['client_mode'])
        return Info(nt, sorted(lb))


# ======================================================================== Host / URL composition


class HostUrl(Suite):
    """Host as every RFC 3986 authority form (reg-name incl. sub-delims / pct-encoded / empty,
    IPv4, bracketed IPv6 and IPvFuture; port absent, empty, digits with leading zeros) or no Host
    header at all (server name and default / non-default port, ASGI server missing / None / UNIX
    socket, ASGI scheme missing), http and https: req.host, port, netloc, subdomain, scheme, uri,
    url, prefix, relative_uri, forwarded_uri, forwarded_prefix equal the reference composition
    from the parts; accessors read in a generated order; single-edit mutants of Host."""

    name = 'host_url'
    budget = {'quick': 3200, 'thorough': 150000}

    ACCESSORS = ['host', 'port', 'netloc', 'subdomain', 'scheme', 'uri', 'url', 'prefix', 'relative_uri',
                 'forwarded_uri', 'forwarded_prefix', 'forwarded_host', 'forwarded_scheme', 'root_path', 'path',
                 'query_string']

    def strategy(self, tier):
        return st.builds(
            lambda host, scheme, smiss, server, smode, root, path, query, name, order: {
                'host': host, 'scheme': scheme, 'scheme_missing': smiss and scheme == 'http', 'server': list(server),
                'server_mode': smode, 'root_path': root, 'path': path, 'query': query, 'name': name, 'order': order},
            g.weighted((1, st.none()), (3, g.mutate_some(g.host_values(), 25))),
            _schemes, st.sampled_from([False, False, False, True]), _servers,
            st.sampled_from(['present', 'present', 'present', 'omit', 'none', 'unix']),
            g.root_paths, g.paths(), g.queries, g.cased('Host'), st.permutations(self.ACCESSORS))

    def run(self, case):
        h = case['host']
        headers = [(case['name'], h['text'])] if h is not None else []
        raw_path, path = case['path']
        scheme = case['scheme']
        rel = case['root_path'] + path + ('?' + case['query'] if case['query'] else '')
        for p in make_probes(headers, scheme=scheme, server=tuple(case['server']), server_mode=case['server_mode'],
                             root_path=case['root_path'], raw_path=raw_path, query=case['query'],
                             scheme_missing=case['scheme_missing']):
            req = p.req
            ref = expected_netloc(p.stack, case)
            exp = {'scheme': scheme, 'relative_uri': rel, 'root_path': case['root_path'], 'path': path,
                   'query_string': case['query'], 'forwarded_scheme': scheme}
            if ref['netloc'] is not None:
                net = ref['netloc']
                exp.update(netloc=net, forwarded_host=net, uri=scheme + '://' + net + rel, url=scheme + '://' + net + rel,
                           prefix=scheme + '://' + net + case['root_path'],
                           forwarded_uri=scheme + '://' + net + rel,
                           forwarded_prefix=scheme + '://' + net + case['root_path'])
            if ref['port'] is not None:
                exp['port'] = ref['port']
            if h is not None and not h['mutated'] and h['kind'] == 'regname':
                exp['subdomain'] = h['dns_labels'][0] if len(h['dns_labels']) > 1 else None
            got = {}
            for attr in case['order']:
                fn = (lambda attr=attr: getattr(req, attr))
                if attr in exp:
                    got[attr] = p.expect(attr, fn, exp[attr])
                else:
                    got[attr] = p.read(attr, fn)
            if ref['host'] is not None:
                r = got['host']
                if r[0] != 'ok' or type(r[1]) is not str or r[1].lower() != ref['host'].lower():
                    raise Violation('wrong_value', '%s = %r, expected %r' % (p._where('host'), r, ref['host']))
            # ---- composition from whatever netloc was read
            if all(got[a][0] == 'ok' for a in ('netloc', 'uri', 'url', 'prefix')):
                base = scheme + '://' + str(got['netloc'][1])
                if got['uri'][1] != base + rel or got['url'][1] != base + rel or got['prefix'][1] != base + case['root_path']:
                    raise Violation('composition', '%s: uri %r / prefix %r are not %r + %r / %r'
                                    % (p._where('uri'), got['uri'][1], got['prefix'][1], base, rel, case['root_path']))
            if h is not None:
                check_raw(p, case['name'].swapcase(), h['text'])
        lb = set()
        if h is None:
            lb.add('host:absent')
            lb.add('server:' + case['server_mode'])
            port = case['server'][1]
            lb.add('server_port:' + ('default_for_scheme' if port == _default_port(scheme) else
                                     'other_scheme_default' if port in (80, 443) else 'other'))
            nt = True
        else:
            lb.update(h['labels'])
            lb.add('mutated' if h['mutated'] else 'valid')
            if case['name'] != 'Host':
                lb.add('sent_name:noncanonical_case')
            nt = h['mutated'] or h['port'] is not None or h['kind'] not in ('regname',) or case['name'] != 'Host'
        lb.add('scheme:' + scheme + ('(missing in scope)' if case['scheme_missing'] else ''))
        if case['query']:
            lb.add('url:query')
        if case['root_path']:
            lb.add('url:root_path')
        return Info(nt, sorted(lb))


# ======================================================================== Accept


_TARGETS = ['application/json', 'application/xml', 'application/x-msgpack', 'application/msgpack', 'text/html',
            'text/plain', 'image/png']


class Accept(Suite):
    """Accept with 1-5 distinct media ranges (exact, type/*, */*), q-values incl. 0 / 0.000 /
    1.000, OWS around "," and ";", upper-case Q, the missing and the empty header:
    client_accepts_json / _xml / _msgpack, client_accepts(), client_prefers() against a
    reference most-specific-range table; single-edit mutants."""

    name = 'accept'
    budget = {'quick': 2400, 'thorough': 100000}

    def strategy(self, tier):
        return st.builds(
            lambda v, name, cands: {'value': v, 'name': name, 'candidates': cands},
            g.weighted((1, st.none()),
                       (1, st.just({'text': '', 'expect': {'*/*': 1.0}, 'labels': ['accept:empty'], 'mutated': False})),
                       (1, st.sampled_from([',', ', ,', ' , ,\t,', ',,', ';', ',;q=1', 'a/b,,', ',a/b']).map(
                           lambda t: {'text': t, 'expect': {}, 'labels': ['accept:only_separators'], 'mutated': True})),
                       (14, g.mutate_some(g.accept_values(), 30))),
            g.cased('Accept'), st.lists(st.sampled_from(_TARGETS), min_size=1, max_size=4, unique=True))

    def run(self, case):
        v = case['value']
        headers = [(case['name'], v['text'])] if v is not None else []
        table = {'*/*': 1.0} if v is None else v['expect']
        valid = v is None or not v['mutated']

        def q(mt):
            return g.accept_quality(table, mt)

        for p in make_probes(headers):
            req = p.req
            if valid:
                p.expect('accept', lambda: req.accept, (v['text'] if v is not None and v['text'] else '*/*'))
                p.expect('client_accepts_json', lambda: req.client_accepts_json, q('application/json') > 0)
                p.expect('client_accepts_xml', lambda: req.client_accepts_xml, q('application/xml') > 0)
                p.expect('client_accepts_msgpack', lambda: req.client_accepts_msgpack,
                         q('application/x-msgpack') > 0 or q('application/msgpack') > 0)
                for mt in _TARGETS:
                    p.expect('client_accepts(%r)' % mt, lambda mt=mt: req.client_accepts(mt), q(mt) > 0)
                r = p.read('client_prefers(%r)' % case['candidates'], lambda: req.client_prefers(list(case['candidates'])))
                best = max(q(c) for c in case['candidates'])
                ok = r[0] == 'ok' and ((best == 0 and r[1] is None) or
                                       (best > 0 and r[1] in case['candidates'] and q(r[1]) == best))
                if not ok:
                    raise Violation('wrong_value', '%s = %r; reference qualities %r' % (
                        p._where('client_prefers(%r)' % case['candidates']), r, {c: q(c) for c in case['candidates']}))
            else:
                for attr in ('accept', 'client_accepts_json', 'client_accepts_xml', 'client_accepts_msgpack'):
                    r = p.read(attr, lambda attr=attr: getattr(req, attr))
                    if attr != 'accept' and r[0] == 'ok' and type(r[1]) is not bool:
                        raise Violation('wrong_type', '%s = %r is not a bool' % (p._where(attr), r))
                for mt in _TARGETS:
                    p.read('client_accepts(%r)' % mt, lambda mt=mt: req.client_accepts(mt))
                p.read('client_prefers', lambda: req.client_prefers(list(case['candidates'])))
        if valid and v is not None and v['text'].strip(' \t,'):
            # the same ranges met again in another request's header (one more range appended): the answers may not
            # depend on what this process parsed before
            headers2 = [(case['name'], v['text'] + ', x-vf/none;q=0.5')]
            for p in make_probes(headers2):
                req = p.req
                for mt in _TARGETS:
                    p.expect('client_accepts(%r)' % mt, lambda mt=mt: req.client_accepts(mt), q(mt) > 0)
        if v is None:
            return Info(False, ['accept:missing'])
        lb = list(v['labels']) + ['mutated' if v['mutated'] else 'valid']
        if case['name'] != 'Accept':
            lb.append('sent_name:noncanonical_case')
        nt = v['mutated'] or len(table) >= 2 or case['name'] != 'Accept'
        return Info(nt, lb)


# ======================================================================== write / read round trips


class RoundTrip(_TzVaried):
    """Response -> request round trips on both stacks: resp.last_modified / resp.expires = dt
    (naive or UTC-aware, any microsecond, years 1000-9999), the emitted header fed to
    req.get_header_as_datetime / if_modified_since / if_unmodified_since / date gives dt at second
    precision; ETag(opaque) with is_weak written through ETag.dumps() (and as a bare opaque
    string for strong tags) into resp.etag, echoed alone or inside a list in If-None-Match /
    If-Match, reads back with the same opaque tag and weakness."""

    name = 'roundtrip'
    budget = {'quick': 2000, 'thorough': 80000}

    def _strategy(self, tier):
        return st.builds(
            lambda m, us, aware, attr, hdr, tag, how, others, pos, cond: {
                'moment': m, 'us': us, 'aware': aware, 'attr': attr, 'header': hdr, 'tag': list(tag), 'how': how,
                'others': [list(o) for o in others], 'pos': pos, 'cond': cond},
            g.moments(1000, 9999), st.sampled_from([0, 0, 1, 999999, 500000]), st.booleans(),
            st.sampled_from(['last_modified', 'expires']),
            st.sampled_from(['If-Modified-Since', 'If-Unmodified-Since', 'Date', 'Last-Modified', 'Expires']),
            g.etag_members, st.sampled_from(['dumps', 'dumps', 'raw']),
            st.lists(g.etag_members, max_size=3), st.integers(0, 3), st.sampled_from(['If-None-Match', 'If-Match']))

    def _run(self, case):
        y, mo, d, h, mi, s = case['moment']
        dt = _dt.datetime(y, mo, d, h, mi, s, case['us'], tzinfo=_UTC if case['aware'] else None)
        opaque, weak = case['tag']
        how = case['how']
        if how == 'raw' and (weak or not opaque):
            how = 'dumps'
        exp_dt = {'fields': [y, mo, d, h, mi, s]}
        for resp_cls, rname in ((falcon.Response, 'falcon.Response'), (falcon.asgi.Response, 'falcon.asgi.Response')):
            resp = resp_cls()
            try:
                setattr(resp, case['attr'], dt)
                date_text = resp.get_header({'last_modified': 'Last-Modified', 'expires': 'Expires'}[case['attr']])
                tag = falcon.ETag(opaque)
                tag.is_weak = weak
                resp.etag = tag.dumps() if how == 'dumps' else opaque
                etag_text = resp.get_header('ETag')
            except Exception as e:  # noqa
                raise Violation('unexpected_exception', '%s: writing %s=%r / etag (%r, weak=%r, %s) raised %s: %s'
                                % (rname, case['attr'], dt, opaque, weak, how, type(e).__name__, e))
            if type(date_text) is not str or type(etag_text) is not str:
                raise Violation('wrong_type', '%s: header values %r / %r' % (rname, date_text, etag_text))
            if getattr(resp, case['attr']) != date_text or resp.etag != etag_text:
                raise Violation('wrong_value', '%s: property getters %r / %r differ from get_header %r / %r'
                                % (rname, getattr(resp, case['attr']), resp.etag, date_text, etag_text))
            members = [g.render_etag(o, w) for o, w in case['others']]
            pos = case['pos'] % (len(members) + 1)
            members.insert(pos, etag_text)
            exp_tags = [{'etag': o, 'weak': w} for o, w in case['others']]
            exp_tags.insert(pos, {'etag': opaque, 'weak': weak})
            cond_text = ', '.join(members)
            headers = [(case['header'], date_text), (case['cond'], cond_text)]
            for p in make_probes(headers):
                req = p.req
                what = '[%s.%s = %r] get_header_as_datetime(%r)' % (rname, case['attr'], dt, case['header'])
                _check_dt(p, what, p.read(what, lambda: req.get_header_as_datetime(case['header'])), exp_dt)
                _check_dt(p, what, p.read(what, lambda: req.get_header_as_datetime(case['header'], obs_date=True)), exp_dt)
                prop = _DATE_PROPS.get(case['header'])
                if prop:
                    _check_dt(p, prop, p.read(prop, lambda: getattr(req, prop)), exp_dt)
                attr = 'if_none_match' if case['cond'] == 'If-None-Match' else 'if_match'
                p.expect('[%s.etag <- %s of (%r, weak=%r)] %s' % (rname, how, opaque, weak, attr),
                         lambda: getattr(req, attr), exp_tags)
                try:
                    back = getattr(req, attr)[pos]
                    relations = (back == tag, back.strong_compare(tag), tag.strong_compare(back))
                except Exception as e:  # noqa
                    raise Violation('unexpected_exception', '%s comparing read-back tag: %s: %s' % (p._where(attr), type(e).__name__, e))
                if relations != (True, not weak, not weak):
                    raise Violation('wrong_value', '%s: read-back %r (weak=%r) vs written (%r, weak=%r): ==, strong_compare '
                                    'both ways = %r' % (p._where(attr), back, back.is_weak, opaque, weak, relations))
        lb = ['rt:' + case['attr'], 'rt:into:' + case['header'], 'rt:etag:' + how, 'rt:etag:' + ('weak' if weak else 'strong'),
              'rt:aware' if case['aware'] else 'rt:naive', 'rt:cond_members=%d' % min(len(case['others']) + 1, 3)]
        if case['us']:
            lb.append('rt:microseconds')
        if ',' in opaque:
            lb.append('rt:comma_in_tag')
        return Info(True, lb)


# ======================================================================== coverage-guided totality

_FUZZ_HEADERS = ['Content-Length', 'Range', 'Date', 'If-Modified-Since', 'If-Unmodified-Since', 'If-Match', 'If-None-Match',
                 'Cookie', 'Forwarded', 'X-Forwarded-For', 'X-Forwarded-Proto', 'X-Forwarded-Host', 'X-Real-IP', 'Host',
                 'Accept', 'Content-Type', 'If-Range', 'Expect', 'Referer', 'User-Agent']


def _fuzz_accessors(req):
    return [
        ('content_length', lambda: req.content_length), ('range', lambda: req.range), ('range_unit', lambda: req.range_unit),
        ('date', lambda: req.date), ('if_modified_since', lambda: req.if_modified_since),
        ('if_unmodified_since', lambda: req.if_unmodified_since), ('if_match', lambda: req.if_match),
        ('if_none_match', lambda: req.if_none_match), ('if_range', lambda: req.if_range), ('cookies', lambda: req.cookies),
        ('forwarded', lambda: [(f.src, f.dest, f.host, f.scheme) for f in (req.forwarded or [])]),
        ('access_route', lambda: req.access_route), ('remote_addr', lambda: req.remote_addr),
        ('forwarded_scheme', lambda: req.forwarded_scheme), ('forwarded_host', lambda: req.forwarded_host),
        ('forwarded_uri', lambda: req.forwarded_uri), ('forwarded_prefix', lambda: req.forwarded_prefix),
        ('host', lambda: req.host), ('port', lambda: req.port), ('netloc', lambda: req.netloc), ('subdomain', lambda: req.subdomain),
        ('uri', lambda: req.uri), ('prefix', lambda: req.prefix), ('relative_uri', lambda: req.relative_uri),
        ('client_accepts_json', lambda: req.client_accepts_json), ('client_accepts_xml', lambda: req.client_accepts_xml),
        ('client_accepts(text/plain)', lambda: req.client_accepts('text/plain')),
        ('client_prefers', lambda: req.client_prefers(['application/json', 'text/plain'])),
        ('content_type', lambda: req.content_type), ('expect', lambda: req.expect), ('referer', lambda: req.referer),
        ('user_agent', lambda: req.user_agent),
        ('get_header_as_int(Content-Length)', lambda: req.get_header_as_int('Content-Length')),
        ('get_header_as_datetime(Date)', lambda: req.get_header_as_datetime('Date')),
        ('get_header_as_datetime(Date, obs)', lambda: req.get_header_as_datetime('Date', obs_date=True)),
    ]


class FuzzTotality(Suite):
    """Coverage-guided (Atheris) search for header values on which a typed accessor raises anything but an HTTPError 4xx
    or is not stable across reads: 1-3 headers chosen from 20 names, values = fuzzer bytes as latin-1 (CR, LF, NUL and
    other C0 controls except HTAB removed, as a server would never pass them on), every typed accessor read twice on a WSGI
    and an ASGI request, and WSGI / ASGI must agree on value-vs-4xx for pure-ASCII values."""

    name = 'fuzz_totality'
    budget = {'quick': 0, 'thorough': 0}
    fuzz_runs = {'quick': 4000, 'thorough': 400000}
    fuzz_shards = {'quick': 4, 'thorough': 12}
    fuzz_max_len = 120

    def fuzz_corpus(self):
        return [b'\x01bytes=0-5,7-', b'\x08for="[::1]:80";proto=https, for=_x', b'\x07a=1; b="x\\"y"; a=', b'\x0d[::1]:',
                b'\x05W/"a", "b,c", *', b'\x03Sun, 06 Nov 1994 08:49:37 GMT', b'\x0etext/*;q=0.5, */*;q=0']

    def fuzz_decode(self, data):
        if len(data) < 2:
            return None
        n = 1 + data[0] % 16 // 8 + (1 if data[0] % 16 == 15 else 0)
        body = data[1:]
        parts = body.split(b'\xff', n - 1) if n > 1 else [body]
        headers = []
        for i, part in enumerate(parts):
            if not part:
                continue
            name = _FUZZ_HEADERS[(data[0] + 7 * i + part[0]) % len(_FUZZ_HEADERS)] if i else _FUZZ_HEADERS[data[0] % len(_FUZZ_HEADERS)]
            val = bytes(c for c in part[(1 if i else 0):] if c >= 0x20 and c != 0x7f or c == 0x09).decode('latin-1').strip(' \t')
            if any(h[0] == name for h in headers):
                continue
            headers.append([name, val])
        if not headers:
            return None
        return {'headers': headers}

    def run(self, case):
        headers = [tuple(h) for h in case['headers']]
        probes = make_probes(headers)
        results = []
        for p in probes:
            out = {}
            for what, fn in _fuzz_accessors(p.req):
                out[what] = p.read(what, fn)
            results.append(out)
        ascii_only = all(all(ord(ch) < 128 for ch in v) for _n, v in headers)
        if ascii_only:
            for what in results[0]:
                a, b = results[0][what], results[1][what]
                if a[0] != b[0]:
                    raise Violation('wsgi_asgi_disagree', 'req.%s with headers %r: WSGI %r, ASGI %r' % (what, headers, a, b))
        n4 = sum(1 for r in results[0].values() if r[0] == 'http')
        return Info(n4 > 0 or len(headers) > 1, ['hdr:' + h[0] for h in headers] + (['some_accessor_answers_4xx'] if n4 else []))


# ======================================================================== many headers, long values


def _case_variant(name, how):
    return {0: name, 1: name.lower(), 2: name.upper(), 3: name.title(), 4: name.swapcase()}[how]


class ManyHeaders(Suite):
    """Requests with MANY header lines (1-200 distinct names, beyond any per-process cache of names a request class
    keeps) and LONG values (up to 20000 characters): every header is found under every letter-casing of its name on both
    stacks, with the value exactly as sent, headers / headers_lower list every one of them exactly once, and names that
    were not sent are absent.  Reference: the list that was sent."""

    name = 'many_headers'
    budget = {'quick': 300, 'thorough': 6000}

    def strategy(self, tier):
        n = st.one_of(st.integers(1, 12), st.integers(60, 70), st.integers(13, 200))
        long_len = st.sampled_from([0, 0, 255, 256, 4095, 4096, 8191, 8192, 8193, 20000])
        return st.builds(lambda n, salt, how, ln, absent: {'n': n, 'salt': salt, 'how': how, 'long': ln, 'absent': absent},
                         n, st.integers(0, 10 ** 6), st.lists(st.integers(0, 4), min_size=3, max_size=3), long_len,
                         st.integers(0, 10 ** 6))

    def run(self, case):
        n, salt = case['n'], case['salt']
        names = ['X-H%d-%s' % (i, 'abcdefghij'[(salt + i) % 10] * (1 + (salt + i) % 3)) for i in range(n)]
        sent_names = [_case_variant(nm, (salt + i) % 5) for i, nm in enumerate(names)]
        values = ['v%d-%d' % (i, salt % 997) for i in range(n)]
        if case['long']:
            values[salt % n] = ('abcdefghijklmnopqrstuvwxyz0123456789, ;=' * (case['long'] // 40 + 1))[:case['long']].strip()
        headers = list(zip(sent_names, values))
        absent = 'X-H%d-absent' % (case['absent'] % (n + 5))
        expect_lower = {nm.lower(): v for nm, v in zip(names, values)}
        for p in make_probes(headers):
            req = p.req
            for i, nm in enumerate(names):
                for how in case['how']:
                    lookup = _case_variant(nm, (how + i) % 5)
                    p.expect('get_header(%r)' % lookup, lambda lookup=lookup: req.get_header(lookup), values[i])
            p.expect('get_header(%r)' % absent, lambda: req.get_header(absent), None)
            p.expect('get_header(%r, default=)' % absent, lambda: req.get_header(absent, default='d'), 'd')
            for attr in ('headers', 'headers_lower'):
                r = p.read(attr, lambda attr=attr: {k: v for k, v in getattr(req, attr).items()})
                got = [(k, v) for k, v in r[1].items() if k.lower().startswith('x-h')] if r[0] == 'ok' else None
                if got is None or len(got) != n or {k.lower(): v for k, v in got} != expect_lower \
                        or (attr == 'headers_lower' and any(k != k.lower() for k, _v in got)):
                    raise Violation('wrong_value', '%s = %r..., expected the %d headers sent %r...'
                                    % (p._where(attr), str(got)[:300], n, headers[:3]))
        return Info(n > 1 or bool(case['long']), ['n:%s' % ('1' if n == 1 else '2-12' if n <= 12 else '13-64' if n <= 64 else '65+'),
                                                    'long:%d' % case['long']])



SUITES = [ContentLength(), Range(), Dates(), ETags(), RepeatedLines(), Cookies(), ForwardedSuite(), HostUrl(), Accept(), RoundTrip(), ManyHeaders(), FuzzTotality()]


def _known_f33(suite_name, case, violation):
    """F33: a port of more than 4300 digits (Host, Forwarded for=): int() refuses, ValueError escapes the accessor."""
    return violation.kind == 'unexpected_exception' and 'ValueError: Exceeds the limit' in violation.detail \
        and 'integer string conversion' in violation.detail


KNOWN = {'F33': _known_f33}
