"""C17 — WebSocket sessions follow the ASGI state machine and report misuse and errors."""
import asyncio
import itertools
import json

from hypothesis import strategies as st

import falcon
import falcon.asgi

from vf.core import HarnessError, Info, Suite, Violation
from vf.drivers import asgi as asgi_driver
from vf.sched.wsharness import Script, ServerSide, drain

LEVEL = 'exploration'
RULE = (
    'a case = responder script (accept / close / send_* / receive_* with right and wrong arguments / raise HTTPError, '
    'HTTPStatus or Exception / return) x client script (text and binary messages, optional disconnect delivered before '
    'a chosen step) x server send() fault (from call k on, translatable or not) x ASGI spec version 2.0-2.4 x queue '
    'size 0/4 x target (routed, unrouted, resource without on_websocket, with WebSocket middleware, custom error handler) '
    'x error_close_code; non-trivial = some operation is attempted in a state where it is not allowed, or a fault / '
    'disconnect happens after the first and before the last operation; distinct = distinct case fingerprint'
)
ASSUMPTIONS = [
    'reference = the state machine in this file, written from the WebSocket API docs and the ASGI WebSocket spec',
    'when several documented errors apply to one call, any of them is accepted',
    'deserialisation failures of receive_media (non-JSON text; binary without msgpack) may raise any exception',
    'the loop is drained between script operations, so how far the background reader has advanced is a function of the case',
]

ROUTED = '/ws'


class _Boom(Exception):
    pass


class _Custom(Exception):
    pass


def _exc_name(e):
    for cls, name in ((falcon.WebSocketDisconnected, 'WebSocketDisconnected'), (falcon.PayloadTypeError, 'PayloadTypeError'),
                      (falcon.OperationNotAllowed, 'OperationNotAllowed')):
        if isinstance(e, cls):
            return name
    return type(e).__name__


def _val(v):
    """Script payload encodings: ['b', hex] -> bytes, ['m', ...] -> memoryview, else literal."""
    if isinstance(v, list) and len(v) == 2 and v[0] == 'b':
        return bytes.fromhex(v[1])
    if isinstance(v, list) and len(v) == 2 and v[0] == 'ba':
        return bytearray(bytes.fromhex(v[1]))
    if isinstance(v, list) and len(v) == 2 and v[0] == 'mv':
        return memoryview(bytes.fromhex(v[1]))
    return v


async def perform(ws, op, script):
    k = op[0]
    try:
        if k == 'accept':
            kw = {}
            if op[1] is not None:
                kw['subprotocol'] = op[1]
            if op[2] is not None:
                h = op[2]
                kw['headers'] = dict(h[1]) if h[0] == 'dict' else [tuple(x) for x in h[1]]
            await ws.accept(**kw)
            return ('ok', None)
        if k == 'close':
            kw = {}
            if op[1] is not None:
                kw['code'] = op[1]
            if op[2] is not None:
                kw['reason'] = op[2]
            await ws.close(**kw)
            return ('ok', None)
        if k == 'send_text':
            await ws.send_text(_val(op[1]))
            return ('ok', None)
        if k == 'send_data':
            await ws.send_data(_val(op[1]))
            return ('ok', None)
        if k == 'send_media':
            await ws.send_media(op[1])
            return ('ok', None)
        if k == 'receive_text':
            return ('ok', await ws.receive_text())
        if k == 'receive_data':
            return ('ok', await ws.receive_data())
        if k == 'receive_media':
            return ('ok', await ws.receive_media())
        if k == 'raise_http_error':
            return ('raise_out', falcon.HTTPError(op[1]))
        if k == 'raise_http_status':
            return ('raise_out', falcon.HTTPStatus(op[1]))
        if k == 'raise_exception':
            return ('raise_out', _Boom('boom'))
        if k == 'raise_custom':
            return ('raise_out', _Custom('custom'))
        if k == 'raise_disconnected':
            # e.g. a relay: a send to ANOTHER connection's socket failed; this connection's client is still there
            return ('raise_out', falcon.WebSocketDisconnected(op[1]))
    except Exception as e:  # noqa
        return ('exc', _exc_name(e), getattr(e, 'code', None))
    raise AssertionError(op)


class _Resource(object):
    async def on_websocket(self, req, ws):
        req.scope['vf.trace'].append('responder')
        await req.scope['vf.script'].run(ws)


class _NoWs(object):
    async def on_get(self, req, resp):
        pass


class _Mw(object):
    def __init__(self, tag):
        self.tag = tag

    async def process_request_ws(self, req, ws):
        req.scope['vf.trace'].append(self.tag + '.request_ws')

    async def process_resource_ws(self, req, ws, resource, params):
        req.scope['vf.trace'].append(self.tag + '.resource_ws')


async def _custom_handler(req, resp, ex, params, ws=None):
    req.scope['vf.trace'].append('custom_handler')
    await ws.close(4321)


async def _custom_handler_kwonly(req, resp, ex, params, *, ws=None):
    # the documented way to receive the connection is "a `ws` argument"; a keyword-only one is an argument too
    req.scope['vf.trace'].append('custom_handler')
    await ws.close(4321)


async def _custom_handler_raises(req, resp, ex, params, ws=None):
    req.scope['vf.trace'].append('custom_handler')
    raise falcon.HTTPError(409)


_APPS = {}


def get_app(cap, mw, handler, err_code):
    key = (cap, mw, handler, err_code)
    app = _APPS.get(key)
    if app is None:
        app = falcon.asgi.App(middleware=[_Mw('m1'), _Mw('m2')] if mw else None)
        app.ws_options.max_receive_queue = cap
        if err_code is not None:
            app.ws_options.error_close_code = err_code
        app.add_route(ROUTED, _Resource())
        app.add_route('/nows', _NoWs())
        if handler == 'closes':
            app.add_error_handler(_Custom, _custom_handler)
        elif handler == 'closes_kwonly':
            app.add_error_handler(_Custom, _custom_handler_kwonly)
        elif handler == 'raises':
            app.add_error_handler(_Custom, _custom_handler_raises)
        _APPS[key] = app
    return app


# ------------------------------------------------------------------ reference state machine

RESERVED = lambda c: 1015 <= c <= 1999 or 1004 <= c <= 1006  # noqa: E731


def _make_fault(kind):
    if kind == 'oserror':
        return OSError('connection lost')
    if kind == 'uvicorn1000':
        return RuntimeError('received 1000 (OK); then sent 1000 (OK) code = 1000 (OK), no reason')
    if kind == 'daphne_proto':
        return RuntimeError('protocol accepted must be from the list')
    return KeyError('boom')  # not translatable


def _disc_event(disc):
    """'bare' = the server reports the disconnect without a close code (the key is optional in the ASGI spec)."""
    if disc == 'bare':
        return {'type': 'websocket.disconnect'}
    return {'type': 'websocket.disconnect', 'code': disc}


class Model(object):
    def __init__(self, case):
        self.cap = case['capacity']
        self.spec = case['spec']
        self.state = 'HANDSHAKE'
        self.gone = False
        self.delivered = [dict(e) for e in case['client']]
        self.pending_disc = None
        if case.get('disconnect') is not None:
            self.pending_disc = _disc_event(case['disconnect'])
        self.disc_at = case.get('disc_at')
        self.consumed = 0
        self.pulled = 0
        self.pump = False
        self.attempts = []  # expected send attempts
        self.send_calls = 0
        self.fault_at = case.get('fail_send_at')
        self.fault_kind = case.get('fault')
        self.server_gone = False  # disconnect delivered at the server side
        self.misuse = False
        self.midway_event = False

    # -- helpers
    def deliver_disc(self, synthetic=False):
        if self.pending_disc is not None:
            self.delivered.append(self.pending_disc)
            self.pending_disc = None
        elif synthetic:
            self.delivered.append({'type': 'websocket.disconnect', 'code': 1001})
        else:
            return
        self.server_gone = True

    def advance_pump(self):
        if self.pump and self.cap > 0 and not self.gone:
            target = min(len(self.delivered), self.consumed + self.cap + 1)
            while self.pulled < target and not self.gone:
                ev = self.delivered[self.pulled]
                self.pulled += 1
                if ev['type'] == 'websocket.disconnect':
                    self.gone = True
                    self.gone_code = ev.get('code', 1000)

    @property
    def closed(self):
        return self.state == 'CLOSED' or self.gone

    def server_send(self, event):
        """Falcon calls the server's send(): returns None or the exception raised."""
        n = self.send_calls
        self.send_calls += 1
        self.attempts.append(event)
        if self.fault_at is not None and n >= self.fault_at:
            return _make_fault(self.fault_kind)
        if self.server_gone and event[0] == 'send':
            return OSError('client disconnected')
        return None

    def translated(self, exc):
        s = str(exc)
        if 'code = 1000 (OK)' in s:
            return 'WebSocketDisconnected'
        if 'protocol accepted must be from the list' in s:
            return 'ValueError'
        if isinstance(exc, OSError):
            return 'WebSocketDisconnected'
        return None

    def _send(self, event):
        if self.gone:
            self.state = 'CLOSED'
        if self.state == 'CLOSED':
            return {'WebSocketDisconnected'}
        exc = self.server_send(event)
        if exc is None:
            return {'ok'}
        t = self.translated(exc)
        if t:
            self.state = 'CLOSED'
            self.pump_stop_on_close = True
            return {t}
        return {type(exc).__name__}

    def do_close(self, code, reason):
        if code is None:
            code = 1000
        elif not isinstance(code, int) or isinstance(code, bool) and False:
            self.misuse = True
            return {'ValueError'}
        elif code < 1000 or RESERVED(code):
            self.misuse = True
            return {'ValueError'}
        self.pump = False
        if self.closed:
            self.state = 'CLOSED'
            return {'ok'}
        exc = self.server_send(('close', code, reason))
        self.state = 'CLOSED'  # the socket is unusable afterwards even if the server failed to deliver the close
        if exc is not None:
            return {type(exc).__name__}
        return {'ok'}

    # -- one scripted operation: returns the set of acceptable outcomes; 'ok' may carry a value
    def step(self, i, op):
        if self.disc_at is not None and self.disc_at == i:
            self.deliver_disc()
            if 0 < i:
                self.midway_event = True
        self.advance_pump()
        k = op[0]
        if self.fault_at is not None and self.send_calls >= self.fault_at and i > 0:
            self.midway_event = True
        if k == 'accept':
            errs = set()
            if self.closed:
                errs.add('OperationNotAllowed')
            if self.state != 'HANDSHAKE':
                errs.add('OperationNotAllowed')
            if op[1] is not None and not isinstance(op[1], str):
                errs.add('ValueError')
            names = []
            if op[2] is not None:
                if self.spec == '2.0' and op[2][1]:
                    errs.add('OperationNotAllowed')
                names = [n.lower() for n, v in op[2][1]]
                if 'sec-websocket-protocol' in names:
                    errs.add('ValueError')
            if errs:
                self.misuse = True
                return errs, None
            hdrs = None
            if op[2] is not None and op[2][1]:
                hdrs = [(n.lower().encode(), v.encode()) for n, v in op[2][1]]
            out = self._send(('accept', op[1], hdrs))
            if out == {'ok'}:
                self.state = 'ACCEPTED'
                self.pump = True
                self.advance_pump()
            return out, None
        if k == 'close':
            out = self.do_close(op[1], op[2])
            return out, None
        if k in ('send_text', 'send_data', 'send_media'):
            errs = set()
            if self.state == 'HANDSHAKE':
                self.misuse = True
                return {'OperationNotAllowed'}, None
            if self.state == 'CLOSED':
                self.misuse = True
                errs.add('WebSocketDisconnected')
            v = _val(op[1])
            if k == 'send_text' and not isinstance(v, str):
                errs.add('TypeError')
                self.misuse = True
            if k == 'send_data' and not isinstance(v, (bytes, bytearray, memoryview)):
                errs.add('TypeError')
                self.misuse = True
            if self.gone:
                errs.add('WebSocketDisconnected')
            if errs:
                if 'TypeError' not in errs or self.state == 'CLOSED':
                    # the framework notices the disconnect: socket is now closed
                    if self.gone:
                        self.state = 'CLOSED'
                elif self.gone:
                    # either error is acceptable, but then the resulting state is ambiguous: settle it
                    self.ambiguous = True
                return errs, None
            if k == 'send_text':
                ev = ('send', 'text', v)
            elif k == 'send_data':
                ev = ('send', 'bytes', bytes(v))
            else:
                ev = ('send', 'text_json', v)
            return self._send(ev), None
        if k in ('receive_text', 'receive_data', 'receive_media'):
            if self.state == 'HANDSHAKE':
                self.misuse = True
                return {'OperationNotAllowed'}, None
            if self.state == 'CLOSED':
                self.misuse = True
                return {'WebSocketDisconnected'}, None
            if self.consumed >= len(self.delivered):
                # the application would wait: the client's next event is the (scheduled or synthetic) disconnect
                self.deliver_disc(synthetic=True)
            ev = self.delivered[self.consumed]
            self.consumed += 1
            if self.cap > 0:
                self.pulled = max(self.pulled, self.consumed)
            if ev['type'] == 'websocket.disconnect':
                self.state = 'CLOSED'
                self.gone = True
                return {'WebSocketDisconnected'}, None
            self.advance_pump()
            text, data = ev.get('text'), ev.get('bytes')
            if k == 'receive_text':
                if text is None:
                    return {'PayloadTypeError'}, None
                return {'ok'}, text
            if k == 'receive_data':
                if data is None:
                    return {'PayloadTypeError'}, None
                return {'ok'}, data
            if text is not None:
                try:
                    return {'ok'}, json.loads(text)
                except ValueError:
                    return {'ANY_EXCEPTION'}, None
            return {'ANY_EXCEPTION', 'ok'}, None  # binary media needs msgpack
        raise AssertionError(op)

    def finish(self, how, arg, err_code, handler):
        """The responder returned / raised: what the framework does at the end.
        Returns the name of the exception expected to escape from the app callable, or None."""
        self.advance_pump()

        def cleanup_on_error():
            code = 1011 if err_code is None else err_code
            r = self.do_close(code, None)
            if r == {'ValueError'}:
                r = self.do_close(3011, None)
            return r

        if how == 'return':
            r = self.do_close(None, None)
            if r != {'ok'}:
                r = cleanup_on_error()
        elif how in ('raise_http_error', 'raise_http_status'):
            r = self.do_close(3000 + arg, None)
        elif how in ('raise_exception', 'raise_disconnected') or (how == 'raise_custom' and handler is None):
            r = cleanup_on_error()
        elif how == 'raise_custom':
            if handler in ('closes', 'closes_kwonly'):
                r = self.do_close(4321, None)
            else:
                r = self.do_close(3409, None)
        else:
            raise AssertionError(how)
        return None if r == {'ok'} else sorted(r)[0]


# ------------------------------------------------------------------ independent monitor


def monitor(attempts, spec, ctx):
    accepted = False
    closed = False
    for ev, disc_pulled, server_ok in attempts:
        t = ev.get('type')
        if disc_pulled:
            raise Violation('ws_send_after_disconnect', 'event %r sent after the server handed the app websocket.disconnect; %s' % (ev, ctx()))
        if closed:
            raise Violation('ws_event_after_close', 'event %r after websocket.close; %s' % (ev, ctx()))
        if t == 'websocket.accept':
            if accepted:
                raise Violation('ws_accept_twice', 'second websocket.accept; %s' % ctx())
            accepted = server_ok
            if 'headers' in ev:
                if spec == '2.0':
                    raise Violation('ws_accept_headers_unsupported', 'accept headers with spec 2.0; %s' % ctx())
                for n, v in ev['headers']:
                    if type(n) is not bytes or type(v) is not bytes or n != n.lower():
                        raise Violation('ws_accept_header_form', '%r; %s' % (ev['headers'], ctx()))
                    if n == b'sec-websocket-protocol':
                        raise Violation('ws_accept_forbidden_header', '%r; %s' % (ev['headers'], ctx()))
            if 'subprotocol' in ev and not (ev['subprotocol'] is None or isinstance(ev['subprotocol'], str)):
                raise Violation('ws_accept_subprotocol_type', '%r; %s' % (ev, ctx()))
        elif t == 'websocket.send':
            if not accepted:
                raise Violation('ws_send_before_accept', '%r; %s' % (ev, ctx()))
            has_t = ev.get('text') is not None
            has_b = ev.get('bytes') is not None
            if has_t == has_b:
                raise Violation('ws_send_payload', 'exactly one of text/bytes required: %r; %s' % (ev, ctx()))
            if has_t and type(ev['text']) is not str or has_b and type(ev['bytes']) is not bytes:
                raise Violation('ws_send_payload_type', '%r; %s' % (ev, ctx()))
        elif t == 'websocket.close':
            closed = server_ok  # a close the server failed to deliver may be retried
            code = ev.get('code', 1000)
            if type(code) is not int or code < 1000 or RESERVED(code):
                raise Violation('ws_close_code', 'close code %r; %s' % (code, ctx()))
            if 'reason' in ev:
                if spec in ('2.0', '2.1', '2.2'):
                    raise Violation('ws_close_reason_unsupported', 'reason with spec %s; %s' % (spec, ctx()))
                if not isinstance(ev['reason'], str):
                    raise Violation('ws_close_reason_type', '%r; %s' % (ev, ctx()))
        else:
            raise Violation('ws_unknown_event', '%r; %s' % (ev, ctx()))
    return accepted, closed


# ------------------------------------------------------------------ execution


def run_case(case):
    cap = case['capacity']
    spec = case['spec']
    target = case['target']
    ops = case['script']
    app = get_app(cap, case['mw'], case['handler'], case['err_code'])
    fault = _make_fault(case['fault']) if case['fail_send_at'] is not None else None
    client = [dict(e) for e in case['client']]
    server = ServerSide(client, fail_send_at=case['fail_send_at'], fail_exc=fault)
    for _ in client:
        server.deliver_next()
    disc = case['disconnect']
    script = Script(ops, perform)
    trace = []
    path = {'routed': ROUTED, 'unrouted': '/nothing', 'nows': '/nows'}[target]
    scope = asgi_driver.build_scope('GET', path, type_='websocket', spec_version=spec,
                                    extra={'vf.script': script, 'vf.trace': trace, 'subprotocols': ['chat']})
    del scope['method']
    model = Model(case)
    ctx = lambda: 'case=%r outcomes=%r sent=%r' % (case, script.outcomes, [a[0] for a in server.attempts])  # noqa: E731

    def deliver_disc(synthetic):
        if disc is not None and not server.client_gone and not any(e['type'] == 'websocket.disconnect' for e in server.client_events):
            server.client_events.append(_disc_event(disc))
            server.deliver_next()
        elif synthetic and not server.client_gone:
            server.client_events.append({'type': 'websocket.disconnect', 'code': 1001})
            server.deliver_next()

    escaped = {}

    async def main():
        me = asyncio.current_task()
        task = asyncio.ensure_future(app(scope, server.receive, server.send))
        await drain()
        for i in range(len(ops)):
            if task.done():
                break
            if case['disc_at'] is not None and case['disc_at'] == i:
                deliver_disc(False)
                await drain()
            script.allow()
            await drain()
            if script.in_step:
                # blocked in a receive: the client's next event is the disconnect
                deliver_disc(True)
                await drain()
            if script.in_step:
                raise Violation('ws_step_stuck', 'operation %r did not complete although a disconnect was delivered; %s' % (ops[i], ctx()))
        await drain()
        if not task.done():
            if case['disc_at'] is not None and case['disc_at'] == len(ops):
                deliver_disc(False)
                await drain()
            script.allow()  # the end-of-script gate
            await drain()
        if not task.done():
            deliver_disc(True)
            await drain()
        if not task.done():
            task.cancel()
            try:
                await task
            except BaseException:
                pass
            raise Violation('ws_session_stuck', 'the app callable never returned; %s' % ctx())
        escaped['exc'] = task.exception()
        left = [t for t in asyncio.all_tasks() if t is not me and not t.done()]
        if left:
            for t in left:
                t.cancel()
            await drain()
            raise Violation('ws_task_left_running', '%r; %s' % (left, ctx()))

    asgi_driver.run(main())

    # ---- (1) independent monitor over everything the app tried to send
    accepted, closed = monitor(server.attempts, spec, ctx)

    # ---- (2) reference state machine: outcome of every step
    if target == 'routed':
        exp_trace = (['m1.request_ws', 'm2.request_ws', 'm1.resource_ws', 'm2.resource_ws'] if case['mw'] else []) + ['responder']
    elif target == 'nows':
        exp_trace = ['m1.request_ws', 'm2.request_ws', 'm1.resource_ws', 'm2.resource_ws'] if case['mw'] else []
    else:
        exp_trace = ['m1.request_ws', 'm2.request_ws'] if case['mw'] else []
    how, arg = 'return', None
    if target == 'routed':
        for i, op in enumerate(ops):
            if op[0].startswith('raise_'):
                if model.disc_at is not None and model.disc_at == i:
                    model.deliver_disc()
                how, arg = op[0], (op[1] if len(op) > 1 else None)
                if how == 'raise_custom' and case['handler'] is not None:
                    exp_trace = exp_trace + ['custom_handler']
                if i >= len(script.outcomes):
                    raise Violation('ws_script_incomplete', 'step %d never ran; %s' % (i, ctx()))
                break
            allowed, value = model.step(i, op)
            if i >= len(script.outcomes):
                raise Violation('ws_script_incomplete', 'step %d never ran; %s' % (i, ctx()))
            got = script.outcomes[i]
            tag = 'ok' if got[0] == 'ok' else got[1]
            if 'ANY_EXCEPTION' in allowed and got[0] == 'exc':
                pass
            elif tag not in allowed:
                raise Violation('ws_wrong_outcome', 'step %d %r: got %r, reference state machine allows %r (state %s, gone=%s); %s'
                                % (i, op, got, sorted(allowed), model.state, model.gone, ctx()))
            if (got[0] == 'exc' and tag == 'WebSocketDisconnected' and op[0].startswith('receive') and len(got) > 2
                    and case['fail_send_at'] is None and case['disconnect'] is not None
                    and not any(o[0] == 'close' for o in ops[:i]) and all(o[0] == 'ok' for o in script.outcomes[:i])):
                # nothing failed before and the app did not close: the only way this connection can have ended is the
                # client's disconnect, seen first by this receive: the error reports ITS code
                want_code = 1000 if case['disconnect'] == 'bare' else case['disconnect']
                if got[2] != want_code:
                    raise Violation('ws_disconnect_code', 'step %d %r raised WebSocketDisconnected(code=%r), the client disconnected with '
                                    'code %r; %s' % (i, op, got[2], want_code, ctx()))
            if getattr(model, 'ambiguous', False):
                # two documented errors applied; follow what the implementation chose
                if tag == 'WebSocketDisconnected':
                    model.state = 'CLOSED'
                model.ambiguous = False
            if got[0] == 'ok' and allowed == {'ok'} and value is not None:
                if got[1] != value or type(got[1]) is not type(value):
                    raise Violation('ws_payload_changed', 'step %d %r returned %r, the client sent %r; %s' % (i, op, got[1], value, ctx()))
        else:
            if model.disc_at is not None and model.disc_at == len(ops):
                model.deliver_disc()
        expect_raise = model.finish(how, arg, case['err_code'], case['handler'])
    elif target == 'unrouted':
        r = model.do_close(3404, None)
        expect_raise = None if r == {'ok'} else sorted(r)[0]
    else:
        r = model.do_close(3405, None)
        expect_raise = None if r == {'ok'} else sorted(r)[0]
    got_raise = None if escaped.get('exc') is None else type(escaped['exc']).__name__
    if got_raise != expect_raise:
        raise Violation('ws_app_raised', 'the ASGI app callable raised %r; the reference expects %r to escape (only an exception raised by '
                        "the server's own send() during the final close may propagate); %s" % (escaped.get('exc'), expect_raise, ctx()))
    if trace != exp_trace:
        raise Violation('ws_call_order', 'calls %r, expected %r; %s' % (trace, exp_trace, ctx()))

    # ---- (3)+(4) the events sent are exactly those the reference predicts
    got_events = []
    for ev, _, _ in server.attempts:
        t = ev['type']
        if t == 'websocket.accept':
            got_events.append(('accept', ev.get('subprotocol'), ev.get('headers')))
        elif t == 'websocket.send':
            if ev.get('text') is not None:
                got_events.append(('send', 'text', ev['text']))
            else:
                got_events.append(('send', 'bytes', ev['bytes']))
        else:
            got_events.append(('close', ev.get('code', 1000), ev.get('reason')))
    exp = model.attempts
    if len(got_events) != len(exp):
        raise Violation('ws_events_differ', 'sent %r, reference predicts %r; %s' % (got_events, exp, ctx()))
    for g, e in zip(got_events, exp):
        if e[0] == 'send' and e[1] == 'text_json':
            ok = g[0] == 'send' and g[1] == 'text' and json.loads(g[2]) == e[2]
        elif e[0] == 'close':
            ok = g[0] == 'close' and g[1] == e[1]
            if ok and e[2] is not None and spec in ('2.3', '2.4'):
                ok = g[2] == e[2]
        elif e[0] == 'accept':
            ok = g[0] == 'accept' and g[1] == e[1] and (g[2] or None) == (e[2] or None)
        else:
            ok = g == e
        if not ok:
            raise Violation('ws_events_differ', 'sent %r, reference predicts %r; %s' % (got_events, exp, ctx()))

    labels = ['target:' + target, 'spec:' + spec, 'cap:%d' % cap]
    if model.misuse:
        labels.append('misuse')
    if model.midway_event:
        labels.append('fault_or_disconnect_midway')
    if case['fail_send_at'] is not None:
        labels.append('fault:' + case['fault'])
    if how != 'return':
        labels.append(how)
    for op in ops:
        labels.append('op:' + op[0])
    return Info(model.misuse or model.midway_event, sorted(set(labels)))


# ------------------------------------------------------------------ generators

E_OPS = [
    ['accept', None, None], ['accept', 'chat', ['list', [['X-A', '1']]]], ['accept', None, ['list', [['Set-Cookie', 'a=1'], ['Set-Cookie', 'b=2']]]],
    ['close', None, None], ['close', 999, None], ['close', 3000, 'bye'],
    ['send_text', 'hi'], ['send_text', 5], ['send_data', ['b', '00ff']], ['send_media', {'a': [1, 'é']}],
    ['receive_text'], ['receive_data'], ['receive_media'],
    ['raise_http_error', 403], ['raise_http_status', 204], ['raise_exception'], ['raise_disconnected', 1001],
]
CLIENTS = [
    ([], None),
    ([], 'bare'),
    ([{'type': 'websocket.receive', 'text': '{"x": 1}'}], None),
    ([{'type': 'websocket.receive', 'text': 'plain'}, {'type': 'websocket.receive', 'bytes': b'\x01\x02'}], 1001),
    ([], 1000),
]


class ScriptEnum(Suite):
    """ALL responder scripts of <= 2 (quick) / <= 3 (thorough) operations over a 15-operation alphabet x 4 client scripts
    (disconnect delivered before the first or the last step) x queue size 0 and 4, spec 2.3, routed target."""

    name = 'script_enum'
    exhaustive = True
    budget = {'quick': 1, 'thorough': 1}
    case_timeout = 60

    def cases(self, tier):
        n_max = 2 if tier == 'quick' else 3
        for n in range(1, n_max + 1):
            for sc in itertools.product(range(len(E_OPS)), repeat=n):
                script = [E_OPS[i] for i in sc]
                for client, disc in CLIENTS:
                    for cap in (0, 4):
                        for disc_at in ((0, n - 1) if disc is not None and n > 1 else (0,) if disc is not None else (None,)):
                            yield {'capacity': cap, 'spec': '2.3', 'target': 'routed', 'script': script, 'client': client,
                                   'disconnect': disc, 'disc_at': disc_at, 'fail_send_at': None, 'fault': None,
                                   'mw': False, 'handler': None, 'err_code': None}

    def run(self, case):
        return run_case(case)


class CloseCodeEnum(Suite):
    """Close codes, exhaustively around every boundary of the documented rule (valid: 1000-1003, 1007-1014, >= 2000;
    ValueError: < 1000, 1004-1006, 1015-1999): every integer 990..2010 plus outliers, given (a) to ws.close(code) after
    accept, (b) to ws.close(code) before accept (a denial: the code is still validated), and (c) as
    ws_options.error_close_code with a responder that raises after accept."""

    name = 'close_codes'
    exhaustive = True
    budget = {'quick': 1, 'thorough': 1}
    case_timeout = 60

    def cases(self, tier):
        codes = list(range(990, 2011)) + [-1, 0, 1, 2500, 2999, 3000, 3999, 4000, 4999, 5000, 65535, 2 ** 31]
        base = {'capacity': 4, 'spec': '2.3', 'target': 'routed', 'client': [], 'disconnect': None, 'disc_at': None,
                'fail_send_at': None, 'fault': None, 'mw': False, 'handler': None, 'err_code': None}
        for c in codes:
            yield dict(base, script=[['accept', None, None], ['close', c, None]])
            yield dict(base, script=[['close', c, 'bye']])
            yield dict(base, script=[['accept', None, None], ['raise_exception']], err_code=c)

    def run(self, case):
        info = run_case(case)
        c = case['err_code'] if case['err_code'] is not None else case['script'][-1][1]
        edge = any(abs(c - b) <= 1 for b in (1000, 1003, 1004, 1006, 1007, 1014, 1015, 1999, 2000))
        return Info(edge, info.labels + ('close_code:' + ('valid' if c >= 1000 and not RESERVED(c) else 'invalid'),))


_text = st.sampled_from(['hi', '', 'é€😀', '{"a": 1}', '"s"', 'plain'])
_bytes = st.sampled_from([['b', ''], ['b', '00ff'], ['ba', '0102'], ['mv', '61']])
_media = st.sampled_from([{'a': 1}, [1, 2, 'é'], 'str', 5, None, {'n': {'x': [True, None]}}])
_hdrs = st.one_of(st.none(), st.none(), st.just(['list', [['X-A', '1']]]), st.just(['dict', [['x-b', '2'], ['X-C', '3']]]),
                  st.just(['list', [['Sec-WebSocket-Protocol', 'x']]]), st.just(['list', []]),
                  # the same header name more than once: a list of pairs keeps every pair, in order
                  st.just(['list', [['Set-Cookie', 'a=1'], ['X-T', 'abc'], ['Set-Cookie', 'b=2']]]))
_op = st.one_of(
    st.tuples(st.just('accept'), st.sampled_from([None, None, 'chat', 7]), _hdrs),
    st.tuples(st.just('accept'), st.none(), st.none()),
    st.tuples(st.just('close'), st.sampled_from([None, None, 1000, 1001, 3000, 4001, 999, 1005, 1015, 0, '1000']), st.sampled_from([None, None, 'bye'])),
    st.tuples(st.just('send_text'), st.one_of(_text, _text, st.just(5), _bytes)),
    st.tuples(st.just('send_data'), st.one_of(_bytes, _bytes, st.just('str'), st.just(5))),
    st.tuples(st.just('send_media'), _media),
    st.tuples(st.just('receive_text')), st.tuples(st.just('receive_data')), st.tuples(st.just('receive_media')),
    st.tuples(st.just('receive_text')),
)
_end = st.one_of(
    st.none(), st.none(),
    st.tuples(st.just('raise_http_error'), st.sampled_from([400, 403, 404, 500])),
    st.tuples(st.just('raise_http_status'), st.sampled_from([200, 204, 404])),
    st.tuples(st.just('raise_exception')), st.tuples(st.just('raise_custom')),
    st.tuples(st.just('raise_disconnected'), st.sampled_from([1000, 1001, 1006])),
)
_cev = st.one_of(
    _text.map(lambda t: {'type': 'websocket.receive', 'text': t}),
    st.sampled_from([b'', b'\x00\xff', b'abc']).map(lambda b: {'type': 'websocket.receive', 'bytes': b}),
    st.just({'type': 'websocket.receive', 'text': '{"k": [1, 2]}', 'bytes': None}),
)


@st.composite
def _case(draw):
    ops = [list(o) for o in draw(st.lists(_op, min_size=0, max_size=7))]
    if draw(st.integers(0, 3)) > 0:
        # most scripts start by accepting
        ops.insert(0, ['accept', None, None])
    end = draw(_end)
    if end is not None:
        ops.append(list(end))
    if not ops:
        ops = [['accept', None, None]]
    disc = draw(st.sampled_from([None, None, 1000, 1001, 4000, 'bare', 'bare']))
    fail = draw(st.sampled_from([None, None, None, 0, 1, 2, 3]))
    return {
        'capacity': draw(st.sampled_from([0, 4, 4, 1])),
        'spec': draw(st.sampled_from(['2.0', '2.1', '2.2', '2.3', '2.4'])),
        'target': draw(st.sampled_from(['routed'] * 8 + ['unrouted', 'nows'])),
        'script': ops,
        'client': draw(st.lists(_cev, max_size=6)),
        'disconnect': disc,
        'disc_at': draw(st.integers(0, len(ops))) if disc is not None else None,
        'fail_send_at': fail,
        'fault': draw(st.sampled_from(['oserror', 'oserror', 'uvicorn1000', 'daphne_proto', 'other'])) if fail is not None else None,
        'mw': draw(st.booleans()),
        'handler': draw(st.sampled_from([None, 'closes', 'closes_kwonly', 'raises'])),
        'err_code': draw(st.sampled_from([None, None, 4500, 3999, 999, 1005])),
    }


class ScriptRandom(Suite):
    """Random sessions: scripts of <= 9 operations with right and wrong arguments ending in return / HTTPError / HTTPStatus /
    Exception / custom exception with a ws-aware handler; client scripts of <= 6 text/binary messages and an optional
    disconnect delivered before any step; server send() failing from call 0-3 on (OSError, uvicorn / daphne messages,
    untranslatable); spec versions 2.0-2.4; queue sizes 0, 1, 4; routed / unrouted / no on_websocket; WebSocket middleware;
    valid and invalid error_close_code."""

    name = 'script_random'
    budget = {'quick': 6000, 'thorough': 150000}
    case_timeout = 60

    def strategy(self, tier):
        return _case()

    def run(self, case):
        return run_case(case)


class ManyMessages(Suite):
    """Counts beyond the moderate range: max_receive_queue of 4-600 (around 64, 128, 256, 512) and 10-700 client messages
    (text / binary alternating, every payload distinct) all at the server before the responder accepts; the responder
    accepts, receives every one of them with the matching receive_text / receive_data and closes.  Same monitor and
    reference state machine: every payload arrives unchanged and in order, one accept, one close."""

    name = 'many_messages'
    exhaustive = True
    budget = {'quick': 1, 'thorough': 1}
    case_timeout = 120

    def cases(self, tier):
        caps = (4, 63, 64, 65, 127, 128, 129, 200, 255, 256, 257, 511, 512, 513, 600)
        for cap in (caps if tier != 'quick' else (4, 64, 128, 129, 200, 257, 513)):
            for n in sorted(set([10, max(cap - 1, 1), cap, cap + 1, cap + 22, cap + 150])):
                for disc in (None, 1001):
                    yield {'capacity': cap, 'n': n, 'disconnect': disc}

    def run(self, case):
        n = case['n']
        client, script = [], [['accept', None, None]]
        for i in range(n):
            if i % 2 == 0:
                client.append({'type': 'websocket.receive', 'text': 'msg-%04d' % i})
                script.append(['receive_text'])
            else:
                client.append({'type': 'websocket.receive', 'bytes': b'bin-%04d' % i})
                script.append(['receive_data'])
        script.append(['close', None, None])
        full = {'capacity': case['capacity'], 'spec': '2.3', 'target': 'routed', 'script': script, 'client': client,
                'disconnect': case['disconnect'], 'disc_at': len(script) - 1 if case['disconnect'] is not None else None,
                'fail_send_at': None, 'fault': None, 'mw': False, 'handler': None, 'err_code': None}
        try:
            run_case(full)
        except Violation as v:
            d = v.detail
            raise Violation(v.kind, '%s ... %s\n  compact case=%r' % (d[:400], d[-300:], case))
        return Info(True, ['cap:%s' % ('<128' if case['capacity'] < 128 else '<256' if case['capacity'] < 256 else '>=256'),
                           'n>cap' if n > case['capacity'] else 'n<=cap'] + (['client_disconnect'] if case['disconnect'] else []))



SUITES = [ScriptEnum(), CloseCodeEnum(), ScriptRandom(), ManyMessages()]
KNOWN = {}
