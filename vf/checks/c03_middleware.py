"""C03 — Middleware, hooks and responder run in the documented stack order, once each.

Every generated middleware method, hook, responder, sink and error handler appends
`[site, req_succeeded?, resource is None?]` to a per-case trace.  The expected trace is
computed by `ref_trace`, a reference interpreter of the discipline documented in
docs/api/middleware.rst, docs/api/hooks.rst and the `independent_middleware` docstring of
falcon.App; the two lists must be equal (so a missing, doubled or reordered call is caught).
The interpreter shares no code with falcon.
"""
import itertools
import os

from hypothesis import strategies as st

import falcon
import falcon.asgi

from vf.core import HarnessError, Info, Suite, Violation
from vf.drivers import asgi as A
from vf.drivers import wsgi as W

LEVEL = 'fault_enumeration'
RULE = (
    'request cases: a stack description (components x implemented methods x method-name variant, hooks, '
    'route kind, independent_middleware, WSGI/ASGI) plus an action table assigning return / resp.complete / '
    'raise HTTPError / raise HTTPStatus / raise AppError (handler registered or not, handler returning or '
    'raising) to call sites; a case is non-trivial when the stack has >= 2 middleware components and at '
    'least one non-return action sits on a call site that the documented discipline actually reaches. '
    'lifespan cases: non-trivial when >= 2 components implement lifespan handlers and one of the reached '
    'handlers raises. distinct = distinct case fingerprint'
)
ASSUMPTIONS = [
    'the reference interpreter ref_trace/ref_lifespan in this file (written from docs/api/middleware.rst, '
    'docs/api/hooks.rst and the App docstrings) is the documented discipline',
    'resp.complete is documented for middleware methods only; set from a hook, responder, sink or '
    'process_response it is expected to change nothing in the call sequence',
    'an unrouted request ends in the default responder, which raises HTTPRouteNotFound (docs/api/routing.rst), '
    'so req_succeeded is False for it; a sink is a responder without resource (resource is None)',
    'error handlers that raise something other than HTTPError/HTTPStatus are not generated',
    'a component implements at least one process_* method (the framework documents a TypeError otherwise)',
    'WebSocket middleware methods (process_request_ws/process_resource_ws) are not covered here',
]

KINDS = ('req', 'rsrc', 'resp')
METHOD = {'req': 'process_request', 'rsrc': 'process_resource', 'resp': 'process_response'}
ACTIONS = ('complete', 'http_error', 'http_status', 'app_error')
HANDLER_ACTIONS = (None, 'return', 'http_error', 'http_status')


class AppError(Exception):
    """Application exception unknown to the framework."""


class HandlerBug(Exception):
    """What a faulty error handler raises (handler action 'plain_error')."""


# ----------------------------------------------------------------- reference interpreter
# Written from the documentation, not from falcon's code:
#  * process_request top-down; stop at the first one that sets resp.complete or raises
#  * route only if not complete/raised; process_resource top-down only for a routed resource
#  * responder (before hooks outermost first, responder, after hooks innermost first) only if
#    nothing completed or raised; a raise anywhere in that chain ends the chain
#  * a raised exception goes to its error handler (HTTPError/HTTPStatus: built in, not traced;
#    AppError: the registered handler if any, else the built-in 500 handler); whatever the
#    handler does, unwinding continues
#  * process_response bottom-up, once each; with independent_middleware=False not for the
#    component whose process_request raised nor for any component below it
#  * req_succeeded is True iff nothing has raised so far (a raising process_response flips it)


def hook_chain(case):
    """[site, ...] before hooks in call order, [site, ...] after hooks in call order."""
    before, after = [], []
    for prefix, hooks in (('chook', case['class_hooks']), ('mhook', case['method_hooks'])):
        for k, kind in enumerate(hooks):  # listed top-to-bottom as decorators are written
            (before if kind == 'before' else after).append('%s%d' % (prefix, k))
    # after hooks: innermost (closest to the def) first, method-level inside class-level
    n_cls_after = sum(1 for k in case['class_hooks'] if k == 'after')
    cls_after, meth_after = after[:n_cls_after], after[n_cls_after:]
    return before, meth_after[::-1] + cls_after[::-1]


def ref_trace(case):
    mw = case['mw']
    actions = case['actions']
    state = {'raised': False, 'complete': False, 'reached_faults': 0}
    trace = []

    def call(site, succ=None, res_none=None):
        """One framework->app call; True when the call ended the current phase."""
        trace.append([site, succ, res_none])
        action = actions.get(site, 'return')
        if action == 'return':
            return False
        state['reached_faults'] += 1
        if action == 'complete':
            state['complete'] = True
            return True
        state['raised'] = True
        if action == 'app_error' and case['app_handler'] is not None:
            trace.append(['handler', None, None])
        return True

    failed_req = None
    have_resource = False
    for i, comp in enumerate(mw):
        if comp['req'] is not None and call('req%d' % i):
            if state['raised']:
                failed_req = i
            break
    if not state['raised'] and not state['complete']:
        if case['route'] == 'resource':
            have_resource = True
            for i, comp in enumerate(mw):
                if comp['rsrc'] is not None and call('rsrc%d' % i, None, False):
                    break
        if not state['raised'] and not state['complete']:
            if case['route'] == 'none':
                state['raised'] = True  # default responder raises HTTPRouteNotFound
            elif case['route'] == 'sink':
                call('sink')
            else:
                before, after = hook_chain(case)
                for site in before:
                    call(site, None, False)
                    if state['raised']:
                        break
                if not state['raised']:
                    call('responder')
                for site in after:
                    if state['raised']:
                        break
                    call(site, None, False)
    skipped = 0
    for i in reversed(range(len(mw))):
        if mw[i]['resp'] is None:
            continue
        if not case['independent'] and failed_req is not None and i >= failed_req:
            skipped += 1
            continue
        call('resp%d' % i, not state['raised'], not have_resource)
    return trace, state['reached_faults'], skipped


def ref_lifespan(case):
    calls, events = [], []
    comps = case['comps']
    faults = [tuple(f) for f in case['faults']]
    for phase in case['script']:
        order = range(len(comps)) if phase == 'startup' else reversed(range(len(comps)))
        failed = False
        for i in order:
            if comps[i][phase]:
                calls.append([phase, i])
                if (phase, i) in faults:
                    failed = True
                    break
        events.append('lifespan.%s.%s' % (phase, 'failed' if failed else 'complete'))
        if failed:
            break
    return calls, events


# ----------------------------------------------------------------- system under test


def _perform(action, resp):
    if action == 'return':
        return
    if action == 'complete':
        resp.complete = True
    elif action == 'http_error':
        raise falcon.HTTPForbidden(title='generated fault')
    elif action == 'http_status':
        raise falcon.HTTPStatus(falcon.HTTP_202)
    elif action == 'app_error':
        raise AppError('generated fault')
    elif action == 'plain_error':
        raise HandlerBug('the error handler itself failed')
    elif action == 'attr_error':
        raise AttributeError("'NoneType' object has no attribute 'lookup'")  # an ordinary bug inside the callable
    else:
        raise HarnessError('bad action %r' % (action,))


def _flag(v):
    return v if (v is True or v is False) else repr(v)


def _observe(kind, site, args):
    """args as received by the method (without self)."""
    if kind == 'req':
        return [site, None, None]
    if kind == 'rsrc':
        return [site, None, args[2] is None]
    return [site, _flag(args[3]), args[2] is None]


def _mw_method(kind, site, trace, action, asyn, wrong=False):
    label = ('WRONG-VARIANT:' + site) if wrong else site

    if asyn:
        async def method(self, *args):
            trace.append(_observe(kind, label, args))
            _perform(action, args[1])
    else:
        def method(self, *args):
            trace.append(_observe(kind, label, args))
            _perform(action, args[1])
    return method


def build_components(case, trace):
    asyn = case['stack'] == 'asgi'
    out = []
    for i, comp in enumerate(case['mw']):
        ns = {}
        for kind in KINDS:
            variant = comp[kind]
            if variant is None:
                continue
            site = '%s%d' % (kind, i)
            action = case['actions'].get(site, 'return')
            name = METHOD[kind]
            real = _mw_method(kind, site, trace, action, asyn)
            if variant == 'plain':
                ns[name] = real
            elif variant == 'async':
                if not asyn:
                    raise HarnessError('variant "async" is generated for ASGI only')
                ns[name + '_async'] = real
            elif variant == 'both':
                # the documented dual-stack component: plain = WSGI version, *_async = ASGI version
                other = _mw_method(kind, site, trace, 'return', not asyn, wrong=True)
                if asyn:
                    ns[name + '_async'] = real
                    ns[name] = other
                else:
                    ns[name] = real
                    ns[name + '_async'] = other
            else:
                raise HarnessError('bad variant %r' % (variant,))
        comp = type('Component%d' % i, (object,), ns)()
        if i in (case.get('proxied') or []):
            comp = _Proxy(comp)  # a wrapper that forwards every attribute through __getattr__
        out.append(comp)
    return out


class _Proxy(object):
    """Delegating wrapper (tracing / lazy proxy): has no process_* attributes of its own."""

    def __init__(self, inner):
        object.__setattr__(self, '_inner', inner)

    def __getattr__(self, name):
        return getattr(object.__getattribute__(self, '_inner'), name)


def _hook(kind, site, trace, action, asyn):
    if kind == 'before':
        if asyn:
            async def hook(req, resp, resource, params):
                trace.append([site, None, resource is None])
                _perform(action, resp)
        else:
            def hook(req, resp, resource, params):
                trace.append([site, None, resource is None])
                _perform(action, resp)
    else:
        if asyn:
            async def hook(req, resp, resource):
                trace.append([site, None, resource is None])
                _perform(action, resp)
        else:
            def hook(req, resp, resource):
                trace.append([site, None, resource is None])
                _perform(action, resp)
    return hook


def build_resource(case, trace):
    asyn = case['stack'] == 'asgi'
    actions = case['actions']
    action = actions.get('responder', 'return')
    if asyn:
        async def on_get(self, req, resp):
            trace.append(['responder', None, None])
            _perform(action, resp)
    else:
        def on_get(self, req, resp):
            trace.append(['responder', None, None])
            _perform(action, resp)
    deco = {'before': falcon.before, 'after': falcon.after}
    # decorators are applied bottom-up, exactly as the interpreter applies a written stack
    hooks = case['method_hooks']
    for k in reversed(range(len(hooks))):
        site = 'mhook%d' % k
        on_get = deco[hooks[k]](_hook(hooks[k], site, trace, actions.get(site, 'return'), asyn))(on_get)
    # with a suffix the responder is called on_get_<suffix> (add_route(..., suffix=...)): class-level hooks apply to it
    # just the same, whatever identifier characters the suffix is made of
    name = 'on_%s' % case.get('method', 'GET').lower() + ('_' + case['suffix'] if case.get('suffix') else '')
    cls = type('Resource', (object,), {name: on_get})
    if case.get('inherit'):
        # the responder is inherited: class-level hooks are applied to a subclass that defines nothing itself
        cls = type('ChildResource', (cls,), {})
    hooks = case['class_hooks']
    for k in reversed(range(len(hooks))):
        site = 'chook%d' % k
        cls = deco[hooks[k]](_hook(hooks[k], site, trace, actions.get(site, 'return'), asyn))(cls)
    return cls()


def build_app(case, trace):
    asyn = case['stack'] == 'asgi'
    cls = falcon.asgi.App if asyn else falcon.App
    comps = build_components(case, trace)
    # the stack may be assembled in several steps: constructor argument, then add_middleware() batches
    cuts = sorted(set(c for c in case.get('batches', []) if 0 <= c <= len(comps)))
    if not cuts:
        app = cls(middleware=comps, independent_middleware=case['independent'])
    else:
        first = comps[:cuts[0]]
        app = cls(middleware=first if first else None, independent_middleware=case['independent'])
        bounds = cuts + [len(comps)]
        for a, b in zip(bounds, bounds[1:]):
            batch = comps[a:b]
            if not batch:
                continue
            app.add_middleware(batch[0] if len(batch) == 1 else batch)
    if case.get('suffix'):
        app.add_route('/thing', build_resource(case, trace), suffix=case['suffix'])
    else:
        app.add_route('/thing', build_resource(case, trace))
    sink_action = case['actions'].get('sink', 'return')
    if asyn:
        async def sink(req, resp, **kw):
            trace.append(['sink', None, None])
            _perform(sink_action, resp)
    else:
        def sink(req, resp, **kw):
            trace.append(['sink', None, None])
            _perform(sink_action, resp)
    app.add_sink(sink, '/sink')
    h_action = case['app_handler']
    if h_action is not None:
        if asyn:
            async def handler(req, resp, ex, params):
                trace.append(['handler', None, None])
                _perform(h_action, resp)
        else:
            def handler(req, resp, ex, params):
                trace.append(['handler', None, None])
                _perform(h_action, resp)
        app.add_error_handler(AppError, handler)
    return app


PATHS = {'resource': '/thing', 'none': '/nowhere', 'sink': '/sink/x'}


def run_request_case(case):
    trace = []
    app = build_app(case, trace)
    path = PATHS[case['route']]
    if case['stack'] == 'asgi':
        res = A.call(app, A.build_scope(method=case.get('method', 'GET'), raw_path=path), monitor=False)
        started = res.start is not None
    else:
        res = W.call(app, W.build_environ(method=case.get('method', 'GET'), raw_path=path), monitor=False)
        started = res.status is not None
    expected, reached, skipped = ref_trace(case)
    if case.get('app_handler') == 'plain_error' and any(e[0] == 'handler' for e in expected):
        # the error handler itself fails with an ordinary exception.  What the framework does then is not documented
        # beyond "it is a failure": the exception may escape to the server at once, or be turned into a 5xx while
        # unwinding continues - but it must not be swallowed into a successful response
        cut = [e[0] for e in expected].index('handler') + 1
        if trace != expected[:cut] and trace != expected:
            raise Violation(
                'call_sequence',
                'case=%r\n  recorded: %r\n  documented discipline up to the failing handler: %r (optionally followed by %r)'
                % (case, trace, expected[:cut], expected[cut:]))
        code = (res.code if started else None)
        if not (isinstance(res.error, HandlerBug) or (res.error is None and code is not None and code >= 500)):
            raise Violation('handler_failure_swallowed', 'case=%r: the error handler raised %s; the app neither let it escape nor '
                            'answered 5xx (status %r, escaped %r)' % (case, HandlerBug.__name__, code, res.error))
        return expected, reached, skipped
    if trace != expected:
        raise Violation(
            'call_sequence',
            'case=%r\n  recorded [site, req_succeeded, resource is None]: %r\n  documented discipline:'
            '                              %r%s'
            % (case, trace, expected, ('\n  escaped: %r' % (res.error,)) if res.error is not None else ''))
    if res.error is not None:
        raise Violation('exception_escaped', 'case=%r: %s: %s propagated out of the app callable'
                        % (case, type(res.error).__name__, res.error))
    if not started:
        raise Violation('no_response', 'case=%r: the app returned without starting a response' % (case,))
    return expected, reached, skipped


def request_info(case, expected, reached, skipped):
    n = len(case['mw'])
    labels = [case['stack'], 'independent' if case['independent'] else 'dependent', 'route:' + case['route'],
              'components:%d' % n, 'reached_faults:%d' % min(reached, 3)]
    acts = case['actions']
    seen = set()
    for site, _s, _r in expected:
        a = acts.get(site)
        if a:
            phase = site.rstrip('0123456789')
            seen.add('fault:%s@%s' % (a, phase))
    labels.extend(sorted(seen))
    if any(e[0] == 'handler' for e in expected):
        labels.append('handler_called:' + str(case['app_handler']))
    elif any(acts.get(e[0]) == 'app_error' for e in expected):
        labels.append('app_error_unhandled(500)')
    if skipped:
        labels.append('dependent_resp_skipped')
    if case['class_hooks'] or case['method_hooks']:
        labels.append('hooks')
    if any(v in ('async', 'both') for c in case['mw'] for v in c.values()):
        labels.append('name_variants')
    return Info(n >= 2 and reached >= 1, labels)


def component_sites(mw):
    return ['%s%d' % (k, i) for i, c in enumerate(mw) for k in KINDS if c[k] is not None]


# ----------------------------------------------------------------- suite 1: exhaustive WSGI

SHAPES = [s for s in itertools.product((None, 'plain'), repeat=3) if any(s)]


def _single_faults():
    for a in ('complete', 'http_error', 'http_status'):
        yield a, None
    for h in HANDLER_ACTIONS:
        yield 'app_error', h


def _double_faults():
    for a1 in ACTIONS:
        for a2 in ACTIONS:
            for h in (HANDLER_ACTIONS if 'app_error' in (a1, a2) else (None,)):
                yield a1, a2, h


class ExhaustiveWsgi(Suite):
    """All falcon.App stacks of 0..2 middleware components, each implementing any non-empty subset of
    process_request / process_resource / process_response, x independent_middleware in {True, False} x
    {routed, unrouted} request, with no fault and with every single fault: one call site (a middleware
    method or the responder) x {resp.complete, raise HTTPError, raise HTTPStatus, raise AppError with no
    handler / a handler that returns / raises HTTPError / raises HTTPStatus}.  Thorough adds every double
    fault (two sites x all action pairs).  The recorded call trace must equal the reference interpreter's."""

    name = 'exhaustive_wsgi'
    exhaustive = True
    budget = {'quick': 1, 'thorough': 1}

    def cases(self, tier):
        for n in (0, 1, 2):
            for shapes in itertools.product(SHAPES, repeat=n):
                mw = [dict(zip(KINDS, s)) for s in shapes]
                for independent in (True, False):
                    for route in ('resource', 'none'):
                        base = {'stack': 'wsgi', 'independent': independent, 'route': route, 'mw': mw,
                                'class_hooks': [], 'method_hooks': [], 'app_handler': None, 'actions': {}}
                        sites = component_sites(mw) + (['responder'] if route == 'resource' else [])
                        yield base
                        for s in sites:
                            for a, h in _single_faults():
                                yield dict(base, actions={s: a}, app_handler=h)
                            yield dict(base, actions={s: 'app_error'}, app_handler='plain_error')
                        if tier == 'thorough':
                            for s1, s2 in itertools.combinations(sites, 2):
                                for a1, a2, h in _double_faults():
                                    yield dict(base, actions={s1: a1, s2: a2}, app_handler=h)

    def run(self, case):
        expected, reached, skipped = run_request_case(case)
        return request_info(case, expected, reached, skipped)


class HookSuffixes(Suite):
    """Class-level and method-level hooks on SUFFIXED responders (on_get_<suffix>, routed with suffix=...): suffixes
    made of letters, digits, several underscores and non-ASCII letters x {before, after, before+after} at class level
    x hook action {return, raise HTTPError} x WSGI / ASGI x one middleware component: same reference interpreter."""

    name = 'hook_suffixes'
    exhaustive = True
    budget = {'quick': 1, 'thorough': 1}

    def cases(self, tier):
        mw = [dict(zip(KINDS, ('plain', 'plain', 'plain')))]
        for suffix in ('items', 'v2', 'item_list', 'by_id_2', 'a_b_c', 'd\u00e9tail', '\u0440\u0435\u0441\u0443\u0440\u0441', 'X'):
            for stack in ('wsgi', 'asgi'):
                for ch in (['before'], ['after'], ['before', 'after'], ['after', 'before', 'before']):
                    for mh in ([], ['before']):
                        base = {'stack': stack, 'independent': True, 'route': 'resource', 'mw': mw, 'class_hooks': ch,
                                'method_hooks': mh, 'app_handler': None, 'actions': {}, 'suffix': suffix}
                        yield base
                        yield dict(base, actions={'chook0': 'http_error'})
                        yield dict(base, inherit=True)
        # every HTTP method has responders that hooks apply to - the standard ones, the WebDAV ones, and those a process
        # was started with through FALCON_CUSTOM_HTTP_METHODS (documented; read when falcon is imported)
        custom = sorted(set(m.strip().upper() for m in os.environ.get('FALCON_CUSTOM_HTTP_METHODS', '').split(',') if m.strip()))
        for method in ['POST', 'DELETE', 'PROPFIND', 'VERSION-CONTROL'] + custom:
            for stack in ('wsgi', 'asgi'):
                for ch in (['before'], ['after'], ['before', 'after']):
                    for suffix in (None, 'items'):
                        base = {'stack': stack, 'independent': True, 'route': 'resource', 'mw': mw, 'class_hooks': ch,
                                'method_hooks': ['before'], 'app_handler': None, 'actions': {}, 'suffix': suffix, 'method': method,
                                'env_case': method in custom}
                        yield base
                        yield dict(base, inherit=True)

    def run(self, case):
        expected, reached, skipped = run_request_case(case)
        info = request_info(case, expected, reached, skipped)
        if case.get('method'):
            return Info(True, info.labels + ('method:' + case['method'],))
        return Info(True, info.labels + ('suffix:' + ('ascii_alnum' if case['suffix'].isascii() and case['suffix'].isalnum()
                                                      else 'underscores' if case['suffix'].isascii() else 'non_ascii'),))


# ----------------------------------------------------------------- suite 2: random stacks


@st.composite
def _stack_case(draw):
    stack = draw(st.sampled_from(['wsgi', 'asgi']))
    independent = draw(st.sampled_from([True, False]))
    variants = ['plain', 'plain', 'both'] if stack == 'wsgi' else ['plain', 'async', 'both']
    n = draw(st.sampled_from([0, 1, 2, 2, 3, 3, 4]))
    mw = []
    for _ in range(n):
        shape = draw(st.sampled_from(SHAPES + [('plain', 'plain', 'plain')] * 3))
        mw.append({k: (draw(st.sampled_from(variants)) if s else None) for k, s in zip(KINDS, shape)})
    route = draw(st.sampled_from(['resource', 'resource', 'resource', 'none', 'sink']))
    hooks = {}
    for level in ('class_hooks', 'method_hooks'):
        nb = draw(st.sampled_from([0, 0, 1, 2]))
        na = draw(st.sampled_from([0, 0, 1, 2]))
        hooks[level] = list(draw(st.permutations(['before'] * nb + ['after'] * na)))
    sites = component_sites(mw)
    if route == 'resource':
        sites += ['chook%d' % k for k in range(len(hooks['class_hooks']))]
        sites += ['mhook%d' % k for k in range(len(hooks['method_hooks']))]
        sites.append('responder')
    elif route == 'sink':
        sites.append('sink')
    nf = min(len(sites), draw(st.sampled_from([0, 1, 1, 2, 2, 2, 3, 3])))
    chosen = draw(st.lists(st.sampled_from(sites), min_size=nf, max_size=nf, unique=True)) if nf else []
    actions = {s: draw(st.sampled_from(ACTIONS + ('attr_error', 'app_error'))) for s in chosen}
    return {
        'stack': stack,
        'independent': independent,
        'route': route,
        'mw': mw,
        'class_hooks': hooks['class_hooks'],
        'method_hooks': hooks['method_hooks'],
        'app_handler': draw(st.sampled_from(HANDLER_ACTIONS + ('plain_error',))),
        'actions': actions,
        'batches': draw(st.one_of(st.just([]), st.just([]), st.lists(st.integers(0, 4), min_size=1, max_size=3))),
        'proxied': draw(st.one_of(st.just([]), st.just([]), st.lists(st.integers(0, 3), max_size=2, unique=True))),
        'inherit': draw(st.sampled_from([False, False, True])),
        'suffix': draw(st.sampled_from([None, None, None, 'items', 'item_list', 'by_id2', 'd\u00e9tail'])),
    }


class RandomStacks(Suite):
    """Random stacks on falcon.App and falcon.asgi.App: 0..4 components, each method in its plain,
    *_async or dual (plain + *_async, the wrong one is a trap that records itself) variant, 0..2 before and
    0..2 after hooks at class level and at method level in arbitrary decorator order, routed / unrouted /
    sink request, both independent_middleware settings, 0..3 faults anywhere (middleware methods including
    process_response, hooks, responder, sink) and an AppError handler that is absent, returns, or itself
    raises HTTPError / HTTPStatus."""

    name = 'random_stacks'
    budget = {'quick': 8000, 'thorough': 150000}

    def strategy(self, tier):
        return _stack_case()

    def run(self, case):
        expected, reached, skipped = run_request_case(case)
        return request_info(case, expected, reached, skipped)


# ----------------------------------------------------------------- suite 3: ASGI lifespan


class _ScriptEnd(Exception):
    """The scripted server has no further lifespan event for the app."""


def drive_lifespan(app, script):
    """A tiny ASGI lifespan server: feeds the scripted events, records what the app sends."""
    sent = []
    pos = [0]
    scope = {'type': 'lifespan', 'asgi': {'version': '3.0', 'spec_version': '2.0'}}

    async def receive():
        if pos[0] >= len(script):
            raise _ScriptEnd()
        ev = {'type': 'lifespan.' + script[pos[0]]}
        pos[0] += 1
        return ev

    async def send(event):
        sent.append(event)

    async def main():
        try:
            await app(scope, receive, send)
        except _ScriptEnd:
            return None
        except Exception as e:  # noqa
            return e
        return None

    return sent, A.run(main())


def run_lifespan_case(case):
    """One app object, one or more lifespan cycles (every `async with` of a test conductor, every restart of an
    in-process server runs a fresh lifespan scope against the same app): each cycle is judged on its own."""
    calls = []
    cycles = case.get('cycles') or [{'script': case['script'], 'faults': case['faults']}]
    current = {'faults': {}}

    def handler(phase, i):
        async def method(self, scope, event):
            ok = isinstance(scope, dict) and scope.get('type') == 'lifespan' and \
                isinstance(event, dict) and event.get('type') == 'lifespan.' + phase
            calls.append([phase, i] if ok else [phase, i, 'bad arguments', repr(scope), repr(event)])
            fault = current['faults'].get((phase, i))
            if fault == 'app_error':
                raise AppError('generated lifespan fault')
            if fault == 'http_error':
                raise falcon.HTTPServiceUnavailable()
            if fault == 'attribute_error':
                # a bug inside the handler (self.pool is None ...): a failure like any other
                raise AttributeError("'NoneType' object has no attribute 'connect'")
        return method

    comps = []
    for i, c in enumerate(case['comps']):
        ns = {}
        for phase in ('startup', 'shutdown'):
            if c[phase]:
                ns['process_' + phase] = handler(phase, i)
        if c['http']:
            async def process_request(self, req, resp, _i=i):
                calls.append(['process_request', _i])
            ns['process_request'] = process_request
        comps.append(type('Lifespan%d' % i, (object,), ns)())
    app = falcon.asgi.App(middleware=comps)
    n_handlers = sum(1 for c in case['comps'] if c['startup'] or c['shutdown'])
    labels = ['components:%d' % len(case['comps']), 'cycles:%d' % len(cycles)]
    any_failed = False
    failed_before = False
    after_failure = False
    for k, cyc in enumerate(cycles):
        del calls[:]
        current['faults'] = {(f[0], f[1]): f[2] for f in cyc['faults']}
        sent, error = drive_lifespan(app, cyc['script'])
        exp_calls, exp_events = ref_lifespan({'comps': case['comps'], 'script': cyc['script'],
                                              'faults': [f[:2] for f in cyc['faults']]})
        got_events = [e.get('type') if isinstance(e, dict) else repr(e) for e in sent]
        if calls != exp_calls or got_events != exp_events or error is not None:
            raise Violation(
                'lifespan_sequence',
                'case=%r\n  lifespan cycle %d of the same app object\n  handler calls: %r\n  documented:    %r\n  events sent: %r\n'
                '  documented:  %r%s'
                % (case, k, calls, exp_calls, got_events, exp_events,
                   ('\n  escaped: %r' % (error,)) if error is not None else ''))
        failed = any(e.endswith('.failed') for e in exp_events)
        if failed_before and exp_calls:
            after_failure = True
        failed_before = failed_before or failed
        any_failed = any_failed or failed
        labels.append('script:' + '+'.join(cyc['script']))
        labels.extend(exp_events)
        if not exp_calls:
            labels.append('no_handler_called')
    if after_failure:
        labels.append('cycle_after_failed_cycle')
    return Info(n_handlers >= 2 and any_failed, sorted(set(labels)))


LIFESPAN_SHAPES = [(su, sd) for su in (False, True) for sd in (False, True)]


class LifespanEnum(Suite):
    """falcon.asgi.App with 0..3 components implementing any subset of process_startup / process_shutdown
    (components with neither implement process_request), no fault or exactly one raising handler (AppError
    or an HTTPError), driven with a lifespan scope and the scripted events lifespan.startup,
    lifespan.shutdown: handlers must run in list order on startup and in reverse on shutdown, the first
    failure must produce the matching lifespan.*.failed event and end all handler calls."""

    name = 'lifespan_enum'
    exhaustive = True
    budget = {'quick': 1, 'thorough': 1}
    max_shards = 4

    def cases(self, tier):
        for n in (0, 1, 2, 3):
            for shapes in itertools.product(LIFESPAN_SHAPES, repeat=n):
                comps = [{'startup': su, 'shutdown': sd, 'http': not (su or sd)} for su, sd in shapes]
                sites = [(p, i) for i, c in enumerate(comps) for p in ('startup', 'shutdown') if c[p]]
                for script in (['startup', 'shutdown'], ['startup']):
                    yield {'comps': comps, 'script': script, 'faults': []}
                    for p, i in sites:
                        for kind in ('app_error', 'http_error', 'attribute_error'):
                            yield {'comps': comps, 'script': script, 'faults': [[p, i, kind]]}
                # the same app through a second / third lifespan cycle: a cycle that failed (at any site) or stopped after
                # startup must not change what the next, clean cycle does
                full = ['startup', 'shutdown']
                if n >= 1:
                    yield {'comps': comps, 'cycles': [{'script': full, 'faults': []}, {'script': full, 'faults': []}]}
                    yield {'comps': comps, 'cycles': [{'script': ['startup'], 'faults': []}, {'script': full, 'faults': []}]}
                    for p, i in sites:
                        yield {'comps': comps, 'cycles': [{'script': full, 'faults': [[p, i, 'app_error']]},
                                                          {'script': full, 'faults': []}]}
                        yield {'comps': comps, 'cycles': [{'script': full, 'faults': [[p, i, 'http_error']]},
                                                          {'script': full, 'faults': [[p, i, 'app_error']]},
                                                          {'script': full, 'faults': []}]}

    def run(self, case):
        return run_lifespan_case(case)


@st.composite
def _lifespan_case(draw):
    n = draw(st.integers(0, 6))
    comps = []
    for _ in range(n):
        su, sd = draw(st.sampled_from(LIFESPAN_SHAPES + [(True, True)] * 2))
        comps.append({'startup': su, 'shutdown': sd, 'http': (not (su or sd)) or draw(st.booleans())})
    sites = [(p, i) for i, c in enumerate(comps) for p in ('startup', 'shutdown') if c[p]]
    nf = min(len(sites), draw(st.sampled_from([0, 1, 1, 2, 3])))
    chosen = draw(st.lists(st.sampled_from(sites), min_size=nf, max_size=nf, unique=True)) if nf else []
    faults = [[p, i, draw(st.sampled_from(['app_error', 'http_error', 'attribute_error']))] for p, i in chosen]
    script = draw(st.sampled_from([['startup', 'shutdown'], ['startup', 'shutdown'], ['startup']]))
    if draw(st.integers(0, 2)) == 0:
        return {'comps': comps, 'script': script, 'faults': faults}
    cycles = [{'script': script, 'faults': faults}]
    for _ in range(draw(st.integers(1, 3))):
        nf = min(len(sites), draw(st.sampled_from([0, 0, 1, 2])))
        chosen = draw(st.lists(st.sampled_from(sites), min_size=nf, max_size=nf, unique=True)) if nf else []
        cycles.append({'script': draw(st.sampled_from([['startup', 'shutdown'], ['startup', 'shutdown'], ['startup']])),
                       'faults': [[p, i, draw(st.sampled_from(['app_error', 'http_error']))] for p, i in chosen]})
    return {'comps': comps, 'cycles': cycles}


class LifespanRandom(Suite):
    """Random lifespan stacks of 0..6 components (lifespan handlers mixed with request middleware), 0..3
    raising handlers, startup+shutdown or startup-only scripts; same oracle as lifespan_enum."""

    name = 'lifespan_random'
    budget = {'quick': 1500, 'thorough': 20000}
    max_shards = 4

    def strategy(self, tier):
        return _lifespan_case()

    def run(self, case):
        return run_lifespan_case(case)


class TallStacks(Suite):
    """Counts beyond the moderate range: stacks of 8-300 middleware components (around 32, 64, 128, 256; every component
    with all three methods, or cycling through the seven method subsets), on falcon.App and falcon.asgi.App, both
    independent_middleware settings, routed and unrouted, without a fault and with a fault raised by one of the LAST
    process_request methods, by the responder, or by a process_response in the middle of the unwinding.  Same reference
    interpreter: every component's methods run exactly once, in stack order / reverse stack order."""

    name = 'tall_stacks'
    exhaustive = True
    budget = {'quick': 1, 'thorough': 1}

    def cases(self, tier):
        sizes = (8, 31, 32, 33, 63, 64, 65, 66, 100, 127, 128, 129, 257, 300)
        for n in (sizes if tier != 'quick' else (8, 33, 64, 65, 66, 129, 300)):
            for stack in ('wsgi', 'asgi'):
                for independent in (True, False):
                    for pattern in ('full', 'cycle'):
                        for fault in (None, 'late_request', 'responder', 'mid_response', 'unrouted'):
                            yield {'stack': stack, 'independent': independent, 'n': n, 'pattern': pattern, 'fault': fault}

    def run(self, case):
        n = case['n']
        if case['pattern'] == 'full':
            mw = [dict(zip(KINDS, ('plain', 'plain', 'plain'))) for _ in range(n)]
        else:
            mw = [dict(zip(KINDS, SHAPES[i % len(SHAPES)])) for i in range(n)]
        actions, handler = {}, None
        fault = case['fault']
        if fault == 'late_request':
            site = [s for s in component_sites(mw) if s.startswith('req')][-2]
            actions = {site: 'http_error'}
        elif fault == 'responder':
            actions, handler = {'responder': 'app_error'}, 'return'
        elif fault == 'mid_response':
            sites = [s for s in component_sites(mw) if s.startswith('resp')]
            actions = {sites[len(sites) // 2]: 'http_status'}
        full = {'stack': case['stack'], 'independent': case['independent'], 'route': 'none' if fault == 'unrouted' else 'resource', 'mw': mw,
                'class_hooks': [], 'method_hooks': [], 'app_handler': handler, 'actions': actions}
        try:
            expected, reached, skipped = run_request_case(full)
        except Violation as v:
            d = v.detail
            raise Violation(v.kind, '%s ... %s\n  compact case=%r' % (d[:600], d[-300:], case))
        return Info(True, [case['stack'], 'independent' if case['independent'] else 'dependent', 'n:%s' % ('<=64' if n <= 64 else '<=128' if n <= 128 else '>128'),
                           'fault:%s' % fault])



SUITES = [ExhaustiveWsgi(), HookSuffixes(), RandomStacks(), TallStacks(), LifespanEnum(), LifespanRandom()]
KNOWN = {}
