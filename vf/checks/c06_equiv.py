"""C06 — WSGI, ASGI and the test client are observationally equivalent.

A case is one *logical HTTP request* (method, raw request path, ASCII query string, header list as
on the wire, body bytes + chunking, scheme / server / client / root_path / HTTP version), three
request options and one *logical responder* (what to read from the request body, which response to
build or which error / status / redirect to raise).  The same description is rendered twice: as a
``falcon.App`` with sync responders and as a ``falcon.asgi.App`` with async responders that run the
same code.

Three differential oracles (no expectation is computed by calling falcon):

1. the request is delivered through the minimal PEP 3333 driver and the minimal ASGI driver; inside
   the responder a *digest* of the request (about 50 attributes, header / cookie / param getters,
   body, media) is computed; the WSGI digest must equal the ASGI digest;
2. the normalised response triples (status code, multiset of lower-cased headers, body) are equal;
3. on each stack ``falcon.testing.simulate_request`` must produce the same digest and the same
   response as the minimal driver (sub-domain that the client's documented arguments can express).
"""
import calendar
import datetime as _dt
import decimal
import http
import io
import json
import re
import uuid
import warnings

from hypothesis import strategies as st

import falcon
import falcon.asgi
import falcon.testing
from falcon.testing import helpers as _fth

from vf.core import HarnessError, Info, Suite, Violation
from vf.drivers import asgi as A
from vf.drivers import wsgi as W
from vf.gen import c09_http as g

LEVEL = 'exploration'
RULE = (
    'a case = one logical request (method, raw path built from path characters and percent-escapes incl. multi-byte '
    'UTF-8, truncated / invalid sequences, %2F, %00; ASCII query string; header list with arbitrary name casing, '
    'repeated non-singleton headers and grammar-generated typed header values, 40 % of them single-edit mutated; body '
    'with a chunking; scheme/server/client/root_path; 3 request options) plus one responder description, executed on '
    'falcon.App and falcon.asgi.App (and, in the client suite, through falcon.testing.simulate_request on both); '
    'non-trivial = the path contains a non-ASCII, invalid or reserved escape, or a header is repeated or sent in '
    'non-canonical letter casing, or an accessor raised (HTTPError or other) on both sides, or the responder raised '
    'an error / status / redirect; distinct = distinct case fingerprint'
)
ASSUMPTIONS = [
    'the query string is ASCII (percent-encoded): raw non-ASCII bytes are outside both the ASGI spec ("percent-encoded") '
    'and RFC 3986',
    'only non-singleton headers are repeated (falcon.constants.SINGLETON_HEADERS are documented last-wins on ASGI while '
    'CGI-style servers join them); header names are tokens without "_" (WSGI conflates "_" and "-")',
    'header values are stripped field-values over HTAB, SP, VCHAR, obs-text (latin-1), no other controls; '
    'Content-Length values are ASCII (a server rejects anything else before the app runs; note int() of a latin-1 str '
    'accepts NBSP-padded digits where int() of bytes does not)',
    'a non-empty body is always announced by an exact decimal Content-Length (without it WSGI cannot read a body at '
    'all; ASGI reads all events) and an invalid or mismatching Content-Length only occurs with an empty body; with an '
    'invalid Content-Length the raw stream is not read (WSGI bounded_stream documents "assume no content", the ASGI '
    'stream property re-raises the 400)',
    'req.env, req.scope, req.stream identity, log_error, req.context are not compared; req.headers is compared after '
    'lower-casing the names (documented difference)',
    'ASGI scope client None / omitted corresponds to a WSGI environ without REMOTE_ADDR (both documented to default to '
    '127.0.0.1); ASGI server is always a (host, port) TCP pair',
    'the path handed to both stacks is the app-relative path (PATH_INFO / scope path, with SCRIPT_NAME / root_path next to '
    'it); a quarter of the requests with a root_path have a path that itself begins with the root_path text',
    'test-client sub-domain: explicit User-Agent, Host equal to host[:port] conveyed through host=/port= (absent with '
    'http_version 1.0), upper-case method, Content-Length synthesised by the client for a non-empty body and otherwise '
    'absent or decimal, raw path starting with "/", query string not starting with "?", header values without '
    'leading / trailing NBSP or NEL (the client strips them with str.strip()); response headers are compared as the client exposes them '
    '(case-insensitive dict + cookie names); a wsgiref.validate assertion about the *response* (C05 territory) makes '
    'the WSGI client comparison inconclusive for that case',
    'falcon.testing.ASGIRequestEventEmitter._branch_decider (class-level toggle state of the test helper) is reset '
    'before every simulated request so that a case is a pure function of its data',
]

_UTC = _dt.timezone.utc

# ======================================================================== observable value -> plain data


def status_code_of(exc):
    s = exc.status
    if isinstance(s, int):
        return int(s)
    return int(str(s)[:3])


def plain(v):
    if isinstance(v, falcon.ETag):
        return {'$etag': str(v), 'weak': bool(v.is_weak)}
    if isinstance(v, falcon.Forwarded):
        return {'$fwd': [v.src, v.dest, v.host, v.scheme]}
    if isinstance(v, _dt.datetime):
        off = v.utcoffset()
        return {'$dt': v.replace(tzinfo=None).isoformat(), 'off': None if off is None else off.total_seconds()}
    if isinstance(v, _dt.date):
        return {'$date': v.isoformat()}
    if isinstance(v, uuid.UUID):
        return {'$uuid': str(v)}
    if isinstance(v, dict) and len(v) == 1 and ('$form' in v or '$part' in v):
        k = next(iter(v))
        return {k: [plain(x) for x in v[k]]}
    if isinstance(v, tuple):
        return {'$tuple': [plain(x) for x in v]}
    if isinstance(v, list):
        return [plain(x) for x in v]
    if isinstance(v, (bytes, bytearray)):
        return bytes(v)
    if v is None or type(v) in (bool, int, str):
        return v
    if type(v) is float:
        return v if v == v else {'$float': 'nan'}
    if isinstance(v, decimal.Decimal):
        return {'$decimal': str(v)}
    if hasattr(v, 'items'):
        return {'$map': {str(k): plain(x) for k, x in v.items()}}
    return {'$unexpected_type': type(v).__name__, 'repr': repr(v)}


def same(a, b):
    """Strict structural equality (1 != True, 1 != 1.0)."""
    if type(a) is not type(b):
        return False
    if isinstance(a, list):
        return len(a) == len(b) and all(same(x, y) for x, y in zip(a, b))
    if isinstance(a, dict):
        return a.keys() == b.keys() and all(same(a[k], b[k]) for k in a)
    return a == b


def grab(fn):
    try:
        v = fn()
    except falcon.HTTPError as e:
        return {'$HTTPError': [status_code_of(e), e.title, e.description]}
    except Exception as e:  # the *difference* between the stacks is the verdict, not the exception
        return {'$raised': type(e).__name__}
    return plain(v)


# ======================================================================== the digest (runs inside the responder)

ATTRS = [
    'method', 'path', 'query_string', 'uri_template', 'is_websocket',
    'content_type', 'content_length', 'accept', 'user_agent', 'auth', 'expect', 'if_range', 'referer',
    'client_accepts_json', 'client_accepts_msgpack', 'client_accepts_xml',
    'date', 'if_match', 'if_none_match', 'if_modified_since', 'if_unmodified_since', 'range', 'range_unit',
    'scheme', 'root_path', 'app', 'host', 'port', 'netloc', 'subdomain',
    'forwarded', 'forwarded_scheme', 'forwarded_host', 'forwarded_uri', 'forwarded_prefix',
    'uri', 'url', 'relative_uri', 'prefix',
    'remote_addr', 'access_route',
    'params', 'cookies',
]
MEDIA_TYPES = ['application/json', 'application/xml', 'text/html', 'image/png', 'text/plain; charset=utf-8',
               'application/x-msgpack']
ABSENT = 'X-Vf-Absent'


def _title(name):
    return '-'.join(p[:1].upper() + p[1:].lower() for p in name.split('-'))


def header_probe_names(case):
    seen = []
    for name, _ in case['headers']:
        if name.lower() not in [s.lower() for s in seen]:
            seen.append(name)
    return seen[:6]


def common_digest(req, case, kw):
    d = {}
    with warnings.catch_warnings():
        warnings.simplefilter('ignore')
        for a in ATTRS:
            d[a] = grab(lambda: getattr(req, a))
        d['route_params'] = plain(kw)
        d['headers(lowered)'] = grab(lambda: {k.lower(): v for k, v in req.headers.items()})
        d['headers_lower'] = grab(lambda: dict(req.headers_lower))
        for name in header_probe_names(case):
            for variant in (name, name.lower(), name.upper(), _title(name)):
                d['get_header(%r)' % variant] = grab(lambda: req.get_header(variant))
            low = name.lower()
            d['get_header_as_int(%r)' % low] = grab(lambda: req.get_header_as_int(low))
            d['get_header_as_datetime(%r)' % low] = grab(lambda: req.get_header_as_datetime(low))
            d['get_header_as_datetime(%r, obs_date)' % low] = grab(
                lambda: req.get_header_as_datetime(low, obs_date=True))
        d['get_header(absent)'] = grab(lambda: req.get_header(ABSENT))
        d['get_header(absent, default)'] = grab(lambda: req.get_header(ABSENT, default='dflt'))
        d['get_header(absent, required)'] = grab(lambda: req.get_header(ABSENT, required=True))
        d['get_header_as_int(absent, required)'] = grab(lambda: req.get_header_as_int(ABSENT, required=True))
        for mt in MEDIA_TYPES:
            d['client_accepts(%r)' % mt] = grab(lambda: req.client_accepts(mt))
        d['client_prefers(xml,json)'] = grab(lambda: req.client_prefers(['application/xml', 'application/json']))
        d['client_prefers(html,plain)'] = grab(lambda: req.client_prefers(['text/html', 'text/plain']))
        try:
            cnames = sorted(req.cookies)[:4]
        except Exception:
            cnames = []
        for cn in cnames + ['vf-nope']:
            d['get_cookie_values(%r)' % cn] = grab(lambda: req.get_cookie_values(cn))
        try:
            pnames = sorted(req.params)[:4]
        except Exception:
            pnames = []
        for pn in pnames + ['vf-nope']:
            d['get_param(%r)' % pn] = grab(lambda: req.get_param(pn))
            d['has_param(%r)' % pn] = grab(lambda: req.has_param(pn))
            d['get_param_as_int(%r)' % pn] = grab(lambda: req.get_param_as_int(pn))
            d['get_param_as_float(%r)' % pn] = grab(lambda: req.get_param_as_float(pn))
            d['get_param_as_bool(%r)' % pn] = grab(lambda: req.get_param_as_bool(pn))
            d['get_param_as_list(%r)' % pn] = grab(lambda: req.get_param_as_list(pn))
            d['get_param_as_uuid(%r)' % pn] = grab(lambda: req.get_param_as_uuid(pn))
            d['get_param_as_datetime(%r)' % pn] = grab(lambda: req.get_param_as_datetime(pn))
            d['get_param_as_date(%r)' % pn] = grab(lambda: req.get_param_as_date(pn))
            d['get_param_as_json(%r)' % pn] = grab(lambda: req.get_param_as_json(pn))
        d['get_param(required)'] = grab(lambda: req.get_param('vf-nope', required=True))
    return d


def body_steps(case):
    """The list of body operations the responder performs (a function of the case only)."""
    return list(case['read'])


def body_digest_sync(req, case, d):
    for i, op in enumerate(body_steps(case)):
        key = 'body[%d]:%s' % (i, op)
        if op == 'read':
            d[key] = grab(lambda: req.bounded_stream.read())
        elif op == 'read3':
            d[key] = grab(lambda: req.bounded_stream.read(3))
        elif op == 'media':
            d[key] = grab(lambda: _consume_sync(req.get_media()))
        elif op == 'media_default':
            d[key] = grab(lambda: _consume_sync(req.get_media(default_when_empty='vf-default')))
        elif op == 'exhaust':
            d[key] = grab(lambda: req.bounded_stream.exhaust())
        elif op == 'eof':
            d[key] = grab(lambda: bool(req.bounded_stream.eof))
        elif op == 'read70000':
            d[key] = grab(lambda: len(req.bounded_stream.read(70000)))
        else:
            raise HarnessError('unknown body op %r' % (op,))


def _part(p, data):
    return {'$part': [p.name, p.filename, p.content_type, data]}


def _consume_sync(media):
    """A multipart form is a lazy iterator over the stream: drain it so that it becomes comparable data."""
    if type(media).__name__ == 'MultipartForm' and hasattr(media, '__iter__'):
        return {'$form': [_part(p, p.get_data()) for p in media]}
    return media


async def _consume_async(media):
    if type(media).__name__ == 'MultipartForm' and hasattr(media, '__aiter__'):
        out = []
        async for p in media:
            out.append(_part(p, await p.get_data()))
        return {'$form': out}
    return media


async def _media_async(req, kw):
    return await _consume_async(await req.get_media(**kw))


async def body_digest_async(req, case, d):
    async def agrab(coro_fn):
        try:
            v = await coro_fn()
        except falcon.HTTPError as e:
            return {'$HTTPError': [status_code_of(e), e.title, e.description]}
        except Exception as e:
            return {'$raised': type(e).__name__}
        return plain(v)

    for i, op in enumerate(body_steps(case)):
        key = 'body[%d]:%s' % (i, op)
        if op == 'read':
            d[key] = await agrab(lambda: req.bounded_stream.read())
        elif op == 'read3':
            d[key] = await agrab(lambda: req.bounded_stream.read(3))
        elif op == 'media':
            d[key] = await agrab(lambda: _media_async(req, {}))
        elif op == 'media_default':
            d[key] = await agrab(lambda: _media_async(req, {'default_when_empty': 'vf-default'}))
        elif op == 'exhaust':
            d[key] = await agrab(lambda: req.bounded_stream.exhaust())
        elif op == 'eof':
            async def _eof():
                return bool(req.bounded_stream.eof)
            d[key] = await agrab(_eof)
        elif op == 'read70000':
            async def _r7():
                return len(await req.bounded_stream.read(70000))
            d[key] = await agrab(_r7)
        else:
            raise HarnessError('unknown body op %r' % (op,))


# ======================================================================== the logical responder


class GenericAppError(Exception):
    """An application exception no handler is registered for."""


class HandledAppError(Exception):
    """An application exception whose registered handler answers 409 with the JSON document carried in the message."""


def _handled_sync(req, resp, ex, params):
    resp.status = 409
    resp.media = json.loads(str(ex))


async def _handled_async(req, resp, ex, params):
    resp.status = 409
    resp.media = json.loads(str(ex))


def _dt_of(fields):
    return _dt.datetime(*fields, tzinfo=_UTC)


def _status_value(s):
    if isinstance(s, list):  # ['HTTPStatus', 404]
        return http.HTTPStatus(s[1])
    return s


async def _achunks(chunks):
    for c in chunks:
        yield c


def apply_response(resp, rd):
    """Shared by the sync and the async rendering: Response's mutators are synchronous on both."""
    if rd['status'] is not None:
        resp.status = _status_value(rd['status'])
    for name, value in rd['set']:
        resp.set_header(name, value)
    for name, value in rd['append']:
        resp.append_header(name, value)
    if rd['ctype'] is not None:
        resp.content_type = rd['ctype']
    for c in rd['cookies']:
        resp.set_cookie(c['name'], c['value'], max_age=c['max_age'], domain=c['domain'], path=c['path'],
                        secure=c['secure'], http_only=c['http_only'], same_site=c['same_site'])
    for name in rd['unset']:
        resp.unset_cookie(name)
    for prop, value in rd['props']:
        if prop in ('last_modified', 'expires'):
            value = _dt_of(value)
        elif prop == 'content_range':
            value = tuple(value)
        elif prop == 'link':
            resp.append_link(value[0], value[1])
            continue
        setattr(resp, prop, value)
    kind, value = rd['body']
    if kind == 'text':
        resp.text = value
    elif kind == 'data':
        resp.data = value
    elif kind == 'media':
        resp.media = value
    elif kind == 'stream':
        # a streamed body: a plain iterable on WSGI, its async twin on ASGI (same chunks)
        if isinstance(resp, falcon.asgi.Response):
            resp.stream = _achunks([bytes(c) for c in value])
        else:
            resp.stream = iter([bytes(c) for c in value])
    elif kind == 'multi':
        # several body sources at once (incl. empty text / data): both stacks must pick the same one
        for k2, v2 in value:
            setattr(resp, k2, v2)
    r = rd['raise']
    if r is None:
        return
    what = r[0]
    if what == 'error':
        cls = getattr(falcon, r[1])
        raise cls(*r[2], **r[3])
    if what == 'status':
        raise falcon.HTTPStatus(_status_value(r[1]), headers=r[2], text=r[3])
    if what == 'redirect':
        raise getattr(falcon, r[1])(r[2], headers=r[3])
    if what == 'generic':
        raise GenericAppError('vf generated application error')
    if what == 'handled':
        raise HandledAppError(json.dumps(r[1]))
    raise HarnessError('unknown raise spec %r' % (r,))


# ======================================================================== the two renderings

ROUTES = ['/', '/r/{name}', '/r/{name}/{n:int}']
RESOURCE_METHODS = ['GET', 'HEAD', 'POST', 'PUT', 'PATCH', 'DELETE']  # others -> 405, OPTIONS -> automatic responder
SINK_PREFIX = r'/s/(?P<rest>.*)'


class Holder(object):
    """Per-stack mailbox between the runner and the responders of a cached app."""

    def __init__(self):
        self.case = None
        self.digests = []
        self.harness = None
        self.api_exc = None

    def reset(self, case):
        self.case = case
        self.digests = []
        self.harness = None
        self.api_exc = None


def _respond(holder, resp):
    try:
        apply_response(resp, holder.case['resp'])
    except (falcon.HTTPError, falcon.HTTPStatus, GenericAppError, HandledAppError):
        raise
    except HarnessError as e:
        holder.harness = e
        raise
    except Exception as e:  # a Response mutator refused the generated value: same code on both stacks -> 500 on both
        holder.api_exc = type(e).__name__
        raise


def _make_sync(holder):
    def handle(req, resp, kw):
        try:
            d = common_digest(req, holder.case, kw)
            body_digest_sync(req, holder.case, d)
        except BaseException as e:  # a bug of this harness must not be turned into a 500 by falcon
            holder.harness = e
            raise
        holder.digests.append(d)
        pre = holder.case['resp'].get('prerender')
        if pre is not None:
            # a body prepared and rendered early (as a digest / ETag hook would), then withdrawn again
            resp.media = pre[0]
            resp.render_body()
            if len(pre) < 2 or pre[1] != 'keep':
                resp.media = None
        _respond(holder, resp)

    def responder(self, req, resp, **kw):
        handle(req, resp, kw)

    def sink(req, resp, **kw):
        handle(req, resp, kw)

    return responder, sink


def _make_async(holder):
    async def handle(req, resp, kw):
        try:
            d = common_digest(req, holder.case, kw)
            await body_digest_async(req, holder.case, d)
        except BaseException as e:
            holder.harness = e
            raise
        holder.digests.append(d)
        pre = holder.case['resp'].get('prerender')
        if pre is not None:
            resp.media = pre[0]
            await resp.render_body()
            if len(pre) < 2 or pre[1] != 'keep':
                resp.media = None
        _respond(holder, resp)

    async def responder(self, req, resp, **kw):
        await handle(req, resp, kw)

    async def sink(req, resp, **kw):
        await handle(req, resp, kw)

    return responder, sink


def build_app(asgi, opts):
    holder = Holder()
    responder, sink = (_make_async if asgi else _make_sync)(holder)
    res = type('Res', (), {'on_' + m.lower(): responder for m in RESOURCE_METHODS})()
    app = (falcon.asgi.App if asgi else falcon.App)()
    app.req_options.strip_url_path_trailing_slash = opts[0]
    app.req_options.keep_blank_qs_values = opts[1]
    app.req_options.auto_parse_qs_csv = opts[2]
    for t in ROUTES:
        app.add_route(t, res)
    app.add_sink(sink, SINK_PREFIX)
    app.add_sink(sink, '/x')
    app.add_error_handler(HandledAppError, _handled_async if asgi else _handled_sync)
    return app, holder


_APPS = {}


def apps_for(case):
    """Apps are immutable after construction; the per-case state lives in the holder, reset per case."""
    o = case['opts']
    key = (bool(o['strip']), bool(o['keep_blank']), bool(o['csv']))
    if key not in _APPS:
        _APPS[key] = (build_app(False, key), build_app(True, key))
    (wapp, wh), (aapp, ah) = _APPS[key]
    wh.reset(case)
    ah.reset(case)
    return wapp, wh, aapp, ah


# ======================================================================== deliveries


def default_port(scheme):
    return 443 if scheme == 'https' else 80


def canonical_host(case):
    host, port = case['server']
    return host if port == default_port(case['scheme']) else '%s:%d' % (host, port)


def wire_headers(case):
    """Header list of the logical request; the client suite keeps Host implicit in the case."""
    hs = [(n, v) for n, v in case['headers']]
    if case.get('host_from_server') and case['http_version'] != '1.0':
        hs.append(('Host', canonical_host(case)))
    return hs


def _finish(stack, res, holder):
    if holder.harness is not None:
        e = holder.harness
        raise HarnessError('%s: responder harness raised %s: %s' % (stack, type(e).__name__, e))
    if res.error is not None:
        raise res.error  # escaped from falcon: classified by the runner (internal_error when raised in falcon)
    return res


def via_wsgi_driver(app, holder, case):
    client = case['client']
    env = W.build_environ(
        method=case['method'], raw_path=case['raw_path'], query=case['query'], headers=wire_headers(case),
        scheme=case['scheme'], server=tuple(case['server']),
        client=tuple(client) if isinstance(client, list) else ('0.0.0.0', 0),
        root_path=case['root_path'], http_version=case['http_version'],
        input_obj=W.Input(case['body']))  # wsgi.input.read(n) blocks until n bytes or EOF: the chunking is ASGI's
    if not isinstance(client, list):
        del env['REMOTE_ADDR']
        del env['REMOTE_PORT']
    res = _finish('wsgi', W.call(app, env), holder)
    return Obs(res.code, [(k.lower(), v) for k, v in res.headers], res.body, holder.digests, holder.api_exc)


def via_asgi_driver(app, holder, case):
    client = case['client']
    if isinstance(client, list):
        c = tuple(client)
    elif client == 'omit':
        c = A.OMIT
    else:
        c = None
    scope = A.build_scope(
        method=case['method'], raw_path=case['raw_path'], query=case['query'], headers=wire_headers(case),
        scheme=case['scheme'], server=tuple(case['server']), client=c, root_path=case['root_path'],
        http_version=case['http_version'])
    res = _finish('asgi', A.call(app, scope, A.body_events(case['body'], case['chunks'] or None)), holder)
    return Obs(res.code, [(k.lower(), v) for k, v in res.headers], res.body, holder.digests, holder.api_exc)


class ClientInconclusive(Exception):
    pass


def client_kwargs(case, stack, headers=None):
    """The documented simulate_request arguments for a logical request (headers: override of the header list)."""
    headers = [(n, v) for n, v in (case['headers'] if headers is None else headers)]
    body = case['body']
    if body:
        headers = [(n, v) for n, v in headers if n.lower() != 'content-length']
    client = case['client']
    kwargs = dict(
        method=case['method'], path=case['raw_path'], query_string=case['query'], headers=headers,
        body=body if body else None, protocol=case['scheme'], host=case['server'][0], port=case['server'][1],
        remote_addr=client[0] if isinstance(client, list) else None, http_version=case['http_version'],
        root_path=case['root_path'] if case['root_path'] else None,
    )
    if stack == 'asgi':
        kwargs['asgi_chunk_size'] = max(1, (case['chunks'] or [4096])[0])
    else:
        kwargs['wsgierrors'] = io.StringIO()
    return kwargs


_MONTHS = {m: i + 1 for i, m in enumerate(['Jan', 'Feb', 'Mar', 'Apr', 'May', 'Jun', 'Jul', 'Aug', 'Sep', 'Oct', 'Nov', 'Dec'])}


def _cookie_facts_of_line(line):
    """(name, value, expires as a UTC field tuple or None, max-age, domain, path) read from one Set-Cookie line by hand."""
    parts = [p.strip() for p in line.split(';')]
    name, _, value = parts[0].partition('=')
    if len(value) >= 2 and value[0] == value[-1] == '"':
        value = value[1:-1]
    facts = {'expires': None, 'max_age': None, 'domain': None, 'path': None}
    for p in parts[1:]:
        k, _, v = p.partition('=')
        k = k.strip().lower()
        if k == 'expires':
            m = re.match(r'^\w{3}, (\d{2})[ -](\w{3})[ -](\d{4}) (\d{2}):(\d{2}):(\d{2}) GMT$', v.strip())
            if m:
                facts['expires'] = (int(m.group(3)), _MONTHS[m.group(2)], int(m.group(1)), int(m.group(4)), int(m.group(5)), int(m.group(6)))
        elif k == 'max-age':
            facts['max_age'] = int(v)
        elif k in ('domain', 'path'):
            facts[k] = v.strip()
    return name.strip(), value, facts


def _cookie_facts_of_client(c):
    e = c.expires
    if e is not None:
        if e.utcoffset() is None:
            exp = ('naive',) + tuple(e.timetuple()[:6])
        else:
            e = e.astimezone(_dt.timezone.utc)
            exp = (e.year, e.month, e.day, e.hour, e.minute, e.second)
    else:
        exp = None
    return c.value, {'expires': exp, 'max_age': c.max_age, 'domain': c.domain, 'path': c.path}


def obs_of_result(result, holder):
    if holder.harness is not None:
        raise HarnessError('client: responder harness raised %r' % (holder.harness,))
    hdrs = [(k.lower(), v) for k, v in result.headers.items()]
    obs = Obs(result.status_code, hdrs, result.content, holder.digests, holder.api_exc)
    obs.cookie_names = sorted(result.cookies)
    obs.cookie_facts = {n: _cookie_facts_of_client(c) for n, c in result.cookies.items()}
    return obs


def via_client(app, holder, case, stack):
    """falcon.testing.simulate_request, using only its documented arguments."""
    headers = [(n, v) for n, v in case['headers']]
    body = case['body']
    if body:
        # the client synthesises Content-Length from the body; the logical request carries exactly that value
        headers = [(n, v) for n, v in headers if n.lower() != 'content-length']
    client = case['client']
    emitter = getattr(_fth, 'ASGIRequestEventEmitter', None)
    decider = getattr(emitter, '_branch_decider', None)
    if decider is not None:
        decider.clear()
    kwargs = dict(
        method=case['method'], path=case['raw_path'], query_string=case['query'], headers=headers,
        body=body if body else None, protocol=case['scheme'], host=case['server'][0], port=case['server'][1],
        remote_addr=client[0] if isinstance(client, list) else None, http_version=case['http_version'],
        root_path=case['root_path'] if case['root_path'] else None,
    )
    if stack == 'asgi':
        kwargs['asgi_chunk_size'] = max(1, (case['chunks'] or [4096])[0])
    else:
        kwargs['wsgierrors'] = io.StringIO()
    with warnings.catch_warnings():
        warnings.simplefilter('ignore')
        try:
            result = falcon.testing.simulate_request(app, **kwargs)
        except AssertionError as e:
            if holder.harness is not None:
                raise HarnessError('client: responder harness raised %r' % (holder.harness,))
            tb = e.__traceback__
            while tb.tb_next is not None:
                tb = tb.tb_next
            if 'wsgiref' in tb.tb_frame.f_code.co_filename:
                raise ClientInconclusive(str(e)[:80])
            raise
    if holder.harness is not None:
        raise HarnessError('client: responder harness raised %r' % (holder.harness,))
    hdrs = [(k.lower(), v) for k, v in result.headers.items()]
    obs = Obs(result.status_code, hdrs, result.content, holder.digests, holder.api_exc)
    obs.cookie_names = sorted(result.cookies)
    obs.cookie_facts = {n: _cookie_facts_of_client(c) for n, c in result.cookies.items()}
    return obs


_EXPIRES = re.compile('expires=[^;]*', re.I)


def _no_clock(name, value):
    # unset_cookie() stamps "expires=<now - 1 day>": the only wall-clock dependent response text
    return (name, _EXPIRES.sub('expires=<clock>', value) if name == 'set-cookie' else value)


class Obs(object):
    def __init__(self, code, headers, body, digests, api_exc=None):
        self.api_exc = api_exc
        self.code = code
        self.headers = sorted(_no_clock(k, v) for k, v in headers)
        self.raw_set_cookie = [v for k, v in headers if k == 'set-cookie']
        self.body = body
        self.digests = list(digests)
        self.cookie_names = None

    def triple(self):
        return (self.code, self.headers, self.body)


# ======================================================================== comparison


def describe(case):
    keys = ['method', 'raw_path', 'query', 'headers', 'body', 'chunks', 'scheme', 'server', 'client', 'root_path',
            'http_version', 'opts', 'read']
    return ' '.join('%s=%r' % (k, case[k]) for k in keys if k in case)


def compare_digests(na, a, nb, b, case):
    if len(a.digests) != len(b.digests):
        raise Violation('responder_runs', '%s ran the responder %d time(s), %s %d time(s); request: %s'
                        % (na, len(a.digests), nb, len(b.digests), describe(case)))
    if len(a.digests) > 1:
        raise Violation('responder_runs', 'responder ran %d times; request: %s' % (len(a.digests), describe(case)))
    for da, db in zip(a.digests, b.digests):
        for k in da:
            if k not in db:
                raise Violation('digest_key', '%s computed %s, %s did not; request: %s' % (na, k, nb, describe(case)))
            if not same(da[k], db[k]):
                raise Violation('digest_mismatch', 'req.%s: %s=%r %s=%r; request: %s'
                                % (k, na, da[k], nb, db[k], describe(case)))
        for k in db:
            if k not in da:
                raise Violation('digest_key', '%s computed %s, %s did not; request: %s' % (nb, k, na, describe(case)))


def compare_triples(na, a, nb, b, case):
    if a.triple() != b.triple():
        what = 'status' if a.code != b.code else ('headers' if a.headers != b.headers else 'body')
        raise Violation('response_' + what, '%s=%r %s=%r; request: %s; responder: %r'
                        % (na, a.triple(), nb, b.triple(), describe(case), case['resp']))


def _cookie_name(v):
    return v.split('=', 1)[0].strip()


def compare_with_client(stack, drv, cli, case):
    """The client exposes headers as a case-insensitive dict (one value per name) plus parsed cookies."""
    compare_digests(stack + '-driver', drv, stack + '-client', cli, case)
    detail = None
    if drv.code != cli.code:
        detail = 'status'
    elif drv.body != cli.body:
        detail = 'body'
    else:
        multi = {}
        for k, v in drv.headers:
            multi.setdefault(k, []).append(v)
        got = dict(cli.headers)
        if sorted(multi) != sorted(got):
            detail = 'header names'
        else:
            for k, vals in multi.items():
                if got[k] not in vals:
                    detail = 'header ' + k
                    break
        if detail is None and 'set-cookie' in multi:
            names = sorted(set(_cookie_name(v) for v in multi['set-cookie']))
            if names != cli.cookie_names:
                detail = 'cookie names'
            elif getattr(cli, 'cookie_facts', None) is not None:
                # result.cookies[name] describes the LAST Set-Cookie line for that name: value, Expires as the same instant
                # (whatever the time zone of the process running the test client), Max-Age, Domain, Path
                last = {}
                for v in drv.raw_set_cookie:
                    n, val, facts = _cookie_facts_of_line(v)
                    last[n] = (val, facts)
                for n, (val, facts) in last.items():
                    got_val, got_facts = cli.cookie_facts.get(n, (None, {}))
                    for k in ('max_age', 'domain', 'path'):
                        if facts[k] is not None and got_facts.get(k) != facts[k]:
                            detail = 'cookie attribute %s of %r (line says %r, result.cookies says %r)' % (k, n, facts[k], got_facts.get(k))
                    if facts['expires'] is not None:
                        # unset_cookie() stamps a date relative to the clock; the driver's and the client's responses are
                        # produced within the same case, so the two instants are at most minutes apart - a wrong reading
                        # of the GMT date in a process that is not on UTC is off by the zone's offset (>= 30 minutes)
                        ge = got_facts.get('expires')
                        if ge is None or ge[0] == 'naive' or abs(calendar.timegm(ge + (0, 0, 0)) - calendar.timegm(facts['expires'] + (0, 0, 0))) > 900:
                            detail = 'cookie attribute expires of %r (line says %r GMT, result.cookies says %r)' % (n, facts['expires'], ge)
    if detail is not None:
        raise Violation('client_response_' + detail.split(' ')[0],
                        '%s: %s differ: driver=%r client=%r cookies=%r; request: %s; responder: %r'
                        % (stack, detail, drv.triple(), cli.triple(), cli.cookie_names, describe(case), case['resp']))


# ======================================================================== labels / non-trivial rule

_MALFORMED = re.compile('%(?![0-9A-Fa-f]{2})')


def path_labels(raw):
    lb = []
    decoded = W.percent_decode_bytes(raw)
    nonascii = any(c >= 0x80 for c in decoded)
    if nonascii:
        try:
            decoded.decode('utf-8')
            lb.append('path:utf8_escape')
        except UnicodeDecodeError:
            lb.append('path:invalid_utf8_escape')
    if _MALFORMED.search(raw):
        lb.append('path:malformed_escape')
    low = raw.lower()
    if '%2f' in low:
        lb.append('path:%2F')
    if '%00' in low:
        lb.append('path:%00')
    if raw.endswith('/') and len(raw) > 1:
        lb.append('path:trailing_slash')
    return lb


_GROUPS = {
    'conditional': ('if-match', 'if-none-match', 'if-modified-since', 'if-unmodified-since', 'if-range', 'date'),
    'forwarding': ('forwarded', 'x-forwarded-for', 'x-forwarded-host', 'x-forwarded-proto', 'x-real-ip'),
    'host': ('host',), 'cookie': ('cookie',), 'range': ('range',), 'accept': ('accept',),
}


def header_labels(case):
    lb = []
    names = [n for n, _ in case['headers']]
    lows = [n.lower() for n in names]
    if len(set(lows)) < len(lows):
        lb.append('hdr:repeated')
    if any(n != _title(n) for n in names):
        lb.append('hdr:noncanonical_case')
    for grp, members in sorted(_GROUPS.items()):
        if any(m in lows for m in members):
            lb.append('hdr:' + grp)
    for n, v in case['headers']:
        if n.lower() == 'content-length' and not _CL_DECIMAL.match(v):
            lb.append('hdr:content-length:invalid_or_empty')
        if any(ch >= '\x80' for ch in v):
            lb.append('hdr:obs-text_value')
    return sorted(set(lb))


def digest_labels(digests):
    """Only the properties (ATTRS) and the body operations count: the deliberately failing probes
    (required=True on an absent name, typed getters on arbitrary text) raise in every case."""
    lb = set()
    for d in digests:
        for k, v in d.items():
            if not isinstance(v, dict):
                continue
            if k in ATTRS:
                if '$HTTPError' in v:
                    lb.add('attr_http_error:' + k)
                elif '$raised' in v:
                    lb.add('attr_raised:%s:%s' % (k, v['$raised']))
            elif k.startswith('body['):
                if '$HTTPError' in v:
                    lb.add('body_http_error:%s:%d' % (k.split(':')[1], v['$HTTPError'][0]))
                elif '$raised' in v:
                    lb.add('body_raised:%s:%s' % (k.split(':')[1], v['$raised']))
                elif '$form' in v:
                    lb.add('media:multipart_form')
    return sorted(lb)


def classify(case, obs_list):
    labels = set()
    first = obs_list[0]
    pl = path_labels(case['raw_path'])
    hl = header_labels(case)
    dl = digest_labels(first.digests)
    labels.update(pl)
    labels.update(hl)
    labels.update(dl)
    if dl:
        labels.add('accessor_raised_on_both_sides')
    if case['method'] not in COMMON_METHODS:
        labels.add('method:rare/unknown/meta')
    elif case['method'] in ('HEAD', 'OPTIONS'):
        labels.add('method:' + case['method'])
    labels.add('status:%dxx' % (first.code // 100))
    labels.add('responder_ran' if first.digests else 'no_responder(404/405/400/auto OPTIONS)')
    r = case['resp']['raise']
    if first.digests:
        labels.add('resp:' + (r[0] if r else 'body_' + case['resp']['body'][0]))
        if first.api_exc:
            labels.add('resp:mutator_refused_value(500 on both)')
        if first.digests[0].get('uri_template') is not None:
            labels.add('routed(uri_template)')
    if case['body']:
        labels.add('body:chunked_delivery' if case['chunks'] else 'body:single_event')
    if not isinstance(case['client'], list):
        labels.add('client:' + str(case['client']))
    if case['root_path']:
        labels.add('root_path')
        if case['raw_path'].startswith(case['root_path']):
            labels.add('path_begins_with_root_path')
    nontrivial = bool(
        [x for x in pl if x != 'path:trailing_slash']
        or 'hdr:repeated' in hl or 'hdr:noncanonical_case' in hl
        or dl
        or (r is not None and first.digests))
    return nontrivial, sorted(labels)


# ======================================================================== generators

COMMON_METHODS = ['GET', 'HEAD', 'POST', 'PUT', 'PATCH', 'DELETE', 'OPTIONS']
RARE_METHODS = ['TRACE', 'CONNECT', 'PROPFIND', 'MKCOL', 'VERSION-CONTROL', 'REPORT']

_PCHARS = "abcxyzABZ019-._~!$&'()*+,;=:@"
_path_piece = g.weighted(
    (5, st.text(alphabet=_PCHARS, min_size=0, max_size=5)),
    (3, st.sampled_from(['%C3%A9', '%E2%82%AC', '%F0%9F%98%80', '%c3%a9', 'caf%C3%A9', '%C3%A9%E2%82%AC', '%D0%B6', '%EF%BF%BD'])),
    (2, st.sampled_from(['%C3', '%A9', '%E2%82', '%FF', '%C0%AF', '%ED%A0%80', '%F4%90%80%80', '%80', 'a%C3b'])),
    (3, st.sampled_from(['%00', '%2F', '%2f', 'a%2Fb', '%25', '%2525', '%20', '%3F', '%23', '%', '%4', '%zz', '%G1', '%%', '+',
                         '.', '..', '%2E%2E', '%7e', '%41'])),
    (1, st.binary(min_size=1, max_size=3).map(lambda b: ''.join('%%%02X' % c for c in b))),
)
_segment = st.lists(_path_piece, min_size=0, max_size=3).map(''.join)
_free_path = st.builds(lambda segs, tr: '/' + '/'.join(segs) + ('/' if tr and segs else ''),
                       st.lists(_segment, min_size=0, max_size=4), st.booleans())
_routed_path = st.one_of(
    st.just('/'),
    st.builds(lambda s, tr: '/r/' + s + tr, _segment, st.sampled_from(['', '', '/'])),
    st.builds(lambda s, n, tr: '/r/%s/%s%s' % (s, n, tr), _segment,
              st.sampled_from(['0', '7', '42', '007', '-1', 'x', '%31', '1%30']), st.sampled_from(['', '', '/'])),
    st.builds(lambda p: '/s' + p, _free_path),
    st.builds(lambda p: '/x' + p, _free_path),
    st.sampled_from(['/x', '/s/', '/r/', '/r', '/r/a/1/extra', '//', '/x/', '/x//']),
)


def raw_paths(allow_empty):
    base = g.weighted((8, _routed_path), (9, _free_path.map(lambda p: '/x' + p if p != '/' else p)), (1, _free_path))
    if allow_empty:
        return g.weighted((30, base), (1, st.just('')))
    return base


_QKEYS = ['a', 'b', 'id', 'q', 'flag', 'when', 'u', 'doc', 'A', 'a%20b', 'caf%C3%A9', '%FF', '']
_QVALS = ['', '1', '0', '-7', '42', '3.5', '1e3', 'nan', 'true', 'false', 'True', 'yes', 'no', 'x', 'a,b', ',', 'a,,b', ',a',
          'a%2Cb', '%C3%A9', '%E2%82%AC', '%FF', '%C3', '%', '%zz', '+', 'a+b', '%20', '%2B', '%26', '%3D', '%00',
          '2024-02-29', '2024-02-29T12:30:00Z', '12345678-1234-5678-1234-567812345678', '123456781234567812345678123456ab',
          '%7B%22a%22%3A1%7D', '%5B1%2C2%5D', '{"a":1}', 'null', 'x=y', 'a/b?c', ';']
_qpair = st.one_of(
    st.builds(lambda k, v: k + '=' + v, st.sampled_from(_QKEYS), st.sampled_from(_QVALS)),
    st.builds(lambda k, v: k + '=' + v, st.sampled_from(['a', 'b', 'id']), st.sampled_from(_QVALS)),
    st.sampled_from(_QKEYS),
    st.text(alphabet='abc=%+,;/?:@-._~019', min_size=0, max_size=8),
)
queries = st.one_of(
    st.just(''),
    st.builds(lambda pairs, seps: ''.join(p + (seps[i % len(seps)] if i < len(pairs) - 1 else '')
                                          for i, p in enumerate(pairs)),
              st.lists(_qpair, min_size=1, max_size=5), st.lists(st.sampled_from(['&', '&', '&', ';', '&&']), min_size=1, max_size=3)),
    st.sampled_from(['a=1&a=2', 'a=1,2&a=3', 'a=&a=1', 'a', '&', '=', '=x', 'a=1&', '?a=1', 'a=b=c']),
)


def clean_value(v):
    """A field-value as a server hands it over: latin-1, no controls but HTAB, stripped."""
    v = ''.join(ch for ch in v if ch == '\t' or ' ' <= ch <= '~' or '\x80' <= ch <= '\xff')
    return v.strip(' \t')


def _texts(strategy, percent=40):
    return g.mutate_some(strategy, percent).map(lambda v: clean_value(v['text']))


_token_value = st.text(alphabet=g.TCHAR, min_size=1, max_size=8)
_any_value = st.one_of(
    _token_value,
    st.text(alphabet=st.sampled_from(g.NASTY + list('abc019')), min_size=0, max_size=10).map(clean_value),
    st.sampled_from(['', '0', '-1', '42', ' 7', '1_0', 'Tue, 15 Nov 1994 08:12:31 GMT', 'caf\xe9', '\xa07', '\xff\xfe']).map(clean_value),
)
_ctypes = st.sampled_from([
    'application/json', 'application/json; charset=utf-8', 'APPLICATION/JSON', 'application/json;charset=UTF-8',
    'application/x-www-form-urlencoded', 'application/x-www-form-urlencoded; charset=utf-8', 'text/plain',
    'text/plain; charset=latin-1', 'application/octet-stream', 'application/xml', 'application/yaml', 'multipart/form-data',
    'multipart/form-data; boundary=xyz', 'application/vnd.api+json', 'json', '', 'a/b/c', '*/*', 'text/plain; charset',
    'application/json, text/plain', 'caf\xe9/x',
])
_ims_dates = _texts(g.date_values())

# addresses shared by the client field and the forwarding headers (access_route de-duplicates against the peer)
ADDR_POOL = ['127.0.0.1', '10.0.0.7', '192.0.2.43', '::1', '2001:db8::17']
_pool_route = st.lists(st.sampled_from(ADDR_POOL), min_size=1, max_size=3).map(', '.join)
_pool_forwarded = st.lists(st.sampled_from(ADDR_POOL), min_size=1, max_size=3).map(
    lambda a: ', '.join('for="[%s]"' % x if ':' in x else 'for=' + x for x in a))

# (canonical name, value strategy, may be repeated on the wire?)
TYPED = [
    ('Accept', _texts(g.accept_values()), True),
    ('Range', _texts(g.range_values()), False),
    ('If-Modified-Since', _ims_dates, False),
    ('If-Unmodified-Since', _ims_dates, False),
    ('Date', _ims_dates, False),
    ('If-None-Match', _texts(g.etag_values()), True),
    ('If-Match', _texts(g.etag_values()), True),
    ('If-Range', st.one_of(_texts(g.etag_values()), _ims_dates), False),
    ('Cookie', _texts(g.cookie_values()), False),
    ('Forwarded', st.one_of(_texts(g.forwarded_values()), _pool_forwarded), True),
    ('X-Forwarded-For', st.one_of(_texts(g.xff_values()), _pool_route), True),
    ('X-Forwarded-Host', _texts(g.host_values()), False),
    ('X-Forwarded-Proto', st.sampled_from(['http', 'https', 'HTTPS', 'Https', 'ws', '', 'https, http', 'h\xe9']), False),
    ('X-Real-Ip', st.one_of(g.ipv4, st.sampled_from(ADDR_POOL), st.sampled_from(['unknown', '10.0.0.1, 10.0.0.2', ''])), False),
    ('Authorization', st.sampled_from(['Basic dXNlcjpwYXNz', 'Bearer abc.def.ghi', 'Digest username="x", realm="y"', '', 'x']), False),
    ('Expect', st.sampled_from(['100-continue', '100-Continue', '', 'x']), False),
    ('Referer', st.sampled_from(['https://example.com/a?b=c', '/relative', '', 'caf\xe9']), False),
    ('X-Custom', _any_value, True),
    ('X-Count', _any_value, True),
    ('X.Dotted!Name', _any_value, True),
    ('Cache-Control', st.sampled_from(['no-cache', 'max-age=0', 'no-store, no-cache', '']), True),
    ('Accept-Language', st.sampled_from(['en', 'en-US,en;q=0.5', 'de;q=0.1', '*']), True),
]
TYPED_NAMES = frozenset(t[0].lower() for t in TYPED) | {'host', 'content-type', 'content-length', 'user-agent'}


def _header_entry(name, values, repeatable):
    def build(names, vals, rep):
        n = rep if repeatable else 1
        return [[names[i % len(names)], vals[i % len(vals)]] for i in range(n)]
    values = g.weighted((12, values), (1, st.just('')))  # an empty field-value is legal for every header
    return st.builds(build, st.lists(g.cased(name), min_size=1, max_size=3), st.lists(values, min_size=1, max_size=3),
                     st.sampled_from([1, 1, 1, 2, 2, 3]))


_typed_entries = st.one_of(*[_header_entry(n, v, r) for n, v, r in TYPED])
_ua = st.sampled_from(['vf-agent/1.0', 'Mozilla/5.0 (X11; Linux x86_64)', 'curl/8.0', 'caf\xe9-agent', 'x'])

_hostnames = st.sampled_from(['falconframework.org', 'example.com', 'api.example.com', 'a.b.c.example', 'localhost', '127.0.0.1',
                              '10.1.2.3', 'xn--nxasmq6b.test', 'EXAMPLE.com', 'single'])
_ports = st.one_of(st.sampled_from([80, 443, 8080, 8000, 8443, 1, 65535]), st.integers(1, 65535))
_servers = st.tuples(_hostnames, _ports).map(list)
_clients = st.one_of(
    st.tuples(st.one_of(g.ipv4, st.sampled_from(ADDR_POOL), st.sampled_from(ADDR_POOL)), st.integers(1024, 65535)).map(list),
)
_root_paths = st.sampled_from(['', '', '', '/app', '/a/b', '/v1', '/caf%C3%A9'])

# ---- bodies

_json_docs = st.recursive(
    st.one_of(st.none(), st.booleans(), st.integers(-5, 1 << 40), st.sampled_from([0.5, -1.25, 1e10]),
              st.text(alphabet=st.sampled_from(list('ab "\\/é€\U0001f600\n')), max_size=5)),
    lambda ch: st.one_of(st.lists(ch, max_size=3), st.dictionaries(st.sampled_from(['a', 'b', 'ké', '']), ch, max_size=3)),
    max_leaves=6)


def _dumps(doc, ascii_, sep):
    import json
    return json.dumps(doc, ensure_ascii=ascii_, separators=sep).encode('utf-8')


_json_bodies = st.one_of(
    st.builds(_dumps, _json_docs, st.booleans(), st.sampled_from([(',', ':'), (', ', ': ')])),
    st.sampled_from([b'{', b'[1,', b'{"a":}', b'\xff\xfe', b'nul', b' ', b'{"a": 1} x', b'\xef\xbb\xbf{}', b'"\xe9"', b'NaN',
                     b'{"a":1,"a":2}', b'[' * 40 + b']' * 40]),
)
_form_bodies = st.one_of(
    st.sampled_from([b'a=1&b=2', b'a=1&a=2', b'a=%C3%A9', b'a=%FF', b'a+b=c+d', b'a', b'=', b'a=1;b=2', b'a=,', b'caf\xc3\xa9=1',
                     b'a=1&b', b'%zz=%']),
    st.lists(st.sampled_from(_QKEYS).flatmap(lambda k: st.sampled_from(_QVALS).map(lambda v: k + '=' + v)),
             min_size=1, max_size=4).map(lambda ps: '&'.join(ps).encode('ascii')),
)
_raw_bodies = st.one_of(st.binary(min_size=1, max_size=40), st.binary(min_size=100, max_size=300),
                        st.sampled_from([b'hello\nworld\n', b'\r\n', b'\x00']))


_multipart_bodies = st.sampled_from([
    b'--xyz\r\nContent-Disposition: form-data; name="a"\r\n\r\n1\r\n--xyz--\r\n',
    b'--xyz\r\nContent-Disposition: form-data; name="f"; filename="x.txt"\r\nContent-Type: text/plain\r\n\r\nhello\r\n'
    b'--xyz\r\nContent-Disposition: form-data; name="b"\r\n\r\n\r\n--xyz--\r\n',
    b'--xyz\r\nContent-Disposition: form-data; name="a"\r\n\r\n1',
    b'preamble\r\n--xyz\r\nContent-Disposition: form-data; name="caf\xc3\xa9"\r\n\r\n\xff\x00\r\n--xyz--\r\nepilogue',
    b'--xyz--\r\n', b'--abc\r\n', b'',
])


def _body_and_ctype():
    """(body, Content-Type header value or None)"""
    return st.one_of(
        st.tuples(st.just(b''), st.one_of(st.none(), _ctypes)),
        st.tuples(_json_bodies, st.one_of(st.none(), st.sampled_from(['application/json', 'application/json; charset=utf-8',
                                                                      'APPLICATION/JSON', 'application/vnd.api+json'])), ),
        st.tuples(_form_bodies, st.sampled_from(['application/x-www-form-urlencoded',
                                                 'application/x-www-form-urlencoded; charset=utf-8'])),
        st.tuples(_raw_bodies, st.one_of(st.none(), _ctypes)),
        st.tuples(_multipart_bodies, st.sampled_from(['multipart/form-data; boundary=xyz', 'multipart/form-data; boundary="xyz"',
                                                      'Multipart/Form-Data; Boundary=xyz', 'multipart/form-data'])),
        st.tuples(st.one_of(_json_bodies, _form_bodies), _ctypes),
    )


_CL_EMPTY_BODY = ['0', '0', '00', '7', '42', '18446744073709551616', '-1', '-0', '+5', '1_0', '0x10', '1e3', '1.0', '5, 5', '5,5',
                  'abc', '', '1 0', '--1']
_CL_DECIMAL = re.compile('^[0-9]+$')

_reads = st.sampled_from([
    ['read'], ['read'], ['media'], ['media'], ['media_default'], [], ['read3', 'read'], ['read', 'media'], ['media', 'read'],
    ['media', 'media'], ['read3', 'media'], ['media_default', 'media'], ['read', 'read'],
])

# ---- responders

_RESP_HEADER_NAMES = ['X-A', 'x-b', 'X-Vf-Resp', 'Cache-Control', 'Vary', 'ETag', 'Content-Type', 'Content-Length', 'Location',
                      'Allow', 'X-Frame-Options', 'Content-Encoding', 'Accept-Ranges', 'Www-Authenticate']
_resp_values = st.one_of(
    st.text(alphabet='abcXYZ019 ,;=/-_."', min_size=0, max_size=10).map(lambda s: s.strip()),
    st.sampled_from(['text/plain', 'no-cache', '0', '5', 'W/"abc"', 'caf\xe9', '/elsewhere', 'GET, POST', 'a, b']),
)
_resp_header = st.tuples(st.sampled_from(_RESP_HEADER_NAMES), _resp_values).map(list)
_cookie_names = st.sampled_from(['sid', 'a', 'B', 'tok_en', 'x-y'])
_cookies = st.fixed_dictionaries({
    'name': _cookie_names,
    'value': st.text(alphabet='abcXYZ019-_.~', min_size=0, max_size=6),
    'max_age': st.sampled_from([None, None, 0, 3600]),
    'domain': st.sampled_from([None, None, 'example.com']),
    'path': st.sampled_from([None, None, '/', '/app']),
    'secure': st.sampled_from([None, True, False]),
    'http_only': st.sampled_from([True, False]),
    'same_site': st.sampled_from([None, None, 'Lax', 'Strict', 'None']),
})
_dt_fields = st.tuples(st.integers(1971, 2099), st.integers(1, 12), st.integers(1, 28), st.integers(0, 23), st.integers(0, 59),
                       st.integers(0, 59)).map(list)
_props = st.one_of(
    st.tuples(st.just('location'), st.sampled_from(['/new', 'https://example.com/a b', '/café', '/q?a=1&b=2'])),
    st.tuples(st.just('content_location'), st.sampled_from(['/doc', '/café'])),
    st.tuples(st.just('cache_control'), st.sampled_from([['no-cache'], ['public', 'max-age=60'], []])),
    st.tuples(st.just('etag'), st.sampled_from(['abc', '"quoted"', 'W/"weak"', 'a b'])),
    st.tuples(st.just('retry_after'), st.sampled_from([0, 30, '120'])),
    st.tuples(st.just('vary'), st.sampled_from([['Accept'], ['Accept', 'Origin'], ['*']])),
    st.tuples(st.just('accept_ranges'), st.sampled_from(['bytes', 'none'])),
    st.tuples(st.just('content_range'), st.sampled_from([[0, 9, 100], [5, 5, 6], [0, 0, 1, 'items']])),
    st.tuples(st.just('content_length'), st.sampled_from([0, 5, '17'])),
    st.tuples(st.just('downloadable_as'), st.sampled_from(['report.pdf', 'café.txt', 'a b.txt', 'x"y.txt'])),
    st.tuples(st.just('viewable_as'), st.sampled_from(['image.png', '€.png'])),
    st.tuples(st.just('last_modified'), _dt_fields),
    st.tuples(st.just('expires'), _dt_fields),
    st.tuples(st.just('link'), st.sampled_from([['/next', 'next'], ['https://example.com/café x', 'alternate']])),
).map(list)

_resp_media = st.one_of(_json_docs, st.dictionaries(st.sampled_from(['a', 'b c', 'ké']), st.sampled_from(['1', 'x y', 'é', '']),
                                                    max_size=3))
_resp_body = st.one_of(
    st.just(['none', None]), st.just(['none', None]),
    st.tuples(st.just('text'), st.text(alphabet=st.sampled_from(list('abc \né€\U0001f600{}"')), max_size=20)).map(list),
    st.tuples(st.just('data'), st.binary(max_size=30)).map(list),
    st.tuples(st.just('media'), _resp_media).map(list),
    st.tuples(st.just('stream'), st.lists(st.sampled_from([b'chunk-1;', b'x', b'', b'\xff\x00']), max_size=3)).map(list),
    st.tuples(st.just('multi'), st.lists(st.one_of(
        st.tuples(st.just('text'), st.sampled_from(['', '', 'txt', 'é'])).map(list),
        st.tuples(st.just('data'), st.sampled_from([b'', b'', b'dat'])).map(list),
        st.tuples(st.just('media'), st.sampled_from([{'m': 1}, [], {}, 0, 'm'])).map(list),
    ), min_size=2, max_size=3, unique_by=lambda kv: kv[0])).map(list),
)
_resp_ctypes = st.sampled_from([None, None, None, None, 'text/plain', 'text/html; charset=utf-8', 'application/json',
                                'application/json; charset=utf-8', 'application/x-www-form-urlencoded', 'application/yaml',
                                'image/png', 'application/vnd.api+json'])
_statuses = st.sampled_from([None, None, None, 200, 201, 202, 204, 206, 301, 304, 400, 404, 409, 418, 500, 503, 299, 599,
                             '200 OK', '201 Created', '404 Not Found', '204 No Content', '702 Emacs', ['HTTPStatus', 404],
                             ['HTTPStatus', 201], ['HTTPStatus', 204]])
_err_common = st.fixed_dictionaries({}, optional={
    'title': st.sampled_from(['Custom title', 'Tïtle €', '']),
    'description': st.sampled_from(['Something went wrong', 'détail <&> "q"', '']),
    'headers': st.sampled_from([{'X-Err': '1'}, {'x-err': 'a', 'Cache-Control': 'no-store'}, {}]),
    'href': st.sampled_from(['https://example.com/help', '/rel help']),
    'code': st.sampled_from([7, 10042]),
})
_errors = st.one_of(
    st.tuples(st.just('error'),
              st.sampled_from(['HTTPBadRequest', 'HTTPForbidden', 'HTTPNotFound', 'HTTPConflict', 'HTTPGone',
                               'HTTPUnprocessableEntity', 'HTTPInternalServerError', 'HTTPNotAcceptable',
                               'HTTPUnsupportedMediaType', 'HTTPPreconditionFailed', 'HTTPLocked', 'HTTPNotImplemented',
                               'HTTPBadGateway', 'HTTPUnavailableForLegalReasons']),
              st.just([]), _err_common),
    st.tuples(st.just('error'), st.sampled_from(['HTTPServiceUnavailable', 'HTTPTooManyRequests', 'HTTPContentTooLarge']
                                                if hasattr(falcon, 'HTTPContentTooLarge')
                                                else ['HTTPServiceUnavailable', 'HTTPTooManyRequests']),
              st.just([]), st.builds(lambda c, ra: dict(c, retry_after=ra), _err_common, st.sampled_from([None, 5, 120]))),
    st.tuples(st.just('error'), st.just('HTTPUnauthorized'), st.just([]),
              st.builds(lambda c, ch: dict(c, challenges=ch), _err_common,
                        st.sampled_from([None, ['Basic realm="x"'], ['Basic realm="x"', 'Bearer']]))),
    st.tuples(st.just('error'), st.just('HTTPMethodNotAllowed'),
              st.sampled_from([[['GET']], [['GET', 'POST', 'PATCH']], [[]]]), _err_common),
    st.tuples(st.just('error'), st.just('HTTPRangeNotSatisfiable'), st.sampled_from([[0], [1234]]),
              st.fixed_dictionaries({}, optional={'title': st.just('Bad range'), 'description': st.just('nope')})),
    st.tuples(st.just('error'), st.just('HTTPInvalidHeader'), st.sampled_from([['bad value', 'X-Thing'], ['méh', 'Range']]),
              st.just({})),
    st.tuples(st.just('error'), st.just('HTTPMissingHeader'), st.sampled_from([['X-Thing']]), st.just({})),
    st.tuples(st.just('error'), st.just('HTTPInvalidParam'), st.sampled_from([['bad', 'limit']]), st.just({})),
    st.tuples(st.just('error'), st.just('HTTPMissingParam'), st.sampled_from([['id']]), st.just({})),
    st.tuples(st.just('error'), st.just('HTTPError'),
              st.sampled_from([[400], [404], [418], [500], [599], ['409 Conflict'], [451]]), _err_common),
).map(list)
_http_status = st.tuples(
    st.just('status'), st.sampled_from([200, 201, 204, 304, 404, 418, '200 OK', '404 Not Found', '703 Custom', ['HTTPStatus', 202]]),
    st.sampled_from([None, {}, {'X-Status': 'y'}, {'Location': '/there', 'x-a': '1'}, {'Content-Type': 'text/plain'}]),
    st.sampled_from([None, '', 'status text', 'téxt €'])).map(list)
_redirects = st.tuples(
    st.just('redirect'),
    st.sampled_from(['HTTPMovedPermanently', 'HTTPFound', 'HTTPSeeOther', 'HTTPTemporaryRedirect', 'HTTPPermanentRedirect']),
    st.sampled_from(['/new', 'https://example.com/path?a=1', '/caf%C3%A9', '//other.example/x', '']),
    st.sampled_from([None, None, {'X-Redirect': 'y'}, {'Cache-Control': 'no-cache'}])).map(list)
_raises = g.weighted((10, st.none()), (5, _errors), (2, _http_status), (2, _redirects), (1, st.just(['generic'])),
                     (2, st.sampled_from([['handled', {'handled': True}], ['handled', [3]], ['handled', 'by-handler']])))

responders = st.fixed_dictionaries({
    'status': _statuses,
    'set': st.lists(_resp_header, max_size=3),
    'append': st.lists(st.one_of(_resp_header, st.tuples(st.just('Set-Cookie'), st.sampled_from(['raw=1', 'raw2=x; Path=/'])).map(list)),
                       max_size=2),
    'ctype': _resp_ctypes,
    'cookies': st.lists(_cookies, max_size=2),
    'unset': st.lists(_cookie_names, max_size=1),
    'props': st.lists(_props, max_size=2),
    'body': _resp_body,
    'raise': _raises,
    # 'keep': the early document stays assigned (the responder body / a raised error / an error handler replace it later)
    'prerender': st.one_of(st.none(), st.none(), st.none(), st.sampled_from([[{'early': 1}], [[1, 2]], ['early'], [{'early': 2}, 'keep'], [[7], 'keep']])),
})
_plain_responder = st.just({'status': None, 'set': [], 'append': [], 'ctype': None, 'cookies': [], 'unset': [], 'props': [],
                            'body': ['none', None], 'raise': None})


# falcon.constants.SINGLETON_HEADERS as documented (hard-coded: the generator must not follow a mutated constant)
SINGLETONS = frozenset(['content-length', 'content-type', 'cookie', 'expect', 'from', 'host', 'max-forwards', 'referer',
                        'user-agent'])


def _assemble(method, raw_path, query, entries, ua, host, bc, cl_empty, cl_name, ct_name, chunks, scheme, server, client,
              root_path, http_version, opts, read, resp, order, client_domain):
    body, ctype = bc
    if root_path and (len(raw_path) + len(query)) % 4 == 0:
        # an app-relative path that happens to begin with the mount point's text (/api mounted, /api/items or /apiary
        # requested below it): it is still the app-relative path on both stacks
        raw_path = root_path + (raw_path if (len(query) % 2 or raw_path == '/') else raw_path.rstrip('/') or '/')
    if client_domain:
        query = query.lstrip('?')  # documented: the client refuses a query_string that starts with '?'
    headers = [h for e in entries for h in e]
    if ua is not None:
        headers.append(['User-Agent', ua] if client_domain else [ua[1], ua[0]])
    if not client_domain and host is not None:
        headers.append([host[1], host[0]])
    if ctype is not None:
        headers.append([ct_name, clean_value(ctype)])
    if body:
        headers.append([cl_name, str(len(body))])
    elif cl_empty is not None:
        headers.append([cl_name, cl_empty])
    if client_domain:
        # the client applies str.strip() to header values, which also removes the obs-text octets NBSP / NEL at the
        # ends (a server strips SP / HTAB only); such values are not expressible through it
        headers = [[n, v.strip()] for n, v in headers]
    # singleton headers (documented last-wins on ASGI, joined by CGI-style servers) appear at most once
    kept, seen = [], set()
    for n, v in headers:
        low = n.lower()
        if low in SINGLETONS:
            if low in seen:
                continue
            seen.add(low)
        kept.append([n, v])
    headers = kept
    # deterministic shuffle of the header list (repeated names keep their relative order)
    keyed = sorted(range(len(headers)), key=lambda i: (order[i % len(order)], i)) if order else list(range(len(headers)))
    headers = [headers[i] for i in keyed]
    cl_values = [v for n, v in headers if n.lower() == 'content-length']
    framing_ok = not cl_values or all(_CL_DECIMAL.match(v) for v in cl_values)
    if not framing_ok:
        read = [op for op in read if op not in ('read', 'read3')]
    case = {
        'method': method, 'raw_path': raw_path, 'query': query, 'headers': headers, 'body': body,
        'chunks': list(chunks) if (chunks and body) else [], 'scheme': scheme, 'server': server, 'client': client,
        'root_path': root_path, 'http_version': http_version, 'opts': opts, 'read': list(read), 'resp': resp,
    }
    if client_domain:
        case['host_from_server'] = True
    return case


def _requests(client_domain):
    if client_domain:
        methods = g.weighted((12, st.sampled_from(COMMON_METHODS)), (2, st.sampled_from(RARE_METHODS)),
                             (1, st.sampled_from(['FROB', 'WEBSOCKET'])))
        ua = _ua.map(clean_value)
        host = st.none()
        clients = st.one_of(_clients, _clients, st.none())
        cl_empty = st.one_of(st.none(), st.none(), st.sampled_from(['0', '00', '7', '42']))
        http_versions = st.sampled_from(['1.1', '1.1', '1.1', '1.0', '2'])
        root_paths = st.sampled_from(['', '', '', '/app', '/a/b', '/v1'])
    else:
        methods = g.weighted((12, st.sampled_from(COMMON_METHODS)), (2, st.sampled_from(RARE_METHODS)),
                             (1, st.sampled_from(['FROB', 'WEBSOCKET', 'get', 'Post', 'M-SEARCH'])))
        ua = st.one_of(st.none(), st.tuples(_ua.map(clean_value), g.cased('User-Agent')))
        host_value = st.one_of(
            _texts(g.host_values()),
            st.tuples(_hostnames, st.sampled_from(['', ':80', ':443', ':8080', ':', ':0', ':65536'])).map(''.join),
        )
        host = st.one_of(st.none(), st.tuples(host_value, g.cased('Host')), st.tuples(host_value, g.cased('Host')))
        clients = st.one_of(_clients, _clients, _clients, st.none(), st.just('omit'))
        cl_empty = st.one_of(st.none(), st.none(), st.sampled_from(_CL_EMPTY_BODY).map(clean_value))
        http_versions = st.sampled_from(['1.1', '1.1', '1.0', '2'])
        root_paths = _root_paths
    return st.builds(
        _assemble,
        methods, raw_paths(allow_empty=not client_domain), queries,
        st.lists(_typed_entries, min_size=0, max_size=5),
        ua, host, _body_and_ctype(), cl_empty, g.cased('Content-Length'), g.cased('Content-Type'),
        st.one_of(st.just([]), st.lists(st.integers(1, 8), min_size=1, max_size=4), st.just([64])),
        st.sampled_from(['http', 'http', 'https']), _servers, clients, root_paths, http_versions,
        st.fixed_dictionaries({'strip': st.booleans(), 'keep_blank': st.booleans(), 'csv': st.booleans()}),
        _reads, g.weighted((3, responders), (1, _plain_responder)),
        st.lists(st.integers(0, 5), min_size=0, max_size=6),
        st.just(client_domain),
    )


# ======================================================================== suites


class WsgiAsgi(Suite):
    """One logical request + responder on falcon.App (minimal PEP 3333 driver, sync responder) and on falcon.asgi.App
    (minimal ASGI driver, async responder running the same code): the in-responder digests (about 50 request
    attributes, get_header in four casings, typed header / cookie / param getters, body via the bounded stream in the
    generated read pattern, get_media) must be equal and the normalised response triples (status code, sorted
    lower-cased header multiset, body bytes) must be equal.  Domain: 7 common + 6 WebDAV/rare + unknown, meta and
    lower-case methods; raw paths with valid / truncated / invalid / overlong UTF-8 escapes, %2F, %00, malformed
    escapes, empty path; query strings over a colliding key pool with csv / blank / escaped values; 0-5 typed
    header groups (22 header kinds, arbitrary name casing, non-singletons repeated up to 3 times, values from the
    C09 grammars with 40 % single-edit mutants), Host in every authority form or absent, Content-Length valid and
    invalid; JSON / form / binary bodies in 1-8 byte chunks; both schemes, arbitrary server ports, client address
    present / None / omitted; root paths; 8 option combinations; responders: text / data / media bodies, 26 status
    forms, extra and appended headers, cookies, 14 header properties, 30 HTTPError classes with optional fields,
    HTTPStatus, 5 redirect classes, an unhandled application exception."""

    name = 'wsgi_asgi'
    budget = {'quick': 6000, 'thorough': 100000}

    def strategy(self, tier):
        return _requests(False)

    def run(self, case):
        wapp, wh, aapp, ah = apps_for(case)
        w = via_wsgi_driver(wapp, wh, case)
        a = via_asgi_driver(aapp, ah, case)
        compare_digests('wsgi', w, 'asgi', a, case)
        compare_triples('wsgi', w, 'asgi', a, case)
        nontrivial, labels = classify(case, [w, a])
        return Info(nontrivial, labels)


class BigBodies(Suite):
    """Request bodies beyond the moderate range (64 KiB +- 1, 64 KiB + 17, 70 000, 140 001, 300 000, 1 MiB + 3 bytes; binary
    and JSON) delivered in 4 KiB / 64 KiB / single events, consumed by read / read(3) / read(70000) / exhaust() /
    get_media() in 9 patterns, with the stream's eof flag observed in between: the in-responder digests and the response
    triples of the WSGI and the ASGI rendering must be equal (the body is echoed back as a digest)."""

    name = 'big_bodies'
    exhaustive = True
    budget = {'quick': 1, 'thorough': 1}
    READS = [['read'], ['read3', 'exhaust', 'eof', 'read'], ['exhaust', 'eof', 'read3'], ['read3', 'eof', 'read', 'eof'],
             ['read70000', 'eof', 'exhaust', 'eof', 'read'], ['media'], ['read3', 'media'], ['eof', 'read70000', 'read70000', 'read'], []]

    def cases(self, tier):
        sizes = (65535, 65536, 65537, 65553, 70000, 140001, 300000, 1048579)
        for size in (sizes if tier != 'quick' else (65536, 65553, 140001, 300000)):
            for kind in ('binary', 'json'):
                for chunk in (4096, 65536, 0):
                    for ri, read in enumerate(self.READS):
                        if kind == 'binary' and 'media' in read:
                            continue
                        yield {'size': size, 'kind': kind, 'chunk': chunk, 'read': read}

    def run(self, case):
        size = case['size']
        if case['kind'] == 'json':
            items = ['"item-%06d"' % i for i in range(size // 14 + 1)]
            body = ('[' + ', '.join(items) + ']').encode()
            ctype = 'application/json'
        else:
            body = bytes((i * 7 + (i >> 8)) & 0xFF for i in range(size))
            ctype = 'application/octet-stream'
        full = {'method': 'POST', 'raw_path': '/', 'query': '', 'headers': [['Content-Type', ctype], ['Content-Length', str(len(body))]],
                'body': body, 'chunks': [case['chunk']] if case['chunk'] else [], 'scheme': 'http', 'server': ['falconframework.org', 80],
                'client': ['127.0.0.1', 4711], 'root_path': '', 'http_version': '1.1',
                'opts': {'csv': False, 'keep_blank': True, 'strip': False}, 'read': list(case['read']),
                'resp': {'append': [], 'body': ['none', None], 'cookies': [], 'ctype': None, 'props': [], 'raise': None, 'set': [], 'status': None,
                         'unset': []}}
        try:
            wapp, wh, aapp, ah = apps_for(full)
            w = via_wsgi_driver(wapp, wh, full)
            a = via_asgi_driver(aapp, ah, full)
            compare_digests('wsgi', w, 'asgi', a, full)
            compare_triples('wsgi', w, 'asgi', a, full)
        except Violation as v:
            d = v.detail
            raise Violation(v.kind, '%s ... %s\n  compact case=%r' % (d[:500], d[-200:], case))
        return Info(True, ['size:%s' % ('<=64K' if size <= 65536 else '>64K'), 'kind:' + case['kind'], 'events:%s' % (case['chunk'] or 'single'),
                           'read:' + ('+'.join(case['read']) or 'none')])



class Client(Suite):
    """The sub-domain falcon.testing.simulate_request can express through its documented arguments (explicit
    User-Agent; Host = host[:port] of the simulated server via host=/port=, or no Host with http_version 1.0;
    upper-case methods; Content-Length synthesised from the body; remote_addr given or not; root_path; protocol;
    asgi_chunk_size): on each stack the in-responder digest and the response (status, headers as exposed by the
    client, cookie names, body) must equal what the minimal driver obtains for the same logical request; the two
    driver runs are also compared with each other."""

    name = 'client'
    budget = {'quick': 2400, 'thorough': 30000}

    def strategy(self, tier):
        return _requests(True)

    def run(self, case):
        wapp, wh, aapp, ah = apps_for(case)
        w = via_wsgi_driver(wapp, wh, case)
        a = via_asgi_driver(aapp, ah, case)
        compare_digests('wsgi', w, 'asgi', a, case)
        compare_triples('wsgi', w, 'asgi', a, case)
        nontrivial, labels = classify(case, [w, a])
        wh.reset(case)
        try:
            cw = via_client(wapp, wh, case, 'wsgi')
            compare_with_client('wsgi', w, cw, case)
            labels.append('client:wsgi_compared')
        except ClientInconclusive:
            labels.append('client:wsgiref_validate_assertion(inconclusive)')
        ah.reset(case)
        ca = via_client(aapp, ah, case, 'asgi')
        compare_with_client('asgi', a, ca, case)
        labels.append('client:asgi_compared')
        return Info(nontrivial, labels)


class ClientPair(Suite):
    """Requests that REPEAT a singleton header (Referer, From, Max-Forwards, If-Unmodified-Since with two values and
    differently cased names).  Real WSGI servers and ASGI differ here by design, so the minimal drivers are not
    compared; but falcon.testing normalises both simulated stacks the same way: simulate_request on the WSGI app and on
    the ASGI app must show the application the same request and return the same response."""

    name = 'client_pair'
    budget = {'quick': 800, 'thorough': 15000}

    def strategy(self, tier):
        def add(case, name, v1, v2, flip):
            case = dict(case)
            n2 = name.upper() if flip else name.lower()
            case['headers'] = [h for h in case['headers'] if h[0].lower() != name.lower()] + [[name, v1], [n2, v2]]
            return case
        return st.builds(add, _requests(True), st.sampled_from(['Referer', 'From', 'Max-Forwards', 'If-Unmodified-Since']),
                         st.sampled_from(['a', 'http://x.example/1', '3']), st.sampled_from(['b', 'http://y.example/2', '7']),
                         st.booleans())

    def run(self, case):
        wapp, wh, aapp, ah = apps_for(case)
        wh.reset(case)
        try:
            cw = via_client(wapp, wh, case, 'wsgi')
        except ClientInconclusive:
            return Info(False, ['client:wsgiref_validate_assertion(inconclusive)'])
        ah.reset(case)
        ca = via_client(aapp, ah, case, 'asgi')
        compare_digests('wsgi-client', cw, 'asgi-client', ca, case)
        compare_triples('wsgi-client', cw, 'asgi-client', ca, case)
        return Info(True, ['repeated_singleton_header'])


class ClientSession(Suite):
    """Persistent test clients: falcon.testing.TestClient(app, headers=defaults) on the WSGI and on the ASGI app and
    falcon.testing.ASGIConductor(app, headers=defaults) inside `async with`, each used for 2-4 requests that carry their
    own additional headers (some overriding a default of the same name).  Request i through every client must equal the
    minimal driver run of the logical request "defaults updated with request i's headers" - in particular nothing of
    request i-1 may show in request i and the defaults stay what they were."""

    name = 'client_session'
    budget = {'quick': 500, 'thorough': 8000}

    def strategy(self, tier):
        names = ['X-Sess-A', 'X-Sess-B', 'X-Tenant', 'Accept-Language', 'X-Trace']
        values = st.sampled_from(['1', 'two', 'v3', 'fr-CH', 'abc def'])
        hset = st.dictionaries(st.sampled_from(names), values, max_size=3).map(lambda d: [[k, v] for k, v in sorted(d.items())])

        def build(base, defaults, per):
            seen, uniq = set(), []
            for n, v in base['headers']:
                if n.lower() not in seen and n.lower() not in ('cookie',):
                    seen.add(n.lower())
                    uniq.append([n, v])
            return {'base': dict(base, headers=uniq), 'defaults': defaults, 'per_request': per}
        return st.builds(build, _requests(True), hset.filter(bool), st.lists(hset, min_size=2, max_size=4))

    def run(self, case):
        base = case['base']
        wapp, wh, aapp, ah = apps_for(base)
        defaults = {k: v for k, v in case['defaults']}
        logical = []
        for extra in case['per_request']:
            merged = dict(defaults)
            own = [[n, v] for n, v in base['headers'] if n not in dict(extra)] + [list(x) for x in extra]
            merged.update({n: v for n, v in own})
            logical.append((dict(base, headers=[[k, v] for k, v in merged.items()]), own))
        drv_w, drv_a = [], []
        for lc, _own in logical:
            wh.reset(lc)
            drv_w.append(via_wsgi_driver(wapp, wh, lc))
            ah.reset(lc)
            drv_a.append(via_asgi_driver(aapp, ah, lc))
        labels = ['requests:%d' % len(logical)]
        emitter = getattr(_fth, 'ASGIRequestEventEmitter', None)
        decider = getattr(emitter, '_branch_decider', None)

        def reset_decider():
            if decider is not None:
                decider.clear()

        with warnings.catch_warnings():
            warnings.simplefilter('ignore')
            # ---- TestClient on both stacks
            for stack, app, holder, drv in (('wsgi', wapp, wh, drv_w), ('asgi', aapp, ah, drv_a)):
                client = falcon.testing.TestClient(app, headers=dict(defaults))
                try:
                    for i, (lc, own) in enumerate(logical):
                        holder.reset(lc)
                        reset_decider()
                        kw = client_kwargs(lc, stack, headers=own)
                        try:
                            result = client.simulate_request(**kw)
                        except AssertionError as e:
                            tb = e.__traceback__
                            while tb.tb_next is not None:
                                tb = tb.tb_next
                            if 'wsgiref' in tb.tb_frame.f_code.co_filename:
                                raise ClientInconclusive(str(e)[:80])
                            raise
                        compare_with_client('%s TestClient request #%d of %d (defaults %r)' % (stack, i + 1, len(logical), defaults),
                                            drv[i], obs_of_result(result, holder), lc)
                    labels.append('testclient:%s_compared' % stack)
                except ClientInconclusive:
                    labels.append('client:wsgiref_validate_assertion(inconclusive)')

            # ---- ASGIConductor
            async def session():
                out = []
                async with falcon.testing.ASGIConductor(aapp, headers=dict(defaults)) as conductor:
                    for lc, own in logical:
                        ah.reset(lc)
                        reset_decider()
                        kw = client_kwargs(lc, 'asgi', headers=own)
                        result = await conductor.simulate_request(**kw)
                        out.append(obs_of_result(result, ah))
                return out
            got = A.run(session())
            for i, (lc, _own) in enumerate(logical):
                compare_with_client('ASGIConductor request #%d of %d (defaults %r)' % (i + 1, len(logical), defaults), drv_a[i], got[i], lc)
            labels.append('conductor_compared')
        overrides = any(n in defaults for _lc, own in logical for n, _v in own)
        if overrides:
            labels.append('request_overrides_a_default')
        return Info(True, labels)


SUITES = [WsgiAsgi(), BigBodies(), Client(), ClientPair(), ClientSession()]
import re as _re

_HUGE_NUMBER = _re.compile(r'[0-9]{4301}')


def _known_f33b(suite_name, case, violation):
    """F33b: a port of more than 4300 digits in Forwarded / Host: parse_host() raises ValueError (int() limit); the accessors
    that go through it raise on one stack and read a server-supplied value on the other."""
    if violation.kind != 'digest_mismatch' or "'$raised': 'ValueError'" not in violation.detail:
        return False
    # (quoted-pairs may sit between the digits of a quoted Forwarded value)
    return any(_HUGE_NUMBER.search(v.replace('\\', '')) for _n, v in case.get('headers') or () if isinstance(v, str))


KNOWN = {'F33b': _known_f33b}
