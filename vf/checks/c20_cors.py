"""C20 — The built-in CORS policy grants exactly the configured origins.

Every case describes one application (CORS configuration, how it is wired, the
surrounding middleware, the target and what its responder does) and one request.
The application is built twice from the same description: once with the real
falcon.CORSMiddleware / cors_enable=True and once without it.  The oracle is

(a) metamorphic: status, body and every header that is not Access-Control-* / Allow
    are identical in both runs, and the whole response is identical when the request
    carries no Origin or an Origin the configuration does not list;
(b) a decision table written from the property statement (function `policy` below),
    evaluated on the Access-Control-* / Allow headers the response carried before the
    CORS component saw it.

Nothing in the oracle calls into falcon.
"""
import itertools
import os
import shutil
import tempfile

from hypothesis import strategies as st

import falcon
import falcon.asgi

from vf.core import HarnessError, Info, Suite, Violation
from vf.drivers import asgi as A
from vf.drivers import wsgi as W

LEVEL = 'exploration'
RULE = (
    'cases are (CORS configuration x wiring x surrounding middleware x target x responder outcome x '
    'request origin x request kind) on falcon.App and falcon.asgi.App; a case is non-trivial when the '
    'request carries an Origin header and either the response differs from the response of the same '
    'application without the CORS component or the request is a preflight (OPTIONS + '
    'Access-Control-Request-Method from an allowed origin) that is denied; distinct = distinct case '
    'fingerprint'
)
ASSUMPTIONS = [
    '"successful exchange" is the framework\'s documented req_succeeded: no exception was raised by '
    'middleware, routing or the responder (a responder that merely sets an error status has succeeded); '
    'in the table it is derived from the case description, in the sampled suite it is observed by a '
    'do-nothing probe middleware standing where the CORS component stands',
    'an Origin header with an empty value counts as present; only the wildcard configuration lists it',
    'origin matching is exact, case-sensitive string equality (docs: "case sensitive")',
    'a responder (or inner middleware) that sets Access-Control-Allow-Origin itself overrides the '
    'origin decision (docs/api/cors.rst); the middleware then must not change that header, and may add '
    'a credentials grant only for a configured origin and never next to "*"',
    'empty Access-Control-Request-Method / -Headers values, an empty Allow value, repeated Origin '
    'headers and Access-Control-* response headers outside the six the middleware manages are not '
    'generated (the statement does not say how they are read)',
    'middleware listed before the CORS component (its process_response runs later) never touches '
    'Access-Control-* / Allow in process_response, so the final headers are the CORS decision',
    'Access-Control-Max-Age on an approved preflight must be a decimal number; its value is not fixed',
]

# ------------------------------------------------------------------ vocabulary

ACAO = 'access-control-allow-origin'
ACAC = 'access-control-allow-credentials'
ACEH = 'access-control-expose-headers'
ACAM = 'access-control-allow-methods'
ACAH = 'access-control-allow-headers'
ACMA = 'access-control-max-age'
ALLOW = 'allow'
AC_NAMES = (ACAO, ACAC, ACEH, ACAM, ACAH, ACMA)
REL_NAMES = AC_NAMES + (ALLOW,)
PRETTY = {
    ACAO: 'Access-Control-Allow-Origin', ACAC: 'Access-Control-Allow-Credentials',
    ACEH: 'Access-Control-Expose-Headers', ACAM: 'Access-Control-Allow-Methods',
    ACAH: 'Access-Control-Allow-Headers', ACMA: 'Access-Control-Max-Age', ALLOW: 'Allow',
}

HTTP_M = ['GET', 'HEAD', 'POST', 'PUT', 'DELETE', 'PATCH', 'TRACE', 'CONNECT']
WEBDAV_M = ['CHECKIN', 'CHECKOUT', 'COPY', 'LOCK', 'MKCOL', 'MOVE', 'PROPFIND', 'PROPPATCH', 'REPORT',
            'UNCHECKIN', 'UNLOCK', 'UPDATE', 'VERSION-CONTROL']
# methods the generated resource answers itself (anything else is a 405 raised by the router)
SUPPORTED = ['GET', 'HEAD', 'POST', 'PUT', 'PATCH', 'PROPFIND']

TARGETS = ('route', 'route_opt', 'sink', 'static', 'unrouted')
PATHS = {'route': '/res', 'route_opt': '/res', 'sink': '/sink/thing', 'static': '/static/f.txt',
         'unrouted': '/nowhere'}

A_, B_, C_, D_ = 'https://a.example', 'https://b.example:8443', 'http://c.example', 'https://evil.example'


class _Any(object):
    """Expected-value placeholder: header must be present with a decimal value."""

    def __repr__(self):
        return '<decimal number>'


NUMBER = _Any()


# ------------------------------------------------------------------ oracle (no falcon code)


def _listed(setting, origin):
    """Does a configuration value ('*', one string, or a collection of strings) list `origin`?"""
    if setting is None:
        return False
    if isinstance(setting, str):
        return setting == '*' or setting == origin
    return any(item == origin for item in setting)


def _expose_value(eh):
    if eh is None:
        return None
    if isinstance(eh, str):
        return eh or None
    return ', '.join(eh) or None


def classify(cfg, rq):
    """-> (origin class, allowed?, credentials configured for it?, preflight request?)"""
    origin = rq['origin']
    if origin is None:
        return 'absent', False, False, False
    allowed = _listed(cfg['ao'], origin)
    cred = allowed and _listed(cfg['ac'], origin)
    preflight = rq['method'] == 'OPTIONS' and bool(rq.get('acrm'))
    listed = [cfg['ao']] if isinstance(cfg['ao'], str) else list(cfg['ao'])
    if origin == '':
        cls = 'empty'
    elif allowed:
        cls = 'allowed'
    elif any(o.lower() == origin.lower() for o in listed):
        cls = 'casevariant'
    else:
        cls = 'disallowed'
    return cls, allowed, cred, preflight


def policy(cfg, rq, before, succeeded):
    """The decision table.  `before`: the seven related headers (lower-case name -> value or None)
    as they were before the CORS component ran.  Returns (expected headers, verdict label); an
    expected value may be NUMBER, or a tuple of acceptable values."""
    exp = dict(before)
    cls, allowed, cred, preflight = classify(cfg, rq)
    if not allowed:
        return exp, 'untouched'
    origin = rq['origin']
    if before[ACAO] is None:
        # the middleware decides: echo unless wildcard-without-credentials
        exp[ACAO] = origin if (cred or cfg['ao'] != '*') else '*'
        if cred:
            exp[ACAC] = 'true'
    elif cred and before[ACAO] != '*' and before[ACAC] != 'true':
        # somebody else chose the origin value: a credentials grant is optional here
        exp[ACAC] = (before[ACAC], 'true')
    ev = _expose_value(cfg['eh'])
    if ev is not None:
        exp[ACEH] = ev
    verdict = 'granted'
    if preflight and succeeded:
        exp[ALLOW] = None
        if before[ALLOW] is None:
            for n in AC_NAMES:
                exp[n] = None
            verdict = 'preflight_withdrawn'
        else:
            exp[ACAM] = before[ALLOW]
            exp[ACAH] = rq['acrh'] if rq.get('acrh') is not None else '*'
            exp[ACMA] = NUMBER
            verdict = 'preflight_approved'
    elif preflight:
        verdict = 'preflight_failed'
    return exp, verdict


def _matches(got, want):
    if want is NUMBER:
        return isinstance(got, str) and got.isdigit()
    if isinstance(want, tuple):
        return any(got == w for w in want)
    return got == want


def judge(case, cfg, rq, base, cors, before, succeeded, ran):
    """base / cors: Observed responses.  Raises Violation; returns (verdict, differs)."""
    cls, allowed, cred, preflight = classify(cfg, rq)
    app_d = case['app']
    ctx = '%s app (%s, target %s, Allow %r, outcome %r, middleware before/after CORS %r/%r) config=%r request=%r' % (
        app_d['stack'], 'cors_enable=True' if app_d['via'] == 'flag' else 'CORSMiddleware', app_d['target'],
        app_d.get('allow'), app_d['outcome'], app_d.get('before') or [], app_d.get('after') or [],
        {k: cfg[k] for k in ('ao', 'ac', 'eh')},
        {k: rq.get(k) for k in ('method', 'path', 'origin', 'acrm', 'acrh')})
    # (a) metamorphic baseline
    if (cors.code, cors.other, cors.body) != (base.code, base.other, base.body):
        raise Violation('non_cors_difference',
                        '%s: outside Access-Control-*/Allow the response differs from the same app without CORS: '
                        'got (%r, %r, %r) baseline (%r, %r, %r)'
                        % (ctx, cors.code, cors.other, cors.body[:80], base.code, base.other, base.body[:80]))
    differs = cors.rel != base.rel
    if not allowed or not ran:
        if differs:
            kind = 'headers_without_origin' if cls == 'absent' else (
                'grant_to_unlisted_origin' if not allowed else 'changed_although_not_run')
            raise Violation(kind, '%s: origin is %s, yet the response differs from the baseline: got %r baseline %r'
                            % (ctx, cls, cors.rel, base.rel))
        return 'untouched', False
    # (b) decision table
    exp, verdict = policy(cfg, rq, before, succeeded)
    bad = [n for n in REL_NAMES if not _matches(cors.rel.get(n), exp[n])]
    extra = sorted(n for n in cors.rel if n not in REL_NAMES)
    if bad or extra:
        got = {PRETTY[n]: cors.rel.get(n) for n in REL_NAMES}
        want = {PRETTY[n]: exp[n] for n in REL_NAMES}
        kind = _kind(bad, cors.rel, exp, before, verdict, cred, extra)
        raise Violation(kind, '%s: origin %s (credentials %sconfigured), %s, succeeded=%s, before CORS %r: '
                              'got %r expected %r%s'
                        % (ctx, cls, '' if cred else 'not ', verdict, succeeded,
                           {PRETTY[n]: v for n, v in before.items() if v is not None}, got, want,
                           (' unexpected ' + repr(extra)) if extra else ''))
    return verdict, differs


def _kind(bad, got, exp, before, verdict, cred, extra):
    if extra:
        return 'unexpected_access_control_header'
    if verdict == 'preflight_withdrawn':
        left = [n for n in AC_NAMES if got.get(n) is not None]
        if left == [ACAC]:
            return 'withdrawn_preflight_keeps_credentials'
        if left:
            return 'withdrawn_preflight_keeps_grant'
    if ACAC in bad and got.get(ACAC) is not None:
        if got.get(ACAO) == '*':
            return 'credentials_with_wildcard'
        if not cred:
            return 'credentials_for_unconfigured_origin'
    if ACAO in bad:
        if got.get(ACAO) == '*' and exp[ACAO] != '*':
            return 'wildcard_instead_of_origin'
        return 'allow_origin_wrong'
    if ACAC in bad:
        return 'credentials_wrong'
    if ALLOW in bad and got.get(ALLOW) is not None and exp[ALLOW] is None:
        return 'allow_header_kept'
    if any(n in bad for n in (ACAM, ACAH, ACMA)):
        if verdict == 'preflight_approved':
            return 'approved_preflight_wrong'
        return 'preflight_approved_wrongly'
    if ACEH in bad:
        return 'expose_headers_wrong'
    return 'allow_header_changed'


# ------------------------------------------------------------------ generated applications


def _container(v, how):
    if v is None or isinstance(v, str):
        return v
    v = list(v)
    if how == 'tuple':
        return tuple(v)
    if how == 'frozenset':
        return frozenset(v)
    if how == 'set':
        return set(v)
    if how == 'iter':
        return iter(v)
    return v


def make_cors(cfg):
    how = cfg.get('container', 'list')
    given = [_container(cfg['ao'], how), _container(cfg['eh'], 'list' if how in ('set', 'frozenset') else how), _container(cfg['ac'], how)]
    mw = falcon.CORSMiddleware(allow_origins=given[0], expose_headers=given[1], allow_credentials=given[2])
    # the policy is what was configured at construction: the application goes on using (and changing) the collections it
    # passed in - a settings list that gets another entry, a set that is cleared and refilled for another component
    for coll in given:
        if isinstance(coll, list):
            coll.append('https://added-later.example')
            coll.insert(0, D_)
        elif isinstance(coll, set):
            coll.clear()
            coll.add(D_)
            coll.add('https://added-later.example')
    return mw


def _act(a, resp):
    if not a:
        return
    op = a[0]
    if op == 'set':
        resp.set_header(a[1], a[2])
    elif op == 'append':
        resp.append_header(a[1], a[2])
    elif op == 'del':
        resp.delete_header(a[1])
    elif op == 'complete':
        resp.complete = True
        resp.status = 200
        if a[1] is not None:
            resp.set_header('Allow', a[1])
    elif op == 'raise':
        raise falcon.HTTPError(a[1])
    else:
        raise HarnessError('bad middleware action %r' % (a,))


class SyncMw(object):
    def __init__(self, d):
        self.d = d

    def process_request(self, req, resp):
        _act(self.d.get('req'), resp)

    def process_resource(self, req, resp, resource, params):
        _act(self.d.get('rsrc'), resp)

    def process_response(self, req, resp, resource, req_succeeded):
        _act(self.d.get('resp'), resp)


class AsyncMw(object):
    def __init__(self, d):
        self.d = d

    async def process_request(self, req, resp):
        _act(self.d.get('req'), resp)

    async def process_resource(self, req, resp, resource, params):
        _act(self.d.get('rsrc'), resp)

    async def process_response(self, req, resp, resource, req_succeeded):
        _act(self.d.get('resp'), resp)


def _snapshot(resp, req_succeeded):
    return {n: resp.get_header(PRETTY[n]) for n in REL_NAMES}, bool(req_succeeded)


class SyncProbe(object):
    """Stands where the CORS component stands; changes nothing, records what it would have seen."""

    def __init__(self):
        self.seen = []

    def process_response(self, req, resp, resource, req_succeeded):
        self.seen.append(_snapshot(resp, req_succeeded))


class AsyncProbe(object):
    def __init__(self):
        self.seen = []

    async def process_response(self, req, resp, resource, req_succeeded):
        self.seen.append(_snapshot(resp, req_succeeded))


def _respond(req, resp, out, allow):
    resp.status = 200
    resp.text = 'hello ' + req.method
    resp.set_header('X-Responder', 'ran')
    if allow is not None:
        resp.set_header('Allow', allow)
    for name in sorted(out.get('preset') or {}):
        resp.set_header(name, out['preset'][name])
    if out.get('fail') == 'error':
        resp.status = out['status']
    elif out.get('fail') == 'raise':
        raise falcon.HTTPError(out['status'])
    elif out.get('fail') == 'raise_status':
        # bails out by raising HTTPStatus (an exception: the exchange has not "succeeded"); the Allow header rides on it
        raise falcon.HTTPStatus(out['status'], headers={'Allow': allow} if allow is not None else None)


def _make_resource(app_d, asyn):
    out = app_d['outcome']
    ns = {}

    def add(method, allow):
        if asyn:
            async def responder(self, req, resp):
                _respond(req, resp, out, allow)
        else:
            def responder(self, req, resp):
                _respond(req, resp, out, allow)
        ns['on_' + method.lower()] = responder

    for m in SUPPORTED:
        add(m, None)
    if app_d['target'] == 'route_opt':
        add('OPTIONS', app_d['allow'])
    return type('Resource', (object,), ns)()


def _make_sink(app_d, asyn):
    out = app_d['outcome']
    allow = app_d['allow']
    if asyn:
        async def sink(req, resp, **kw):
            _respond(req, resp, out, allow)
    else:
        def sink(req, resp, **kw):
            _respond(req, resp, out, allow)
    return sink


def build_app(app_d, mode, static_dir):
    """mode: 'cors' (real component), 'none' (component left out), 'probe' (recording stand-in).
    Returns (app, probe or None)."""
    asyn = app_d['stack'] == 'asgi'
    mwc = AsyncMw if asyn else SyncMw
    before = [mwc(d) for d in app_d.get('before') or []]
    after = [mwc(d) for d in app_d.get('after') or []]
    probe = None
    kw = {}
    if mode == 'cors' and app_d['via'] == 'flag':
        if after:
            raise HarnessError('cors_enable puts the component last')
        kw['cors_enable'] = True
        mw = before
        if app_d.get('bare') and len(before) == 1:
            mw = before[0]
        elif not before and app_d.get('bare'):
            mw = None
    else:
        if mode == 'cors':
            mid = [make_cors(app_d['cfg'])]
        elif mode == 'probe':
            probe = AsyncProbe() if asyn else SyncProbe()
            mid = [probe]
        else:
            mid = []
        mw = before + mid + after
        if app_d.get('bare') and len(mw) == 1:
            mw = mw[0]
    cls = falcon.asgi.App if asyn else falcon.App
    app = cls(middleware=mw, independent_middleware=app_d.get('independent', True), **kw)
    for op in app_d.get('late') or ():
        # components added after construction; with cors_enable a second CORS component is documented to be refused -
        # whatever add_middleware() does with it, the policy in force stays the one the app was constructed with
        if op[0] == 'cors_rejected':
            if mode == 'cors' and app_d['via'] == 'flag':
                try:
                    app.add_middleware(falcon.CORSMiddleware(allow_origins=[D_, A_], allow_credentials='*', expose_headers='X-Leak'))
                except ValueError:
                    pass
        else:
            app.add_middleware(mwc({'resp': ['set', 'X-Late-%d' % len(op), '1']}))
    t = app_d['target']
    if t in ('route', 'route_opt', 'unrouted'):
        app.add_route('/res', _make_resource(app_d, asyn))
    elif t == 'sink':
        app.add_sink(_make_sink(app_d, asyn), '/sink')
    elif t == 'static':
        app.add_static_route('/static', static_dir)
    else:
        raise HarnessError('bad target %r' % (t,))
    return app, probe


class Observed(object):
    __slots__ = ('code', 'rel', 'other', 'body')

    def __init__(self, code, headers, body):
        self.code = code
        self.body = body
        rel = {}
        other = []
        for k, v in headers:
            lk = k.lower()
            if lk.startswith('access-control-') or lk == ALLOW:
                rel[lk] = v if lk not in rel else (rel[lk], v)
            else:
                other.append((lk, v))
        self.rel = rel
        self.other = sorted(other)


def send(app, stack, rq):
    headers = []
    if rq['origin'] is not None:
        if rq.get('origin_lines'):
            # the Origin value arrives as several field lines (the server / framework joins them with ',')
            for i, part in enumerate(rq['origin_lines']):
                headers.append((('Origin', 'origin', 'ORIGIN')[i % 3], part))
        else:
            headers.append((rq.get('origin_name') or 'Origin', rq['origin']))
    if rq.get('acrm') is not None:
        headers.append(('Access-Control-Request-Method', rq['acrm']))
    if rq.get('acrh') is not None:
        headers.append(('Access-Control-Request-Headers', rq['acrh']))
    for n, v in rq.get('extra') or []:
        headers.append((n, v))
    if stack == 'wsgi':
        res = W.call(app, W.build_environ(method=rq['method'], raw_path=rq['path'], headers=headers))
    else:
        res = A.call(app, A.build_scope(method=rq['method'], raw_path=rq['path'], headers=headers))
    if res.error is not None:
        raise res.error
    return Observed(res.code, res.headers, res.body)


def responder_reached(app_d, method):
    """Is the generated responder (with its outcome) the one that answers?"""
    t = app_d['target']
    if t == 'sink':
        return True
    if t == 'route':
        return method in SUPPORTED
    if t == 'route_opt':
        return method in SUPPORTED or method == 'OPTIONS'
    return False


def described_success(app_d, method):
    """req_succeeded derived from the description (table suite: middleware never raises)."""
    t = app_d['target']
    if t == 'unrouted' or method in ('TRACE', 'CONNECT'):
        return False  # 404 / 400 are raised by the framework
    if t in ('route', 'route_opt') and method != 'OPTIONS' and method not in SUPPORTED:
        return False  # 405
    if responder_reached(app_d, method) and app_d['outcome'].get('fail') in ('raise', 'raise_status'):
        return False
    return True


def labels_for(app_d, rq, cls, cred, verdict, differs):
    cfg = app_d['cfg']
    out = app_d['outcome']
    lb = ['stack:' + app_d['stack'], 'origin:' + cls, 'target:' + app_d['target'], 'verdict:' + verdict,
          'ao:' + ('wildcard' if cfg['ao'] == '*' else 'listed'),
          'ac:' + ('none' if cfg['ac'] is None else 'wildcard' if cfg['ac'] == '*' else 'listed'),
          'outcome:' + (out.get('fail') or 'ok'),
          'kind:' + (('OPTIONS+acrm' if rq.get('acrm') else 'OPTIONS') if rq['method'] == 'OPTIONS' else 'other')]
    if out.get('preset'):
        lb.append('responder_presets_access_control')
    if app_d['via'] == 'flag':
        lb.append('via:cors_enable')
    if cred:
        lb.append('credentials_configured_for_origin')
    if differs:
        lb.append('differs_from_baseline')
    if app_d.get('before') or app_d.get('after'):
        lb.append('surrounded')
    if app_d['target'] in ('route_opt', 'sink'):
        lb.append('allow:' + ('set' if app_d['allow'] is not None else 'omitted'))
    return lb


class _StaticDirMixin(object):
    _dir = None

    def setup(self):
        self._dir = tempfile.mkdtemp(prefix='vf-c20-')
        with open(os.path.join(self._dir, 'f.txt'), 'wb') as fh:
            fh.write(b'static file content\n')
        os.utime(os.path.join(self._dir, 'f.txt'), (1700000000, 1700000000))

    def teardown(self):
        if self._dir:
            shutil.rmtree(self._dir, ignore_errors=True)
            self._dir = None


# ------------------------------------------------------------------ suite 1: the decision table

AO_VALUES = ['*', A_, [A_], [A_, B_], [A_, B_, C_]]
AC_VALUES = [None, '*', A_, [A_], [B_], [A_, B_], [D_], [B_, D_]]
EH_VALUES = [None, 'X-One', ['X-One', 'X-Two']]
ORIGINS = [None, A_, B_, D_, 'HTTPS://A.EXAMPLE', '']
SURROUND = {
    'alone': ([], []),
    'between': ([{'req': ['set', 'X-Outer-Req', '1'], 'resp': ['set', 'X-Outer', '1']}],
                [{'rsrc': ['set', 'X-Inner-Rsrc', '1'], 'resp': ['set', 'X-Inner', '1']}]),
    'last': ([{'resp': ['set', 'X-Outer', '1']}], []),
}
CORE_KINDS = [
    ('GET', None, None), ('HEAD', None, None), ('POST', None, None), ('DELETE', None, None),
    ('PROPFIND', None, None), ('TRACE', None, None), ('GET', 'GET', 'x-custom'),
    ('OPTIONS', None, None), ('OPTIONS', 'PUT', None), ('OPTIONS', 'PUT', 'x-custom, content-type'),
    ('OPTIONS', None, 'x-custom'),
]
REST_KINDS = [(m, None, None) for m in HTTP_M + WEBDAV_M
              if m not in ('GET', 'HEAD', 'POST', 'DELETE', 'PROPFIND', 'TRACE')]
OUTCOMES = [
    {'fail': None, 'preset': {}},
    {'fail': None, 'preset': {PRETTY[ACAO]: 'https://preset.example'}},
    {'fail': 'raise', 'status': 403, 'preset': {}},
    {'fail': 'error', 'status': 403, 'preset': {}},
    {'fail': 'raise_status', 'status': 204, 'preset': {}},
]
# (target, allow) x outcome; static and unrouted have no generated responder
TARGET_CELLS = (
    [('route', None, o) for o in OUTCOMES]
    + [('route_opt', 'GET, POST, PUT', o) for o in OUTCOMES]
    + [('route_opt', None, o) for o in OUTCOMES]
    + [('sink', 'GET, PUT', o) for o in OUTCOMES]
    + [('sink', None, o) for o in OUTCOMES]
    + [('static', None, OUTCOMES[0]), ('unrouted', None, OUTCOMES[0])]
)


def table_configs(tier):
    """(cfg, via, surround) triples."""
    out = []
    combos = list(itertools.product(AO_VALUES, AC_VALUES))
    if tier == 'thorough':
        for (ao, ac), eh, sur in itertools.product(combos, EH_VALUES, ('alone', 'between')):
            out.append(({'ao': ao, 'ac': ac, 'eh': eh}, 'mw', sur))
    else:
        # every (allow_origins, allow_credentials) pair; expose_headers and wiring rotate so that each
        # value meets each allow_origins and each allow_credentials value
        for i, (ao, ac) in enumerate(combos):
            eh = EH_VALUES[(i + i // len(AC_VALUES)) % 3]
            sur = ('alone', 'between')[(i + i // len(AC_VALUES) + i // 3) % 2]
            out.append(({'ao': ao, 'ac': ac, 'eh': eh}, 'mw', sur))
    out.append(({'ao': '*', 'ac': None, 'eh': None}, 'flag', 'alone'))
    out.append(({'ao': '*', 'ac': None, 'eh': None}, 'flag', 'last'))
    return out


SMALL_CONFIGS = [
    ({'ao': '*', 'ac': None, 'eh': None}, 'flag', 'alone'),
    ({'ao': '*', 'ac': '*', 'eh': 'X-One'}, 'mw', 'between'),
    ({'ao': [A_, B_], 'ac': [B_, D_], 'eh': ['X-One', 'X-Two']}, 'mw', 'alone'),
    ({'ao': A_, 'ac': A_, 'eh': None}, 'mw', 'between'),
]


V6_, Q_ = 'http://[::1]:8000', 'https://a?example'
LITERAL_CONFIGS = [
    ({'ao': V6_, 'ac': None, 'eh': None}, 'mw', 'alone'),
    ({'ao': [V6_, Q_, 'https://*.example'], 'ac': [V6_], 'eh': 'X-One'}, 'mw', 'alone'),
]
LITERAL_ORIGINS = [V6_, Q_, 'https://*.example', 'http://1:8000', 'http://::8000', 'http://:8000', 'https://abexample', 'https://a.example',
                   'https://x.example', 'http://[::1]:8000/']


class DecisionTable(_StaticDirMixin, Suite):
    """Exhaustive product: CORS configuration (allow_origins '*' / string / sets of 1-3, allow_credentials
    None / '*' / string / sets overlapping or not, expose_headers none / str / list; explicit middleware
    alone or between other middleware, or cors_enable=True) x request Origin (absent, two listed ones,
    unlisted, case variant, empty) x request kind (methods; OPTIONS with/without
    Access-Control-Request-Method / -Headers; GET carrying Access-Control-Request-Method) x target (routed
    with default or custom on_options setting / omitting Allow, sink setting / omitting Allow, static
    route, unrouted) x responder outcome (ok, pre-sets Access-Control-Allow-Origin, raises 403, returns
    403) x {falcon.App, falcon.asgi.App}; the remaining 16 HTTP/WebDAV methods on four configurations.  Quick
    enumerates every (allow_origins, allow_credentials) pair with expose_headers and wiring rotating,
    thorough the full product.  Oracle: identical to the same app without the CORS component outside
    Access-Control-*/Allow (entirely identical without an allowed Origin), and the decision table."""

    name = 'decision_table'
    exhaustive = True
    budget = {'quick': 1, 'thorough': 1}

    def cases(self, tier):
        def cells(configs, kinds, origins):
            for (cfg, via, sur), (target, allow, outcome), origin, (method, acrm, acrh), stack in itertools.product(
                    configs, TARGET_CELLS, origins, kinds, ('wsgi', 'asgi')):
                before, after = SURROUND[sur]
                yield {
                    'app': {'stack': stack, 'via': via, 'cfg': cfg, 'before': before, 'after': after,
                            'target': target, 'allow': allow, 'outcome': outcome},
                    'rq': {'method': method, 'path': PATHS[target], 'origin': origin, 'acrm': acrm, 'acrh': acrh},
                }

        for c in cells(table_configs(tier), CORE_KINDS, ORIGINS):
            yield c
        for c in cells(SMALL_CONFIGS, REST_KINDS, ORIGINS if tier == 'thorough' else [None, A_, D_]):
            yield c
        # origins are compared as plain strings: characters that mean something to glob / regex matchers (an IPv6
        # literal's brackets, '?', '*', '.') are just characters
        for c in cells(LITERAL_CONFIGS, CORE_KINDS[:4], LITERAL_ORIGINS):
            if c['app']['target'] in ('route', 'route_opt') and c['app']['outcome'] is OUTCOMES[0]:
                yield c

    def run(self, case):
        app_d, rq = case['app'], case['rq']
        cfg = app_d['cfg']
        base_app, _ = build_app(app_d, 'none', self._dir)
        cors_app, _ = build_app(app_d, 'cors', self._dir)
        base = send(base_app, app_d['stack'], rq)
        cors = send(cors_app, app_d['stack'], rq)
        before = {n: base.rel.get(n) for n in REL_NAMES}
        succeeded = described_success(app_d, rq['method'])
        verdict, differs = judge(case, cfg, rq, base, cors, before, succeeded, True)
        cls, allowed, cred, preflight = classify(cfg, rq)
        denied = preflight and allowed and verdict != 'preflight_approved'
        return Info(rq['origin'] is not None and (differs or denied),
                    labels_for(app_d, rq, cls, cred, verdict, differs))


# ------------------------------------------------------------------ suite 2: sampled surroundings

ORIGIN_POOL = [A_, B_, C_, D_, 'http://a.example', 'https://a.example:443', 'https://sub.a.example', 'a.example',
               'null', 'https://a.example.evil.example', 'example.com', 'http://[::1]:8000', 'http://1:8000', 'https://a?example',
               'https://abexample', 'https://*.example']
_token = st.text(alphabet='abcdefghijklmnopqrstuvwxyzABCDEFGHIJKLMNOPQRSTUVWXYZ0123456789-', min_size=1, max_size=10)
_origin_any = st.one_of(
    st.sampled_from(ORIGIN_POOL),
    st.builds(lambda s, h, p: '%s://%s%s' % (s, h.lower(), p), st.sampled_from(['http', 'https']),
              st.lists(_token, min_size=1, max_size=3).map('.'.join), st.sampled_from(['', ':80', ':8443'])),
)
_hval = st.text(alphabet=st.characters(min_codepoint=33, max_codepoint=126), min_size=1, max_size=12)


def _variant(o, how, k):
    if how == 'upper':
        return o.upper()
    if how == 'title':
        return o[:1].upper() + o[1:]
    if how == 'slash':
        return o + '/'
    if how == 'prefix':
        return o[:max(1, k % max(1, len(o)))]
    if how == 'suffix':
        return o + '.evil.example'
    if how == 'space':
        return o + ' x'
    return o


_REL_ACTIONS = [
    ['set', PRETTY[ACAO], '*'], ['set', PRETTY[ACAO], 'https://mw.example'], ['set', PRETTY[ACAC], 'true'],
    ['set', 'Allow', 'GET, HEAD'], ['del', 'Allow'], ['append', 'Allow', 'PATCH'],
    ['set', PRETTY[ACEH], 'X-Mw'], ['set', PRETTY[ACAM], 'LOCK'], ['del', PRETTY[ACAO]]]
_PLAIN_ACTIONS = [['set', 'X-Mw-%d' % i, 'v%d' % i] for i in range(4)]
_RAISE_ACTIONS = [['raise', s] for s in (400, 401, 403, 503)]
_COMPLETE_ACTIONS = [['complete', None], ['complete', 'GET'], ['complete', 'GET, PUT']]
_EARLY = st.sampled_from([None] * 8 + _PLAIN_ACTIONS[:2] + _REL_ACTIONS + _COMPLETE_ACTIONS + _RAISE_ACTIONS[:2])
_LATE_INNER = st.sampled_from([None] * 6 + _PLAIN_ACTIONS[:2] + _REL_ACTIONS + _RAISE_ACTIONS[:2])
_LATE_OUTER = st.sampled_from([None] * 3 + _PLAIN_ACTIONS + _RAISE_ACTIONS[:2])
_MW_OUTER = st.fixed_dictionaries({'req': _EARLY, 'rsrc': _EARLY, 'resp': _LATE_OUTER})
_MW_INNER = st.fixed_dictionaries({'req': _EARLY, 'rsrc': _EARLY, 'resp': _LATE_INNER})
_PRESET = st.dictionaries(
    st.sampled_from([PRETTY[n] for n in AC_NAMES]),
    st.sampled_from(['*', 'true', 'false', 'https://preset.example', 'GET', 'x-p', '5', '<origin>']), max_size=3)

_RAW = st.fixed_dictionaries({
    'stack': st.sampled_from(['wsgi', 'asgi']),
    'via': st.sampled_from(['mw', 'mw', 'mw', 'flag']),
    'ao': st.one_of(st.just('*'), _origin_any, st.lists(_origin_any, min_size=1, max_size=3, unique=True)),
    'ac_kind': st.sampled_from(['none', 'wildcard', 'one', 'one', 'list', 'list']),
    'ac_idx': st.lists(st.integers(0, 4), max_size=3, unique=True),
    'eh': st.one_of(st.none(), st.just(''), st.just([]), _token, st.lists(_token, min_size=1, max_size=3)),
    'container': st.sampled_from(['list', 'tuple', 'frozenset', 'set', 'iter']),
    'o_kind': st.sampled_from(['absent', 'empty', 'any', 'near', 'near', 'near', 'near', 'variant', 'variant', 'variant']),
    'o_idx': st.integers(0, 30),
    'o_var': st.sampled_from(['upper', 'title', 'upper', 'slash', 'prefix', 'suffix', 'space']),
    'o_any': _origin_any,
    'method': st.sampled_from(['OPTIONS'] * 10 + ['GET', 'POST', 'HEAD', 'PUT', 'DELETE', 'PATCH', 'TRACE',
                                                   'PROPFIND', 'LOCK', 'REPORT']),
    'acrm': st.sampled_from([None, 'GET', 'PUT', 'DELETE', 'get', 'X-WHATEVER']),
    'acrh': st.one_of(st.sampled_from([None, None, 'x-custom', 'content-type, x-a', '*', 'Authorization']), _hval),
    'target': st.sampled_from(['route', 'route_opt', 'route_opt', 'route_opt', 'sink', 'sink', 'sink', 'static',
                               'unrouted']),
    'allow': st.one_of(st.sampled_from([None, None, None, None, 'GET', 'GET, POST, PUT', 'OPTIONS, GET', '*']), _hval),
    'preset': st.one_of(st.just({}), st.just({}), _PRESET),
    'fail': st.sampled_from([None, None, None, 'raise', 'error', 'raise_status']),
    'status': st.sampled_from([400, 403, 404, 409, 500, 503, 204, 200]),
    'before': st.lists(_MW_OUTER, max_size=2),
    'after': st.lists(_MW_INNER, max_size=2),
    'independent': st.sampled_from([True, True, False]),
    'bare': st.booleans(),
    'origin_name': st.sampled_from(['Origin', 'origin', 'ORIGIN']),
    'extra': st.lists(st.tuples(
        st.sampled_from(['X-Req', 'Accept', 'Content-Type', 'Access-Control-Request-Private-Network', 'Referer']),
        st.sampled_from(['text/plain', 'application/json', 'true', 'https://a.example/page'])),
        max_size=2, unique_by=lambda t: t[0]),
})


def _assemble(r):
    """Raw draws -> case (plain data).  Dependent choices are made by index so that the strategy is
    built once."""
    via = r['via']
    if via == 'flag':
        cfg = {'ao': '*', 'ac': None, 'eh': None, 'container': 'list'}
    else:
        ao = r['ao']
        pool = (ao if isinstance(ao, list) else [ao] if ao != '*' else []) + [D_, 'https://other.example']
        picks = []
        for i in r['ac_idx']:
            o = pool[i % len(pool)]
            if o not in picks:
                picks.append(o)
        k = r['ac_kind']
        ac = None if k == 'none' else '*' if k == 'wildcard' else (picks[0] if picks else pool[0]) if k == 'one' else picks
        cfg = {'ao': ao, 'ac': ac, 'eh': r['eh'], 'container': r['container']}
    near = [o for o in (cfg['ao'] if isinstance(cfg['ao'], list) else [cfg['ao']]) if o != '*']
    near += [o for o in (cfg['ac'] if isinstance(cfg['ac'], list) else [cfg['ac']]) if o and o != '*' and o not in near]
    ok = r['o_kind']
    if ok == 'absent':
        origin = None
    elif ok == 'empty':
        origin = ''
    elif ok == 'any' or not near:
        origin = r['o_any']
    else:
        origin = near[r['o_idx'] % len(near)]
        if ok == 'variant':
            origin = _variant(origin, r['o_var'], r['o_idx'])
    preset = {n: (origin or '*') if v == '<origin>' else v for n, v in r['preset'].items()}
    outcome = {'fail': r['fail'], 'preset': preset}
    if r['fail']:
        outcome['status'] = r['status']
    app = {'stack': r['stack'], 'via': via, 'cfg': cfg, 'before': r['before'],
           'after': r['after'] if via == 'mw' else [], 'independent': r['independent'], 'bare': r['bare'],
           'target': r['target'], 'allow': r['allow'], 'outcome': outcome}
    rq = {'method': r['method'], 'path': PATHS[r['target']], 'origin': origin, 'origin_name': r['origin_name'],
          'acrm': r['acrm'], 'acrh': r['acrh'], 'extra': [list(t) for t in r['extra']]}
    return {'app': app, 'rq': rq}


_SAMPLED = _RAW.map(_assemble)


class SampledStack(_StaticDirMixin, Suite):
    """Hypothesis-sampled cases beyond the table: arbitrary origin strings (prefixes, suffixes, case
    and port variants of listed origins, 'null'), configurations passed as str / list / tuple / set /
    frozenset / iterator, empty expose_headers, 0-2 middleware components on either side of the CORS
    component whose process_request / process_resource / process_response set, append or delete
    Access-Control-* / Allow headers, short-circuit with resp.complete or raise HTTP errors, dependent
    and independent middleware mode, responders that pre-set any subset of the six Access-Control-*
    headers and/or fail, arbitrary Allow and Access-Control-Request-Headers content.  The baseline run
    replaces the CORS component by a do-nothing probe that records the related headers and
    req_succeeded at that point of the stack; the decision table is evaluated on that record."""

    name = 'sampled_stack'
    budget = {'quick': 10000, 'thorough': 200000}

    def strategy(self, tier):
        return _SAMPLED

    def run(self, case):
        app_d, rq = case['app'], case['rq']
        cfg = app_d['cfg']
        base_app, probe = build_app(app_d, 'probe', self._dir)
        cors_app, _ = build_app(app_d, 'cors', self._dir)
        base = send(base_app, app_d['stack'], rq)
        cors = send(cors_app, app_d['stack'], rq)
        if len(probe.seen) > 1:
            raise HarnessError('probe called %d times' % len(probe.seen))
        ran = bool(probe.seen)
        before, succeeded = probe.seen[0] if ran else ({n: None for n in REL_NAMES}, False)
        verdict, differs = judge(case, cfg, rq, base, cors, before, succeeded, ran)
        cls, allowed, cred, preflight = classify(cfg, rq)
        denied = preflight and allowed and ran and verdict != 'preflight_approved'
        lb = labels_for(app_d, rq, cls, cred, verdict, differs)
        if not ran:
            lb.append('component_not_reached')
        if not app_d.get('independent', True):
            lb.append('dependent_mw')
        if any(before.get(n) is not None for n in AC_NAMES):
            lb.append('access_control_preset_before_cors')
        return Info(rq['origin'] is not None and (differs or denied), lb)


# origins beyond the moderate range (RFC 6454 sets no length bound): a configured one of 324 characters and look-alikes
# that agree with it on their first 256 / 323 / 324 characters, and one of 70 000 characters
LONG_ = 'https://' + '.'.join(['tenant-%02d-abcdefghijklmnopqrstuvwxyz' % i for i in range(9)]) + '.long-origin.example'
LONG_ORIGINS = [LONG_, LONG_ + '.evil.example', LONG_[:-1], LONG_[:300] + 'x' + LONG_[301:], LONG_[:256] + '.evil.example',
                'https://' + 'a' * 70000 + '.example']
assert len(LONG_) > 300


MANY = 1500


def _expand_cfg(cfg):
    """A compact configuration with `many`: N generated tenant origins in front of the listed ones (every second one with
    credentials)."""
    n = cfg.get('many')
    if not n:
        return cfg
    tenants = ['https://tenant-%d.example' % i for i in range(n)]
    out = dict(cfg)
    out.pop('many')
    out['ao'] = tenants + list(cfg['ao'])
    out['ac'] = tenants[::2] + list(cfg['ac'] or [])
    return out


MANY_ORIGINS = ['https://tenant-0.example', 'https://tenant-1.example', 'https://tenant-%d.example' % (MANY - 1), 'https://tenant-%d.example' % (MANY - 2),
                'https://tenant-%d.example' % MANY, 'https://tenant-64.example', 'https://tenant-257.example', 'https://tenant-1.example.evil.example', A_]


class RequestHistory(_StaticDirMixin, Suite):
    """One app instance (one CORS component instance) serves a HISTORY of 2-5 requests with different origins and kinds
    (credentialed origin first and a merely allowed one afterwards, preflights between simple requests, ...): every response
    must satisfy the decision table AND be identical, in its Access-Control-* / Allow headers, to the response a fresh app
    gives to the same request alone; nothing may leak from one request to the next."""

    name = 'request_history'
    budget = {'quick': 2500, 'thorough': 60000}

    def strategy(self, tier):
        cfgs = [c for c in table_configs('quick')]
        # an EMPTY collection of origins allows nobody (it is not the wildcard)
        cfgs += [({'ao': [], 'ac': None, 'eh': None}, 'mw', 'alone'), ({'ao': [], 'ac': '*', 'eh': 'X-One'}, 'mw', 'alone'),
                 ({'ao': [], 'ac': [A_], 'eh': None, 'container': 'tuple'}, 'mw', 'between'),
                 ({'ao': [], 'ac': None, 'eh': None, 'container': 'frozenset'}, 'mw', 'alone')]
        n_plain = len(cfgs)
        cfgs += [({'ao': [LONG_, A_], 'ac': [LONG_], 'eh': 'X-One'}, 'mw', 'alone'), ({'ao': LONG_, 'ac': None, 'eh': None}, 'mw', 'between'),
                 ({'ao': [A_, LONG_ + '.evil.example'], 'ac': [A_], 'eh': None}, 'mw', 'alone')]
        n_long = len(cfgs)
        # a policy that lists 1500 origins (every second one with credentials)
        cfgs += [({'ao': [A_], 'ac': [A_], 'eh': 'X-One', 'many': MANY}, 'mw', 'alone'),
                 ({'ao': [B_], 'ac': None, 'eh': None, 'many': MANY, 'container': 'frozenset'}, 'mw', 'between')]

        def mk(origin, kind, split):
            rq = {'origin': origin, 'method': kind[0], 'acrm': kind[1], 'acrh': kind[2]}
            if split is not None and origin:
                # two Origin field lines: the request's origin is the combined value, which no policy lists
                rq['origin_lines'] = [split, origin]
                rq['origin'] = split + ',' + origin
            return rq
        rq = st.builds(mk, st.sampled_from(ORIGINS + [B_, A_, C_]), st.sampled_from(CORE_KINDS),
                       st.sampled_from([None, None, None, None, D_, 'https://x.example']))
        rq_long = st.builds(mk, st.sampled_from(LONG_ORIGINS + LONG_ORIGINS[:3] + [A_]), st.sampled_from(CORE_KINDS), st.none())
        plain = st.tuples(st.integers(0, n_plain - 1), st.lists(rq, min_size=2, max_size=5))
        long_ = st.tuples(st.integers(n_plain, n_long - 1), st.lists(rq_long, min_size=2, max_size=5))
        rq_many = st.builds(mk, st.sampled_from(MANY_ORIGINS), st.sampled_from(CORE_KINDS), st.none())
        many_ = st.tuples(st.integers(n_long, len(cfgs) - 1), st.lists(rq_many, min_size=2, max_size=5))
        return st.builds(
            lambda ci_rqs, cell, stack, late: (lambda ci, rqs: {
                'app': {'stack': stack, 'late': late if cfgs[ci][1] == 'flag' else None, 'via': cfgs[ci][1], 'cfg': cfgs[ci][0], 'before': SURROUND[cfgs[ci][2]][0],
                        'after': SURROUND[cfgs[ci][2]][1], 'target': cell[0], 'allow': cell[1], 'outcome': cell[2]},
                'rqs': rqs})(*ci_rqs),
            st.one_of(plain, plain, plain, plain, plain, plain, long_, long_, many_), st.sampled_from(TARGET_CELLS), st.sampled_from(['wsgi', 'asgi']),
            st.sampled_from([None, [['cors_rejected'], ['plain']], [['plain'], ['cors_rejected'], ['plain', 2]], [['cors_rejected']],
                             [['cors_rejected'], ['cors_rejected'], ['plain']]]))

    def run(self, case):
        app_d = case['app']
        if app_d['cfg'].get('many'):
            app_d = dict(app_d, cfg=_expand_cfg(app_d['cfg']))
        cfg = app_d['cfg']
        shared, _ = build_app(app_d, 'cors', self._dir)
        base_app, _ = build_app(app_d, 'none', self._dir)
        creds_seen = False
        leak_risk = False
        labels = set([app_d['stack'], 'target:' + app_d['target']])
        for i, r in enumerate(case['rqs']):
            rq = dict(r, path=PATHS[app_d['target']])
            base = send(base_app, app_d['stack'], rq)
            got = send(shared, app_d['stack'], rq)
            fresh_app, _ = build_app(app_d, 'cors', self._dir)
            fresh = send(fresh_app, app_d['stack'], rq)
            if got.rel != fresh.rel or got.code != fresh.code or got.other != fresh.other or got.body != fresh.body:
                raise Violation('history_dependent_response', 'request #%d %r on an app that already served %r: CORS-related headers %r '
                                '(status %d), a fresh app answers %r (status %d); app=%r'
                                % (i, rq, case['rqs'][:i], got.rel, got.code, fresh.rel, fresh.code, app_d))
            before = {n: base.rel.get(n) for n in REL_NAMES}
            succeeded = described_success(app_d, rq['method'])
            judge({'app': app_d, 'rq': rq}, cfg, rq, base, got, before, succeeded, True)
            cls, allowed, cred, preflight = classify(cfg, rq)
            if creds_seen and allowed and not cred:
                leak_risk = True
            if cred:
                creds_seen = True
            labels.add('origin:' + str(cls))
        if leak_risk:
            labels.add('credentialed_then_plain_origin')
        return Info(leak_risk or len(set(str(r['origin']) for r in case['rqs'])) >= 2, sorted(labels))


SUITES = [DecisionTable(), SampledStack(), RequestHistory()]

# F14 is repaired by the one-line patch proposed with this check; the predicate is only used if the
# finding is listed as `known` instead.
KNOWN = {
    'F14': lambda suite_name, case, violation: (
        violation.kind == 'withdrawn_preflight_keeps_credentials'
        and case['rq']['method'] == 'OPTIONS' and bool(case['rq'].get('acrm'))),
}
