"""C14 — Buffered readers behave like one flat byte buffer for every chunking."""
import io
import itertools

from hypothesis import strategies as st

from falcon.asgi.reader import BufferedReader as AsyncReader
from falcon.errors import DelimiterError, OperationNotAllowed
from falcon.util import BufferedReader as SyncReader  # the public export (what falcon.media.multipart and applications use)

from vf import stepbudget
from vf.core import Info, Suite, Violation
from vf.drivers import asgi as asgi_driver

LEVEL = 'exploration'
RULE = (
    'a case = data bytes, source chunking, chunk size, declared max length, operation history '
    '(read/peek/read_until/pipe/pipe_until/readline/readlines/exhaust/readall/iteration/delimit with nested '
    'sub-history); non-trivial = a nested sub-reader is used, or a delimited read reaches end-of-stream and is '
    'followed by another operation, or a multi-byte delimiter occurrence straddles a source/buffer chunk boundary; '
    'distinct = distinct case fingerprint'
)
ASSUMPTIONS = [
    'reference = 40-line byte cursor model in this file',
    'parent operations while a child reader is half-read are not generated (unspecified read-ahead)',
    'async eof may lag until the source has been probed (checked one-sidedly except after full-drain operations)',
    'Cython reader (cyutil/reader.pyx) cannot be rebuilt offline and is not covered',
    'hang = wall-clock alarm confirmed deterministically by a line-event step budget',
]


# ------------------------------------------------------------------ model


class Delim(Exception):
    pass


class Cur(object):
    def __init__(self, buf):
        self.buf = buf
        self.pos = 0
        self.iterated = False

    def remaining(self):
        return len(self.buf) - self.pos

    def norm(self, n):
        r = self.remaining()
        return r if (n is None or n == -1 or n > r) else n

    def read(self, n):
        n = self.norm(n)
        out = self.buf[self.pos:self.pos + n]
        self.pos += n
        return out

    def peek(self, n, chunk):
        if n < 0 or n > chunk:
            n = chunk
        return self.buf[self.pos:self.pos + n]

    def until_end(self, d):
        idx = self.buf.find(d, self.pos)
        return len(self.buf) if idx < 0 else idx

    def read_until(self, d, size, consume):
        end = self.until_end(d)
        n = min(self.norm(size), end - self.pos)
        out = self.buf[self.pos:self.pos + n]
        self.pos += n
        if consume:
            if self.buf[self.pos:self.pos + len(d)] != d:
                raise Delim(out)
            self.pos += len(d)
        return out

    def readline(self, size):
        size = self.norm(size)
        out = self.read_until(b'\n', size, False)
        if len(out) < size:
            out += self.read(1)
        return out

    def readlines(self, hint):
        res = []
        total = 0
        while True:
            ln = self.readline(-1)
            if not ln:
                break
            res.append(ln)
            if hint >= 0:
                total += len(ln)
                if total >= hint:
                    break
        return res


def model_apply(cur, op, chunk):
    k = op[0]
    try:
        if k == 'read':
            return ('ok', cur.read(op[1]))
        if k == 'readall':
            return ('ok', cur.read(-1))
        if k == 'peek':
            return ('ok', cur.peek(op[1], chunk))
        if k == 'read_until':
            return ('ok', cur.read_until(op[1], op[2], op[3]))
        if k == 'pipe':
            return ('ok', cur.read(-1))
        if k == 'pipe_until':
            return ('ok', cur.read_until(op[1], -1, op[2]))
        if k == 'exhaust':
            cur.read(-1)
            return ('ok', None)
        if k == 'readline':
            return ('ok', cur.readline(op[1]))
        if k == 'readlines':
            return ('ok', cur.readlines(op[1]))
        if k == 'iter':
            if cur.iterated:
                return ('OperationNotAllowed', None)
            cur.iterated = True
            return ('ok', cur.read(-1))
    except Delim as e:
        return ('DelimiterError', e.args[0] if k == 'pipe_until' else None)
    raise AssertionError(op)


# ------------------------------------------------------------------ real readers


class SyncSource(object):
    def __init__(self, data, caps, maxlen):
        self.data = data
        self.pos = 0
        self.caps = caps or [0]
        self.n = 0
        self.maxlen = maxlen
        self.problem = None

    def read(self, size):
        if size > self.maxlen - self.pos and self.problem is None:
            self.problem = 'source asked for %d bytes with %d of the declared %d left' % (
                size, self.maxlen - self.pos, self.maxlen)
        if size <= 0 and self.problem is None:
            self.problem = 'source asked for %d bytes' % size
        cap = self.caps[self.n % len(self.caps)]
        self.n += 1
        if cap:
            size = min(size, cap)
        out = self.data[self.pos:self.pos + size]
        self.pos += len(out)
        return out


def _bytes_exactly(v, what):
    """The readers are documented to return bytes: not a bytearray / memoryview that merely compares equal (mutable,
    unhashable, no .decode on a memoryview)."""
    if type(v) is not bytes:
        raise Violation('reader_result_type', '%s returned a %s (%r...), documented: bytes' % (what, type(v).__name__, bytes(v[:20]) if hasattr(v, '__getitem__') else v))
    return v


def sync_apply(reader, op):
    k = op[0]
    try:
        if k == 'read':
            return ('ok', _bytes_exactly(reader.read(op[1]), 'read(%r)' % (op[1],)))
        if k == 'peek':
            return ('ok', _bytes_exactly(reader.peek(op[1]), 'peek(%r)' % (op[1],)))
        if k == 'read_until':
            return ('ok', _bytes_exactly(reader.read_until(op[1], op[2], op[3]), 'read_until%r' % (tuple(op[1:]),)))
        if k == 'pipe':
            b = io.BytesIO()
            reader.pipe(b)
            return ('ok', b.getvalue())
        if k == 'pipe_until':
            b = io.BytesIO()
            try:
                reader.pipe_until(op[1], b, op[2])
            except DelimiterError:
                return ('DelimiterError', b.getvalue())
            return ('ok', b.getvalue())
        if k == 'exhaust':
            reader.exhaust()
            return ('ok', None)
        if k == 'readline':
            return ('ok', _bytes_exactly(reader.readline(op[1]), 'readline(%r)' % (op[1],)))
        if k == 'readlines':
            return ('ok', reader.readlines(op[1]))
    except DelimiterError:
        return ('DelimiterError', None)
    raise AssertionError(op)


class _Sink(object):
    def __init__(self):
        self.parts = []

    async def write(self, data):
        self.parts.append(data)

    def value(self):
        return b''.join(self.parts)


async def async_apply(reader, op):
    k = op[0]
    try:
        if k == 'read':
            return ('ok', _bytes_exactly(await reader.read(op[1]), 'read(%r)' % (op[1],)))
        if k == 'readall':
            return ('ok', _bytes_exactly(await reader.readall(), 'readall()'))
        if k == 'peek':
            return ('ok', _bytes_exactly(await reader.peek(op[1]), 'peek(%r)' % (op[1],)))
        if k == 'read_until':
            return ('ok', _bytes_exactly(await reader.read_until(op[1], op[2], op[3]), 'read_until%r' % (tuple(op[1:]),)))
        if k == 'pipe':
            s = _Sink()
            await reader.pipe(s)
            return ('ok', s.value())
        if k == 'pipe_until':
            s = _Sink()
            try:
                await reader.pipe_until(op[1], s, op[2])
            except DelimiterError:
                return ('DelimiterError', s.value())
            return ('ok', s.value())
        if k == 'exhaust':
            await reader.exhaust()
            return ('ok', None)
        if k == 'iter':
            try:
                it = reader.__aiter__()
            except OperationNotAllowed:
                return ('OperationNotAllowed', None)
            parts = []
            async for c in it:
                parts.append(c)
            return ('ok', b''.join(parts))
    except DelimiterError:
        return ('DelimiterError', None)
    raise AssertionError(op)


FULL_DRAIN = ('readall', 'pipe', 'exhaust', 'iter')


def _fmt(path, op):
    return '%s%r' % (''.join('delimit(%r)>' % d for d in path), op)


def run_sync(case):
    data, chunk = case['data'], case['chunk_size']
    maxlen = max(0, len(data) + case['maxlen_delta'])
    src = SyncSource(data, case['chunks'], maxlen)
    reader = SyncReader(src.read, maxlen, chunk)
    eff_chunk = chunk or 32768
    cur = Cur(data[:maxlen])
    trace = []

    def go(reader, cur, ops, path):
        for op in ops:
            if op[0] == 'delimit':
                d = op[1]
                child = reader.delimit(d)
                end = cur.until_end(d)
                ccur = Cur(cur.buf[cur.pos:end])
                go(child, ccur, op[2], path + [d])
                child.exhaust()
                cur.pos = end
                continue
            exp = model_apply(cur, op, eff_chunk)
            got = sync_apply(reader, op)
            trace.append((_fmt(path, op), got))
            if got != exp:
                raise Violation('sync_reader_mismatch', 'data=%r chunks=%r chunk_size=%r max_len=%d: after %r: %s returned %r, cursor model %r'
                                % (data, case['chunks'], chunk, maxlen, [t[0] for t in trace[:-1]], _fmt(path, op), got, exp))
            if src.problem:
                raise Violation('source_overread', 'data=%r max_len=%d op %s: %s' % (data, maxlen, _fmt(path, op), src.problem))
            if src.pos > maxlen:
                raise Violation('source_overread', 'source delivered %d bytes > declared %d' % (src.pos, maxlen))

    go(reader, cur, case['ops'], [])
    return cur


def run_async(case):
    data, chunk = case['data'], case['chunk_size']
    eff_chunk = chunk or 8192
    sizes = case['chunks'] or [len(data) or 1]
    pieces = []
    pos = 0
    i = 0
    while pos < len(data):
        n = sizes[i % len(sizes)]
        i += 1
        pieces.append(data[pos:pos + n])
        pos += n
        if i > 4 * len(data) + 8:
            pieces.append(data[pos:])
            break
    if case.get('trailing_empty'):
        pieces.append(b'')

    async def source():
        for p in pieces:
            yield p

    trace = []

    async def go(reader, cur, ops, path):
        for op in ops:
            if op[0] == 'delimit':
                d = op[1]
                child = reader.delimit(d)
                end = cur.until_end(d)
                ccur = Cur(cur.buf[cur.pos:end])
                await go(child, ccur, op[2], path + [d])
                await child.exhaust()
                cur.pos = end
                await check_pos(reader, cur, path, ('after-delimit', d), False)
                continue
            exp = model_apply(cur, op, eff_chunk)
            got = await async_apply(reader, op)
            trace.append((_fmt(path, op), got))
            if got != exp:
                raise Violation('async_reader_mismatch', 'data=%r pieces=%r chunk_size=%r: after %r: %s returned %r, cursor model %r'
                                % (data, pieces, chunk, [t[0] for t in trace[:-1]], _fmt(path, op), got, exp))
            await check_pos(reader, cur, path, op, op[0] in FULL_DRAIN and got[0] == 'ok')

    async def check_pos(reader, cur, path, op, drained):
        t = reader.tell()
        if t != cur.pos:
            raise Violation('async_tell', 'data=%r pieces=%r chunk_size=%r: after %r: tell() = %d, cursor model %d'
                            % (data, pieces, chunk, [x[0] for x in trace], t, cur.pos))
        e = reader.eof
        if e and cur.remaining() != 0:
            raise Violation('async_eof_early', 'data=%r pieces=%r chunk_size=%r: after %r: eof is True with %d bytes left'
                            % (data, pieces, chunk, [x[0] for x in trace], cur.remaining()))
        if drained and not e:
            raise Violation('async_eof_missing', 'data=%r pieces=%r chunk_size=%r: after %r: eof is False after a full drain'
                            % (data, pieces, chunk, [x[0] for x in trace]))

    async def main():
        reader = AsyncReader(source(), chunk)
        cur = Cur(data)
        await go(reader, cur, case['ops'], [])
        return cur

    return asgi_driver.run(main())


# ------------------------------------------------------------------ classification


def classify(case, kind):
    labels = [kind]
    nested = False
    ru_eof_then_more = False
    multi = set()

    def walk(ops, buf_has):
        nonlocal nested, ru_eof_then_more
        for i, op in enumerate(ops):
            if op[0] == 'delimit':
                nested = True
                if len(op[1]) > 1:
                    multi.add(bytes(op[1]))
                walk(op[2], buf_has)
            elif op[0] in ('read_until', 'pipe_until'):
                if len(op[1]) > 1:
                    multi.add(bytes(op[1]))
                if bytes(op[1]) not in case['data'] and i + 1 < len(ops):
                    ru_eof_then_more = True
            labels.append('op:' + op[0])

    walk(case['ops'], None)
    straddle = False
    data = case['data']
    cs = case['chunk_size'] or 0
    bounds = set()
    if kind == 'async' and case['chunks']:
        pos = 0
        i = 0
        while pos < len(data) and i < 200:
            pos += case['chunks'][i % len(case['chunks'])]
            bounds.add(pos)
            i += 1
    elif cs:
        bounds = set(range(cs, len(data), cs))
    for d in multi:
        start = data.find(d)
        while start >= 0:
            if any(start < b < start + len(d) for b in bounds):
                straddle = True
                break
            start = data.find(d, start + 1)
    if nested:
        labels.append('nested')
    if ru_eof_then_more:
        labels.append('delimited_read_hits_eof_then_more')
    if straddle:
        labels.append('delimiter_straddles_boundary')
    if case.get('maxlen_delta', 0) < 0:
        labels.append('maxlen<data')
    if case.get('maxlen_delta', 0) > 0:
        labels.append('maxlen>data')
    if cs and len(data) > 128 * cs:
        labels.append('beyond_max_join_size')
    return Info(nested or ru_eof_then_more or straddle, sorted(set(labels)))


def confirm_hang(run):
    def confirm(case):
        asgi_driver._LOOP = None
        try:
            stepbudget.run_with_budget(lambda: run(case), 3_000_000)
        except stepbudget.BudgetExceeded:
            asgi_driver._LOOP = None
            return 'operation did not finish within 3e6 line events on %d bytes of data (livelock): %r' % (len(case['data']), case)
        except BaseException:
            return None
        return None
    return confirm


# ------------------------------------------------------------------ enumeration alphabets

SYNC_OPS = [
    ['read', 1], ['read', 2], ['read', -1], ['peek', 1], ['peek', 9],
    ['read_until', b'-', -1, False], ['read_until', b'-', -1, True], ['read_until', b'ab', -1, False],
    ['read_until', b'-', 1, False], ['read_until', b'ab', 2, True], ['pipe_until', b'-', True],
    ['readline', -1], ['exhaust'], ['delimit', b'-', [['read', 1]]], ['delimit', b'b', [['read_until', b'a', 2, False]]],
    ['read_until', b'--b', 2, False], ['read_until', b'a-b', -1, True],
]
ASYNC_OPS = [
    ['read', 1], ['read', 2], ['read', -1], ['peek', 1], ['peek', 9],
    ['read_until', b'-', -1, False], ['read_until', b'-', -1, True], ['read_until', b'ab', -1, False],
    ['read_until', b'-', 1, False], ['read_until', b'ab', 2, True], ['pipe_until', b'-', True],
    ['pipe_until', b'ab', False], ['exhaust'], ['delimit', b'-', [['read', 1]]], ['delimit', b'b', [['read_until', b'a', 2, False]]],
    ['read_until', b'--b', 2, False], ['read_until', b'a-b', -1, True],
]


def _enum(tier, ops_alpha, maxlen_deltas):
    max_ops = 2 if tier == 'quick' else 3
    max_data = 4 if tier == 'quick' else 5
    datas = []
    for n in range(0, max_data + 1):
        for t in itertools.product(b'ab-', repeat=n):
            datas.append(bytes(t))
    hist = []
    for n in range(1, max_ops + 1):
        hist.extend(itertools.product(range(len(ops_alpha)), repeat=n))
    for data in datas:
        for cs in (1, 2, 3):
            for chunks in ([1], [2, 1]):
                for md in maxlen_deltas:
                    if md and tier == 'quick' and cs != 3:
                        continue  # quick tier: the max-length > data variant only where 3-byte delimiters fit
                    for h in hist:
                        if len(h) == 3 and len(data) > 4:
                            continue  # thorough: 3-operation histories over data of length <= 4, shorter ones up to 5
                        ops = [ops_alpha[i] for i in h]
                        if any(len(o[1]) > cs for o in ops if o[0] in ('read_until', 'pipe_until', 'delimit')):
                            continue
                        yield {'data': data, 'chunk_size': cs, 'chunks': chunks, 'maxlen_delta': md, 'ops': ops}


class SyncEnum(Suite):
    """Sync BufferedReader: ALL histories of <= 2 (quick) / <= 3 (thorough) operations from a 17-operation
    alphabet (reads, peeks, delimited reads with/without size cap and delimiter consumption, pipe_until,
    readline, exhaust, two nested delimit() forms) x all data strings of length <= 4 (<= 5 for histories of <= 2 operations in the thorough tier) over {a, b, -} x
    chunk sizes 1-3 x two short-read patterns, compared step by step with the cursor model."""

    name = 'sync_enum'
    exhaustive = True
    budget = {'quick': 1, 'thorough': 1}
    case_timeout = 20

    def cases(self, tier):
        # declared max length equal to the data and 2 bytes beyond it (the end of the data is then not known
        # to be the end of the stream, so the non-EOF code paths are taken on the last chunk as well)
        return _enum(tier, SYNC_OPS, (0, 2))

    def run(self, case):
        run_sync(case)
        return classify(case, 'sync')

    confirm_hang = staticmethod(confirm_hang(run_sync))


class AsyncEnum(Suite):
    """Async BufferedReader: same exhaustive slice with the async operation alphabet; tell()/eof are
    compared with the cursor after every operation."""

    name = 'async_enum'
    exhaustive = True
    budget = {'quick': 1, 'thorough': 1}
    case_timeout = 20

    def cases(self, tier):
        return _enum(tier, ASYNC_OPS, (0,))

    def run(self, case):
        run_async(case)
        return classify(case, 'async')

    confirm_hang = staticmethod(confirm_hang(run_async))


# ------------------------------------------------------------------ random histories

_DELIMS = [b'-', b'\n', b'b', b'ab', b'--', b'-a', b'\n-', b'a-b', b'-ab', b'ab-a', b'--b', b'-a-', b'a-b', b'--b', b'b--a']


def _ops(kind, chunk_size, depth):
    cs = chunk_size or 64
    delim = st.sampled_from([d for d in _DELIMS if len(d) <= cs])
    size = st.one_of(st.just(-1), st.integers(0, 12), st.sampled_from([-1, 1, 2, 3, 64, 100000]))
    base = [
        st.tuples(st.just('read'), st.one_of(size, st.none())),
        st.tuples(st.just('peek'), st.sampled_from([-1, 0, 1, 2, 3, 5, 9, 100])),
        st.tuples(st.just('read_until'), delim, size, st.booleans()),
        st.tuples(st.just('read_until'), delim, size, st.booleans()),
        st.tuples(st.just('pipe_until'), delim, st.booleans()),
        st.tuples(st.just('pipe')),
        st.tuples(st.just('exhaust')),
    ]
    if kind == 'sync':
        base += [st.tuples(st.just('readline'), size), st.tuples(st.just('readlines'), st.sampled_from([-1, 0, 1, 3, 10]))]
    else:
        base += [st.tuples(st.just('readall')), st.tuples(st.just('iter'))]
    if depth > 0:
        sub = st.lists(_ops(kind, chunk_size, depth - 1), min_size=0, max_size=4)
        base += [st.tuples(st.just('delimit'), delim, sub), st.tuples(st.just('delimit'), delim, sub)]
    return st.one_of(base)


@st.composite
def _case(draw, kind):
    chunk_size = draw(st.sampled_from([1, 1, 2, 2, 3, 3, 4, 5, 8, None]))
    data = draw(st.lists(st.sampled_from([b'a', b'b', b'-', b'\n', b'ab', b'--', b'-a', b'a-b', b'--b', b'-a-', b'b--a', b'a--', b'\r', b'\r\n', b'\x0b',
                                         b'\x85', b'\x00\xff']), max_size=16).map(b''.join))
    rep = draw(st.sampled_from([1, 1, 1, 1, 1, 1, 2, 40]))
    data = data * rep
    if kind == 'sync':
        chunks = draw(st.lists(st.integers(0, 9), min_size=1, max_size=4))
    else:
        chunks = draw(st.lists(st.integers(0, 9), min_size=1, max_size=5))
        if not any(chunks):
            chunks = chunks + [1]
    ops = draw(st.lists(_ops(kind, chunk_size, 2), min_size=1, max_size=10))
    case = {'data': data, 'chunk_size': chunk_size, 'chunks': chunks, 'ops': ops,
            'maxlen_delta': draw(st.sampled_from([0, 0, 0, -1, -3, 1, 3, 1000, -1000])) if kind == 'sync' else 0}
    if kind == 'async':
        case['trailing_empty'] = draw(st.booleans())
    return case


class SyncRandom(Suite):
    """Sync BufferedReader: random histories of <= 10 operations (nested delimit() depth <= 2), data over
    {a b - \\n} up to ~600 bytes (beyond 128 x chunk_size, where read_until switches to its streaming path),
    chunk sizes 1-8 and the default, short-read patterns, declared max length below / equal / above the data."""

    name = 'sync_random'
    budget = {'quick': 12000, 'thorough': 500000}
    case_timeout = 20

    def strategy(self, tier):
        return _case('sync')

    def run(self, case):
        run_sync(case)
        return classify(case, 'sync')

    confirm_hang = staticmethod(confirm_hang(run_sync))


class AsyncRandom(Suite):
    """Async BufferedReader: random histories (nested depth <= 2) over async chunkings of 0-9 byte pieces
    incl. empty and trailing-empty chunks; tell()/eof compared after every operation; one-shot iteration."""

    name = 'async_random'
    budget = {'quick': 12000, 'thorough': 500000}
    case_timeout = 20

    def strategy(self, tier):
        return _case('async')

    def run(self, case):
        run_async(case)
        return classify(case, 'async')

    confirm_hang = staticmethod(confirm_hang(run_async))


@st.composite
def _straddle_case(draw, kind):
    """Constructed so that an occurrence of a >= 2-byte delimiter straddles a buffer / chunk boundary and the
    cursor is moved to just before, into, or just past its first bytes before the delimited read."""
    d = draw(st.sampled_from([b'ab', b'--', b'a-b', b'--b', b'aab', b'-ab', b'ab-a', b'b--a', b'aaab']))
    cs = draw(st.integers(len(d), len(d) + 3))
    alpha = sorted(set(d)) + [ord('a'), ord('-')]
    m = draw(st.integers(1, 3))
    j = draw(st.integers(1, len(d) - 1))
    start = m * cs - j  # the delimiter starts j bytes before the m-th boundary
    fill1 = bytes(draw(st.lists(st.sampled_from(alpha), min_size=start, max_size=start)))
    fill2 = bytes(draw(st.lists(st.sampled_from(alpha), min_size=0, max_size=2 * cs + 2)))
    data = fill1 + d + fill2
    n1 = draw(st.integers(max(0, start - 2), start + len(d)))
    first = draw(st.sampled_from([['read', n1], ['read', n1], ['peek', 1], ['read_until', d[-1:], n1, False], ['peek', cs]]))
    dist = max(0, start - n1)
    size = draw(st.sampled_from([-1, -1, dist, dist + 1, dist + 2, max(0, dist - 1), cs, cs - 1, len(d)]))
    ops = [first, ['read_until', d, size, draw(st.booleans())], ['read', -1]]
    if draw(st.integers(0, 3)) == 0:
        ops.insert(0, ['read', draw(st.integers(1, 2))])
    case = {'data': data, 'chunk_size': cs, 'ops': ops, 'maxlen_delta': 0}
    if kind == 'sync':
        case['chunks'] = draw(st.sampled_from([[0], [0], [1], [2, 1], [3]]))
        case['maxlen_delta'] = draw(st.sampled_from([0, 0, 2]))
    else:
        case['chunks'] = draw(st.sampled_from([[cs], [cs], [1], [2, 1], [cs - 1, 1], [cs + 1]]))
        case['trailing_empty'] = draw(st.booleans())
    return case


class SyncStraddle(Suite):
    """Sync reader, constructed boundary cases: a 2-4 byte delimiter occurrence straddles the m-th buffer boundary, the
    cursor is first moved to just before / into / past its first bytes (read, peek, delimited read), then a delimited
    read with a size cap around the distance to the delimiter, then read(-1)."""

    name = 'sync_straddle'
    budget = {'quick': 8000, 'thorough': 200000}
    case_timeout = 20

    def strategy(self, tier):
        return _straddle_case('sync')

    def run(self, case):
        run_sync(case)
        return classify(case, 'sync')

    confirm_hang = staticmethod(confirm_hang(run_sync))


class SyncLines(Suite):
    """Line reads over bytes that LOOK like line ends elsewhere: all data strings of length <= 5 (quick; <= 6 thorough)
    over {a, LF, CR, VT, NEL 0x85, FS 0x1c} x chunk sizes 1, 2, 3, 8 x line-oriented histories (readline, sized readline,
    readlines, a read first).  For a byte reader only LF ends a line: the flat-buffer model decides."""

    name = 'sync_lines'
    exhaustive = True
    budget = {'quick': 1, 'thorough': 1}
    case_timeout = 20

    def cases(self, tier):
        hists = [
            [['readline', -1], ['readline', -1], ['read', -1]],
            [['read', 1], ['readline', -1], ['readline', -1]],
            [['readlines', -1]],
            [['readline', 2], ['readline', -1], ['readlines', -1]],
            [['peek', 3], ['readline', -1], ['read', -1]],
        ]
        n_max = 5 if tier == 'quick' else 6
        for n in range(1, n_max + 1):
            for t in itertools.product(b'a\n\r\x0b\x85\x1c', repeat=n):
                data = bytes(t)
                if not any(c in data for c in b'\r\x0b\x85\x1c'):
                    continue
                for cs in (1, 2, 3, 8):
                    for h in hists:
                        yield {'data': data, 'chunk_size': cs, 'chunks': [cs], 'maxlen_delta': 0, 'ops': h}

    def run(self, case):
        run_sync(case)
        info = classify(case, 'sync')
        return Info(b'\r' in case['data'] and b'\r\n' not in case['data'], info.labels + ('line_like_bytes',))

    confirm_hang = staticmethod(confirm_hang(run_sync))


class AsyncStraddle(Suite):
    """Async reader: the same constructed boundary cases over source chunkings aligned and misaligned with chunk_size."""

    name = 'async_straddle'
    budget = {'quick': 8000, 'thorough': 200000}
    case_timeout = 20

    def strategy(self, tier):
        return _straddle_case('async')

    def run(self, case):
        run_async(case)
        return classify(case, 'async')

    confirm_hang = staticmethod(confirm_hang(run_async))


def _decode_history(data, kind):
    """Structure-aware decoding of fuzzer bytes into a reader case (a tiny data provider)."""
    if len(data) < 6:
        return None
    b = list(data)
    cs = 1 + b[0] % 6
    delims = [d for d in _DELIMS if len(d) <= cs]
    nops = 1 + b[1] % 6
    chunks = [b[2] % 8, b[3] % 8] if kind == 'sync' else [1 + b[2] % 7, b[3] % 8]
    md = (0, 0, 2, -1)[b[4] % 4] if kind == 'sync' else 0
    pos = 5
    ops = []

    def take():
        nonlocal pos
        v = b[pos] if pos < len(b) else 0
        pos += 1
        return v

    def one(depth):
        t = take() % (9 if depth else 11)
        if t == 0:
            return ['read', take() % 12 - 1]
        if t == 1:
            return ['peek', take() % 10 - 1]
        if t in (2, 3):
            return ['read_until', delims[take() % len(delims)], take() % 14 - 1, bool(take() % 2)]
        if t == 4:
            return ['pipe_until', delims[take() % len(delims)], bool(take() % 2)]
        if t == 5:
            return ['pipe']
        if t == 6:
            return ['exhaust']
        if t == 7:
            return ['readline', take() % 10 - 1] if kind == 'sync' else ['readall']
        if t == 8:
            return ['readlines', take() % 6 - 1] if kind == 'sync' else ['iter']
        sub = [one(depth + 1) for _ in range(take() % 4)]
        return ['delimit', delims[take() % len(delims)], sub]

    for _ in range(nops):
        ops.append(one(0))
    alpha = b'ab-\n'
    body = bytes(alpha[x % 4] for x in b[pos:pos + 48])
    case = {'data': body, 'chunk_size': cs, 'chunks': chunks, 'ops': ops, 'maxlen_delta': md}
    if kind == 'async':
        case['trailing_empty'] = bool(b[4] % 2)
    return case


class SyncFuzz(Suite):
    """Coverage-guided (Atheris) search over byte strings decoded into (chunk size, short-read pattern, operation
    history with nested delimit(), data over {a b - \\n}); same cursor-model oracle; the sync reader is instrumented."""

    name = 'sync_fuzz'
    budget = {'quick': 0, 'thorough': 0}
    fuzz_runs = {'quick': 8000, 'thorough': 1500000}
    fuzz_shards = {'quick': 4, 'thorough': 8}
    fuzz_max_len = 80
    case_timeout = 20

    def fuzz_decode(self, data):
        return _decode_history(data, 'sync')

    def run(self, case):
        run_sync(case)
        return classify(case, 'sync')

    confirm_hang = staticmethod(confirm_hang(run_sync))


class AsyncFuzz(Suite):
    """Coverage-guided (Atheris) search, async reader (same decoding, explicit source chunking)."""

    name = 'async_fuzz'
    budget = {'quick': 0, 'thorough': 0}
    fuzz_runs = {'quick': 4000, 'thorough': 600000}
    fuzz_shards = {'quick': 4, 'thorough': 8}
    fuzz_max_len = 80
    case_timeout = 20

    def fuzz_decode(self, data):
        return _decode_history(data, 'async')

    def run(self, case):
        run_async(case)
        return classify(case, 'async')

    confirm_hang = staticmethod(confirm_hang(run_async))


def _records_case(kind, cs, rec_len, delim, n_reads, consume, lead, mid):
    """n records of rec_len bytes (delimiter included), so that successive delimiters drift across the chunk boundaries;
    `lead` bytes are read first; `mid` = an operation slipped in after the 3rd delimited read (or None)."""
    body = bytes(97 + i % 23 for i in range(max(rec_len - len(delim), 0)))
    data = b'L' * lead + (body + delim) * (n_reads + 2) + b'tail'
    ops = ([['read', lead]] if lead else []) + [['read_until', delim, -1, consume] for _ in range(n_reads)]
    if not consume:
        # the delimiter stays in the stream: step over it explicitly
        ops = ([['read', lead]] if lead else [])
        for _ in range(n_reads):
            ops += [['read_until', delim, -1, False], ['read', len(delim)]]
    if mid is not None:
        ops.insert(min(len(ops), 3 + (1 if lead else 0)), mid)
    ops.append(['read', -1])
    case = {'data': data, 'chunk_size': cs, 'ops': ops, 'maxlen_delta': 0}
    if kind == 'sync':
        case['chunks'] = [0]
    else:
        case['chunks'] = [cs]
        case['trailing_empty'] = False
    return case


class _Records(Suite):
    exhaustive = True
    budget = {'quick': 1, 'thorough': 1}
    case_timeout = 30
    kind = 'sync'

    def cases(self, tier):
        for cs in ((2, 3, 4, 8) if tier == 'quick' else (2, 3, 4, 5, 8, 16)):
            for delim in (b'\r\n', b'--b', b'\n'):
                for off in (-1, 0, 1, 2):
                    for mult in (1, 2):
                        rec_len = cs * mult + off
                        if rec_len <= len(delim) or len(delim) > cs:
                            continue  # documented precondition: 1 <= len(delimiter) <= chunk_size
                        for n_reads in ((6, 12) if tier == 'quick' else (5, 6, 9, 12, 40)):
                            for consume in (True, False):
                                for lead in (0, 1):
                                    yield {'cs': cs, 'rec_len': rec_len, 'delim': delim, 'n': n_reads, 'consume': consume, 'lead': lead, 'mid': None}
                                if n_reads == 12:
                                    yield {'cs': cs, 'rec_len': rec_len, 'delim': delim, 'n': n_reads, 'consume': consume, 'lead': 0, 'mid': ['peek', 1]}

    def run(self, case):
        full = _records_case(self.kind, case['cs'], case['rec_len'], case['delim'], case['n'], case['consume'], case['lead'], case['mid'])
        (run_sync if self.kind == 'sync' else run_async)(full)
        return Info(True, ['chunk_size:%d' % case['cs'], 'delimited_reads_in_a_row:%s' % ('<=6' if case['n'] <= 6 else '>6'),
                           'consume' if case['consume'] else 'keep_delimiter'])


class SyncRecords(_Records):
    """Sync reader, long regular histories: 5-40 delimited reads IN A ROW over records whose length is the chunk size (or
    twice it) -1 / +0 / +1 / +2, so that the delimiter drifts across every position relative to the chunk boundary and
    the consumed head of the buffer keeps growing; delimiter consumed or left in place; then read(-1)."""

    name = 'sync_records'
    kind = 'sync'
    confirm_hang = staticmethod(confirm_hang(run_sync))


class AsyncRecords(_Records):
    """Async reader: the same record streams."""

    name = 'async_records'
    kind = 'async'
    confirm_hang = staticmethod(confirm_hang(run_async))


class SyncHuge(Suite):
    """Sizes beyond the moderate range with the DEFAULT chunk size: data of 100 000 bytes - 6 MiB + 1, one read(-1), one
    read(n) for n just below / at / above 64 KiB, 1 MiB, 4 MiB, a delimited read whose delimiter comes after 5 MiB,
    sources delivering full and short reads."""

    name = 'sync_huge'
    exhaustive = True
    budget = {'quick': 1, 'thorough': 1}
    case_timeout = 120

    def cases(self, tier):
        MiB = 1 << 20
        for size in ((100000, 4 * MiB + 1, 6 * MiB + 1) if tier == 'quick' else (100000, MiB + 1, 4 * MiB - 1, 4 * MiB, 4 * MiB + 1, 6 * MiB + 1)):
            for chunks in ([0], [65536], [32768, 1]):
                for oi in range(6):
                    yield {'size': size, 'chunks': chunks, 'ops': oi}
            if size == 100000:
                # a source that hands out ONE byte per call: thousands of consecutive short reads inside one read
                for oi in range(6):
                    yield {'size': size, 'chunks': [1], 'ops': oi}

    def run(self, case):
        size = case['size']
        MiB = 1 << 20
        data = (bytes(range(97, 123)) * (size // 26 + 1))[:size - 3] + b'--!'
        ops = [
            [['read', -1]],
            [['read', size - 7], ['read', -1]],
            [['read', 65537], ['read', 4 * MiB + 1], ['read', -1]],
            [['read_until', b'--!', -1, True], ['read', -1]],
            [['read', 1], ['peek', 3], ['read', 5 * MiB], ['read', 10]],
            [['readline', -1], ['read', 70000], ['exhaust']],
        ][case['ops']]
        full = {'data': data, 'chunk_size': None, 'chunks': case['chunks'], 'ops': ops, 'maxlen_delta': 0}
        try:
            run_sync(full)
        except Violation as v:
            d = v.detail
            raise Violation(v.kind, '%s ... %s\n  compact case=%r ops=%r' % (d[:200], d[-400:], case, ops))
        return Info(True, ['size:%s' % ('<=4MiB' if size <= 4 * MiB else '>4MiB'), 'ops:%d' % case['ops'], 'source_chunks:%r' % (case['chunks'],)])



SUITES = [SyncEnum(), AsyncEnum(), SyncLines(), SyncRandom(), AsyncRandom(), SyncStraddle(), AsyncStraddle(), SyncRecords(), AsyncRecords(), SyncHuge(), SyncFuzz(), AsyncFuzz()]
KNOWN = {}
