"""C13 — Multipart forms parse to exactly the parts that were encoded, however consumed."""
import io
import os
import unicodedata

import falcon
import falcon.asgi
from falcon.asgi.reader import BufferedReader as AsyncReader
from falcon.media.multipart import MultipartFormHandler
from falcon.util.reader import BufferedReader as SyncReader

from vf import boot
from vf import stepbudget
from vf.core import Info, Suite, Violation
from vf.drivers import asgi as A
from vf.drivers import wsgi as W
from vf.gen import c13_forms as G

LEVEL = 'exploration'
RULE = (
    'a case = a form description (boundary of 1-70 RFC 2046 characters, optional preamble/epilogue, 0-5 parts with name, '
    'plain / raw UTF-8 / RFC 5987 filename, content type, hostile content built from CR, LF, dashes, the boundary text and '
    'prefixes of the delimiter) rendered by the reference encoder in vf/gen/c13_forms.py, plus transport parameters (WSGI '
    'short reads, ASGI event sizes down to 1 byte, small chunk sizes for directly constructed readers), a per-part '
    'consumption pattern, a limit setting or a single-byte edit / truncation.  Non-trivial = a proper prefix (>= 2 bytes) '
    'of the delimiter inside a part content, or a real delimiter, straddles a reader chunk edge; or a part is only '
    'partially consumed before the next one is requested; or (limits) the limit is exactly at or one below the actual '
    'size; or (corruptions) the generator predicts the exact result (edit inside one content / preamble / epilogue, '
    'truncation); the Content-Type boundary-parameter list is small and every entry counts.  distinct = distinct case '
    'fingerprint'
)
ASSUMPTIONS = [
    'reference encoder, layout and edit predictions in vf/gen/c13_forms.py share no code with falcon',
    'the encoder keeps CRLF--boundary out of CRLF+content (RFC 2046: not on a line by itself nor as the prefix of any line), '
    'so a content starting with --boundary is not generated',
    'names / filenames never contain a backslash, CR or LF (RFC 2183 quoted-pair vs HTML5 percent-escaping is ambiguous); '
    'a double quote is sent as \\" inside a quoted-string',
    'WSGI requests always carry Content-Length (the handler asserts it); header-less parts, transport padding after the '
    'boundary, Content-Transfer-Encoding other than binary and duplicate part headers are not generated',
    'max_body_part_headers_size counts the header lines of one part joined by CRLF, without the terminating blank line',
    'max_body_part_count / headers limit: the error must be raised, the parts yielded before it must be a correct prefix; '
    'how early the error comes is not asserted',
    'get_text / filename* decoding expectations use the same Python codecs the docs refer to (bytes.decode)',
    'besides falcon.Request / falcon.asgi.Request, forms are parsed through MultipartFormHandler.deserialize[_async] over '
    'directly constructed BufferedReaders with small chunk sizes (as the repo test-suite does) so that chunk edges fall '
    'inside small bodies; the default chunk sizes (32 KiB sync / 8 KiB async) are reached by the big-body suite',
    'boundaries containing a comma are not generated: falcon answers 415 before the multipart parser runs because media '
    'type matching splits the Content-Type on the quoted comma (same root cause as known finding F17 of C11)',
    'hang = wall-clock alarm confirmed deterministically by a line-event step budget (vf.stepbudget)',
    'Cython reader twins are not covered (cannot be rebuilt offline); Atheris whole-body fuzzing is not part of this check',
]

CRLF = b'\r\n'


# ------------------------------------------------------------------ reference expectations


def ref_secure_filename(fn):
    """From the docstring of falcon.secure_filename: NFKD; only ASCII alphanumerics, '.', '-', '_' survive, everything
    else becomes '_'; a leading period is replaced as well."""
    s = unicodedata.normalize('NFKD', fn)
    if s.startswith('.'):
        s = '_' + s[1:]
    return ''.join(c if (c.isascii() and (c.isalnum() or c in '.-_')) else '_' for c in s)


def exp_secure(part):
    fn = part.get('filename')
    if not fn:
        return ['err', 'MultipartParseError']
    return ['ok', ref_secure_filename(fn)]


def exp_text(part, content, default_charset=None):
    ct = part.get('ctype')
    base = ct[0] if ct else 'text/plain'
    if base != 'text/plain':
        return ['ok', None]
    charset = (ct[1] if ct else None) or default_charset or 'utf-8'
    try:
        return ['ok', content.decode(charset)]
    except (ValueError, LookupError):
        return ['err', 'MultipartParseError']


def exp_obs(pattern, part, content, default_charset=None):
    k = pattern[0]
    if k == 'skip':
        return None
    if k == 'read':
        return content[:pattern[1]]
    if k in ('read_all', 'pipe', 'iter', 'data'):
        return content
    if k == 'reads':
        out, pos = [], 0
        for n in pattern[1]:
            out.append(content[pos:pos + n])
            pos += n
        out.append(content[pos:])
        return out
    if k == 'chunked':
        n = pattern[1]
        return [content[i:i + n] for i in range(0, len(content), n)]
    if k == 'data2':
        return [content, True]
    if k == 'text':
        return exp_text(part, content, default_charset)
    if k == 'media':
        return list(G.json_value(content))
    if k == 'read_until':
        i = content.find(pattern[1])
        return content if i < 0 else content[:i]
    if k == 'readline':
        i = content.find(b'\n')
        return content if i < 0 else content[:i + 1]
    if k == 'read_then_data':
        return [content[:pattern[1]], content[pattern[1]:]]
    if k == 'ru_then_read':
        i = content.find(pattern[1])
        i = len(content) if i < 0 else i
        return [content[:i], content[i:]]
    if k == 'lines':
        out = []
        pos = 0
        while pos < len(content):
            i = content.find(b'\n', pos)
            end = len(content) if i < 0 else i + 1
            out.append(content[pos:end])
            pos = end
        return out
    if k == 'exhaust':
        return None
    raise AssertionError(pattern)


def effective_pattern(pattern, part):
    if pattern[0] == 'media' and G.part_base(part) != 'application/json':
        return ['data']
    return pattern


def exp_record(part, pattern, default_charset=None):
    content = G.part_content(part)
    return {'name': part['name'], 'filename': part.get('filename'),
            'content_type': G.part_ctype_value(part) or 'text/plain',
            'secure': exp_secure(part), 'obs': exp_obs(pattern, part, content, default_charset)}


def is_partial(pattern, part):
    content = G.part_content(part)
    k = pattern[0]
    if k == 'skip':
        return len(content) > 0
    if k == 'read':
        return pattern[1] < len(content)
    if k == 'read_until':
        return pattern[1] in content
    if k == 'readline':
        i = content.find(b'\n')
        return 0 <= i < len(content) - 1
    if k == 'text':
        return exp_text(part, content) == ['ok', None] and len(content) > 0
    return False


# ------------------------------------------------------------------ running falcon


class _Unexpected(Exception):
    pass


def _from_repo(exc):
    tb = exc.__traceback__
    last = None
    while tb is not None:
        last = tb
        tb = tb.tb_next
    if last is None:
        return None
    fn = os.path.realpath(last.tb_frame.f_code.co_filename)
    if fn.startswith(boot.REPO + os.sep):
        return '%s:%d' % (os.path.relpath(fn, boot.REPO), last.tb_lineno)
    return None


def _allowed(e, where):
    """Classify an exception that the property allows; anything else is re-raised by the callers."""
    code = e.status_code
    if not 400 <= code < 500:
        raise Violation('error_not_4xx', '%s raised %r with status %r' % (where, e, e.status))
    return type(e).__name__


def _err_obs(e, where):
    return ['err', _allowed(e, where)]


def consume_sync(part, pattern, mode):
    k = pattern[0]
    s = part.stream
    if k == 'skip':
        return None
    if k == 'read':
        return s.read(pattern[1])
    if k == 'read_all':
        return s.read()
    if k == 'reads':
        return [s.read(n) for n in pattern[1]] + [s.read()]
    if k == 'chunked':
        out = []
        while True:
            c = s.read(pattern[1])
            if not c:
                return out
            out.append(c)
            if len(out) > 100000:
                raise Violation('endless_stream', 'part.stream.read(%d) keeps returning data' % pattern[1])
    if k == 'data':
        return part.get_data()
    if k == 'data2':
        a = part.get_data()
        b = part.data
        return [a, a is b]
    if k == 'text':
        return ['ok', part.get_text()]
    if k == 'media':
        return ['ok', repr(part.get_media())]
    if k == 'read_until':
        return s.read_until(pattern[1])
    if k == 'readline':
        return s.readline()
    if k == 'pipe':
        b = io.BytesIO()
        s.pipe(b)
        return b.getvalue()
    if k == 'iter':
        return b''.join(s.readlines())
    if k == 'read_then_data':
        a = s.read(pattern[1])
        return [a, part.get_data()]
    if k == 'ru_then_read':
        a = s.read_until(pattern[1])
        return [a, s.read()]
    if k == 'lines':
        out = []
        while True:
            ln = s.readline()
            if not ln:
                return out
            out.append(ln)
            if len(out) > 100000:
                raise Violation('endless_stream', 'part.stream.readline() keeps returning data')
    if k == 'exhaust':
        return s.exhaust()
    raise AssertionError(pattern)


class _Sink(object):
    def __init__(self):
        self.parts = []

    async def write(self, data):
        self.parts.append(data)


async def consume_async(part, pattern, mode):
    k = pattern[0]
    s = part.stream
    if k == 'skip':
        return None
    if k == 'read':
        return await s.read(pattern[1])
    if k == 'read_all':
        return await s.read()
    if k == 'reads':
        return [await s.read(n) for n in pattern[1]] + [await s.read()]
    if k == 'chunked':
        out = []
        while True:
            c = await s.read(pattern[1])
            if not c:
                return out
            out.append(c)
            if len(out) > 100000:
                raise Violation('endless_stream', 'part.stream.read(%d) keeps returning data' % pattern[1])
    if k == 'data':
        return await part.get_data()
    if k == 'data2':
        a = await part.get_data()
        b = await part.data
        return [a, a is b]
    if k == 'text':
        return ['ok', await part.get_text()]
    if k == 'media':
        return ['ok', repr(await part.get_media())]
    if k == 'read_until':
        return await s.read_until(pattern[1])
    if k == 'readline':
        # the async reader has no readline(); the equivalent delimited read
        a = await s.read_until(b'\n')
        return a + await s.read(1)
    if k == 'pipe':
        sink = _Sink()
        await s.pipe(sink)
        return b''.join(sink.parts)
    if k == 'iter':
        out = []
        async for c in s:
            out.append(c)
        return b''.join(out)
    if k == 'read_then_data':
        a = await s.read(pattern[1])
        return [a, await part.get_data()]
    if k == 'ru_then_read':
        a = await s.read_until(pattern[1])
        return [a, await s.read()]
    if k == 'lines':
        out = []
        while True:
            ln = await s.read_until(b'\n')
            ln += await s.read(1)
            if not ln:
                return out
            out.append(ln)
            if len(out) > 100000:
                raise Violation('endless_stream', 'part.stream.read_until() keeps returning data')
    if k == 'exhaust':
        return await s.exhaust()
    raise AssertionError(pattern)


def _secure(part):
    try:
        return ['ok', part.secure_filename]
    except falcon.MultipartParseError:
        return ['err', 'MultipartParseError']


def _plan_pattern(plan, idx):
    if plan['mode'] == 'patterns':
        pats = plan['patterns']
        return pats[idx] if idx < len(pats) else ['read_all']
    return [{'read': 'read_all'}.get(plan['consume'], plan['consume'])]


def _header_record(part, plan):
    # accessor order is fixed so that both stacks fail (if they fail) at the same accessor
    rec = {'content_type': part.content_type, 'name': part.name, 'filename': part.filename}
    if plan['mode'] == 'patterns':
        rec['secure'] = _secure(part)
    return rec


def parse_sync(make_form, plan):
    """-> {'parts': [record...], 'error': None | class name}."""
    out = {'parts': [], 'error': None}
    try:
        form = make_form()
        idx = 0
        for part in form:
            rec = _header_record(part, plan)
            pat = _plan_pattern(plan, idx)
            try:
                rec['obs'] = consume_sync(part, pat, plan)
            except falcon.HTTPError as e:
                rec['obs'] = _err_obs(e, 'part %d %r' % (idx, pat))
                if plan.get('stop_on_err'):
                    out['parts'].append(rec)
                    return out
            out['parts'].append(rec)
            idx += 1
            if idx > 1000:
                raise Violation('endless_form', 'more than 1000 parts yielded')
    except falcon.HTTPError as e:
        out['error'] = _allowed(e, 'form iteration')
        out['description'] = getattr(e, 'description', None)
    return out


async def parse_async(make_form, plan):
    out = {'parts': [], 'error': None}
    try:
        form = await make_form()
        idx = 0
        async for part in form:
            rec = _header_record(part, plan)
            pat = _plan_pattern(plan, idx)
            try:
                rec['obs'] = await consume_async(part, pat, plan)
            except falcon.HTTPError as e:
                rec['obs'] = _err_obs(e, 'part %d %r' % (idx, pat))
                if plan.get('stop_on_err'):
                    out['parts'].append(rec)
                    return out
            out['parts'].append(rec)
            idx += 1
            if idx > 1000:
                raise Violation('endless_form', 'more than 1000 parts yielded')
    except falcon.HTTPError as e:
        out['error'] = _allowed(e, 'form iteration')
        out['description'] = getattr(e, 'description', None)
    return out


def split(body, sizes, allow_empty=False):
    sizes = list(sizes) or [len(body) or 1]
    if not any(sizes):
        sizes = sizes + [1]
    out = []
    pos = 0
    i = 0
    while pos < len(body):
        n = sizes[i % len(sizes)]
        i += 1
        if n == 0 and not allow_empty:
            n = 1
        out.append(body[pos:pos + n])
        pos += n
    return out


# options / handler objects are long-lived in an application (one per app, used for every request): the harness keeps
# one per configuration as well, so that every form is parsed by objects that have parsed other forms before
_LONG_LIVED = {}


def _limits_key(limits):
    return tuple(sorted((limits or {}).items()))


def _options(limits):
    key = ('options', _limits_key(limits))
    if key not in _LONG_LIVED:
        opts = falcon.RequestOptions()
        if limits:
            handler = MultipartFormHandler()
            for k, v in limits.items():
                setattr(handler.parse_options, k, v)
            opts.media_handlers[falcon.MEDIA_MULTIPART] = handler
        _LONG_LIVED[key] = opts
    return _LONG_LIVED[key]


def _handler(limits):
    key = ('handler', _limits_key(limits))
    if key not in _LONG_LIVED:
        handler = MultipartFormHandler()
        for k, v in (limits or {}).items():
            setattr(handler.parse_options, k, v)
        _LONG_LIVED[key] = handler
    return _LONG_LIVED[key]


def run_wsgi(ct, body, tr, plan, limits=None):
    inp = W.Input(body, tr.get('short'))
    env = W.build_environ('POST', '/submit', headers=[('Content-Type', ct), ('Content-Length', str(len(body)))],
                          input_obj=inp)
    req = falcon.Request(env, options=_options(limits))
    out = parse_sync(req.get_media, plan)
    if inp.pos > len(body):
        raise Violation('wsgi_overread', 'wsgi.input cursor %d beyond Content-Length %d' % (inp.pos, len(body)))
    return out


def run_asgi(ct, body, tr, plan, limits=None):
    headers = [('Content-Type', ct)]
    if tr.get('asgi_cl', True):
        headers.append(('Content-Length', str(len(body))))
    scope = A.build_scope('POST', '/submit', headers=headers)
    pieces = split(body, tr.get('events'))
    events = [{'type': 'http.request', 'body': p, 'more_body': True} for p in pieces]
    if events:
        events[-1]['more_body'] = False
    else:
        events = [{'type': 'http.request', 'body': b'', 'more_body': False}]
    first = events.pop(0) if tr.get('preload') else None
    state = {'i': 0}

    async def receive():
        i = state['i']
        state['i'] = i + 1
        if i < len(events):
            return events[i]
        return {'type': 'http.disconnect'}

    req = falcon.asgi.Request(scope, receive, first_event=first, options=_options(limits))
    return A.run(parse_async(req.get_media, plan))


def run_sync_reader(ct, body, tr, plan, limits=None):
    inp = W.Input(body, tr.get('short'))
    stream = SyncReader(inp.read, len(body), tr['cs'])
    handler = _handler(limits)
    return parse_sync(lambda: handler.deserialize(stream, ct, len(body)), plan)


def run_async_reader(ct, body, tr, plan, limits=None):
    pieces = split(body, tr.get('pieces'), allow_empty=True)

    async def source():
        for p in pieces:
            yield p

    async def make():
        return await handler.deserialize_async(stream, ct, len(body))

    handler = _handler(limits)
    stream = AsyncReader(source(), tr['cs'])
    return A.run(parse_async(make, plan))


TRANSPORTS = [('wsgi', run_wsgi), ('asgi', run_asgi), ('sync_reader', run_sync_reader), ('async_reader', run_async_reader)]
REQUEST_TRANSPORTS = TRANSPORTS[:2]


def guarded(name, fn, ct, body, tr, plan, limits=None):
    try:
        return fn(ct, body, tr, plan, limits)
    except (Violation, stepbudget.BudgetExceeded):
        raise
    except Exception as e:
        where = _from_repo(e)
        if where is None:
            raise
        raise Violation('unexpected_exception',
                        '[%s] %s: %s at %s; content-type %r body=%s transport=%r plan=%r'
                        % (name, type(e).__name__, str(e)[:200], where, ct, _short(body), tr, plan))


def _short(b, n=600):
    if isinstance(b, (bytes, bytearray)):
        if len(b) > n:
            return '%r...(%d bytes)' % (bytes(b[:n]), len(b))
        return repr(bytes(b))
    if not isinstance(b, str):
        b = repr(b)
    if len(b) > 2 * n:
        return '%s...(%d chars)' % (b[:2 * n], len(b))
    return b


def _ctx(ct, body, tr):
    return 'content-type %r body=%s transport=%r' % (ct, _short(body), tr)


# ------------------------------------------------------------------ valid forms


def check_valid_outcome(name, out, form, patterns, ct, body, tr, default_charset=None):
    if out['error'] is not None:
        raise Violation('valid_form_rejected', '[%s] %s (%r) after %d of %d parts; %s'
                        % (name, out['error'], out.get('description'), len(out['parts']), len(form['parts']),
                           _ctx(ct, body, tr)))
    if len(out['parts']) != len(form['parts']):
        raise Violation('part_count', '[%s] parsed %d parts, encoded %d; got %r; %s'
                        % (name, len(out['parts']), len(form['parts']), _short(repr(out['parts'])), _ctx(ct, body, tr)))
    for i, (got, part, pat) in enumerate(zip(out['parts'], form['parts'], patterns)):
        exp = exp_record(part, pat, default_charset)
        for key in ('name', 'filename', 'content_type', 'secure'):
            if got[key] != exp[key]:
                raise Violation('part_' + key, '[%s] part %d: %s = %r, encoded %r (headers %r); %s'
                                % (name, i, key, got[key], exp[key], G.part_header_block(part), _ctx(ct, body, tr)))
        if pat[0] == 'chunked':
            chunks = got['obs']
            if not isinstance(chunks, list) or b''.join(chunks) != b''.join(exp['obs']) \
                    or any(len(c) > pat[1] for c in chunks):
                raise Violation('part_content', '[%s] part %d: read(%d) loop returned %s, content is %s; %s'
                                % (name, i, pat[1], _short(repr(chunks)), _short(G.part_content(part)), _ctx(ct, body, tr)))
        elif got['obs'] != exp['obs']:
            raise Violation('part_content', '[%s] part %d consumed by %r: got %s, expected %s; patterns=%r; %s'
                            % (name, i, pat, _short(repr(got['obs'])), _short(repr(exp['obs'])), patterns,
                               _ctx(ct, body, tr)))


def _reader_edges(body, tr):
    edges = set()
    cs = tr.get('cs')
    if cs:
        edges.update(range(cs, len(body), cs))
        acc = 0
        pos = 0
        for p in split(body, tr.get('pieces'), allow_empty=True):
            if acc >= cs:
                edges.add(pos)
                acc = len(p)
            else:
                acc += len(p)
            pos += len(p)
    else:
        # default chunk sizes: the sync reader fills 32 KiB at a time; the async reader joins events until it
        # holds >= 8 KiB
        ev = (tr.get('events') or [8192])[0] or 1
        step = -(-8192 // ev) * ev
        edges.update(range(step, len(body), step))
        edges.update(range(32768, len(body), 32768))
    return edges


def straddles(form, body, layout, tr):
    """(near-miss prefix straddles an edge, real delimiter straddles an edge, any near miss in a content)."""
    delim = G.delimiter(form)
    edges = _reader_edges(body, tr)
    near = False
    near_straddle = False
    delim_straddle = False
    for pl in layout['parts']:
        cs, ce = pl['content']
        p = body.find(b'\r', cs, ce)
        while p >= 0:
            j = 1
            while j < len(delim) and p + j < ce and body[p + j] == delim[j]:
                j += 1
            if 2 <= j < len(delim):
                near = True
                if any(p < e < p + j for e in edges):
                    near_straddle = True
            p = body.find(b'\r', p + 1, ce)
        if any(ce < e < ce + len(delim) for e in edges):
            delim_straddle = True
    return near_straddle, delim_straddle, near


def _blen_label(n):
    return 'boundary_len:' + ('1' if n == 1 else '2-9' if n < 10 else '10-69' if n < 70 else '70')


def valid_labels(form, patterns, body, layout, tr):
    labels = ['parts:%d' % len(form['parts']), _blen_label(len(form['boundary']))]
    labels.append('preamble' if form.get('preamble') is not None else 'no_preamble')
    labels.append({None: 'no_final_crlf', b'': 'final_crlf'}.get(form.get('tail'), 'epilogue'))
    partial = False
    for part, pat in zip(form['parts'], patterns):
        labels.append('consume:' + pat[0])
        if is_partial(pat, part):
            partial = True
        fn = part.get('filename')
        labels.append('filename:' + ('none' if fn is None else part.get('fn_style', 'plain') +
                                     ('' if fn.isascii() else '_nonascii')))
    ns, ds, near = straddles(form, body, layout, tr)
    if near:
        labels.append('near_miss_in_content')
    if ns:
        labels.append('near_miss_straddles_chunk_edge')
    if ds:
        labels.append('delimiter_straddles_chunk_edge')
    if partial:
        labels.append('partial_consumption')
    return Info(ns or ds or partial, sorted(set(labels)))


def run_valid(case, transports):
    form = case['form']
    tr = case['transport']
    body, layout = G.encode(form)
    ct = G.content_type_header(form)
    patterns = [effective_pattern(p, part) for p, part in zip(case['patterns'], form['parts'])]
    plan = {'mode': 'patterns', 'patterns': patterns}
    dc = case.get('default_charset')
    limits = {'default_charset': dc} if dc else None
    for name, fn in transports:
        out = guarded(name, fn, ct, body, tr, plan, limits)
        check_valid_outcome(name, out, form, patterns, ct, body, tr, dc)
        if len(body) <= 4096:
            # the same long-lived options / handler objects parse the same form a second time: same parts again
            out2 = guarded(name, fn, ct, body, tr, plan, limits)
            if out2 != out:
                raise Violation('second_parse_differs', '[%s] the same form parsed a second time by the same handler / options '
                                'objects gave %s, the first time %s; content-type %r body=%s'
                                % (name, _short(repr(out2), 600), _short(repr(out), 600), ct, _short(repr(body), 600)))
    info = valid_labels(form, patterns, body, layout, tr)
    return Info(info.nontrivial, info.labels + (('default_charset:' + dc,) if dc else ()))


def _confirm(run, budget_of):
    def confirm(case):
        A._LOOP = None
        budget = budget_of(case)
        try:
            stepbudget.run_with_budget(lambda: run(case), budget)
        except stepbudget.BudgetExceeded:
            A._LOOP = None
            return 'parsing did not finish within %d line events (livelock): %s' % (budget, _short(repr(case), 3000))
        except BaseException:
            return None
        return None
    return confirm


def _budget_small(case):
    body, _ = G.encode(case['form'])
    return 2_000_000 + 4000 * len(body)


class _C13Suite(Suite):
    def setup(self):
        _LONG_LIVED.clear()  # a clean suite state = fresh long-lived objects


class Valid(_C13Suite):
    """Generated valid forms (0-5 parts; boundaries of 1-70 characters; hostile contents full of CR, LF, dashes, the
    boundary text and delimiter prefixes; preamble / epilogue / missing final CRLF; plain, raw UTF-8 and RFC 5987
    filenames) parsed four ways - falcon.Request over a short-reading wsgi.input, falcon.asgi.Request over events of
    1-1000 bytes, and both handlers over directly constructed readers whose chunk size is just above the delimiter
    length - with a generated consumption pattern per part (skip, read(k), read(), read(k) loop, get_data, get_text,
    get_media, read_until, readline, pipe, iteration).  Every parse must yield exactly the encoded parts."""

    name = 'valid'
    budget = {'quick': 7000, 'thorough': 150000}
    case_timeout = 20

    def strategy(self, tier):
        return G.valid_cases()

    def run(self, case):
        return run_valid(case, TRANSPORTS)

    confirm_hang = staticmethod(_confirm(lambda c: run_valid(c, TRANSPORTS), _budget_small))


class ValidBig(_C13Suite):
    """Bodies of 8-110 KiB through falcon.Request / falcon.asgi.Request with the default reader chunk sizes: one part
    is padded so that the hostile tail of its content or its closing delimiter lies across a chunk edge of the readers
    (multiples of 32768 for the sync reader; for the async reader multiples of the first event-size multiple >= 8192),
    optionally followed by another 40 KiB (a later part or the epilogue) so that the edge is not the last one; ASGI
    events of 64-16384 bytes, WSGI short reads."""

    name = 'valid_big'
    budget = {'quick': 1000, 'thorough': 20000}
    case_timeout = 20

    def strategy(self, tier):
        return G.big_cases()

    def run(self, case):
        return run_valid(case, REQUEST_TRANSPORTS)

    confirm_hang = staticmethod(_confirm(lambda c: run_valid(c, REQUEST_TRANSPORTS), lambda c: 60_000_000))


class ValidSweep(_C13Suite):
    """Six fixed small forms x every 2-split of the body (WSGI first short read, ASGI two events, reader source in
    two pieces) x reader chunk sizes delimiter+0.. x three consumption presets (read all / skip all / partial)."""

    name = 'valid_sweep'
    exhaustive = True
    budget = {'quick': 1, 'thorough': 1}
    case_timeout = 20

    def cases(self, tier):
        return G.sweep_cases(tier)

    def run(self, case):
        return run_valid(case, TRANSPORTS)

    confirm_hang = staticmethod(_confirm(lambda c: run_valid(c, TRANSPORTS), _budget_small))


class CharsetEnum(_C13Suite):
    """Text decoding options, exhaustively (720 cases x 4 transports): part Content-Type absent / text/plain with no,
    a valid, another valid and an unknown charset / a non-text type; contents that are ASCII, UTF-8 that reads
    differently as Latin-1, not UTF-8, empty; MultipartParseOptions.default_charset unset, iso-8859-1, ascii, utf-16,
    an unknown name; read with get_text and get_data; the part alone, first and last.  The text must be the content
    decoded with the part's charset, else the configured default, else UTF-8 (MultipartParseError when that fails),
    identically on the WSGI and ASGI parsers."""

    name = 'charset_enum'
    exhaustive = True
    budget = {'quick': 1, 'thorough': 1}
    case_timeout = 20

    def cases(self, tier):
        return G.charset_cases(tier)

    def run(self, case):
        info = run_valid(case, TRANSPORTS)
        me = [p for p in case['form']['parts'] if p['name'] == 't'][0]
        content = G.part_content(me)
        nontrivial = bool(case.get('default_charset')) and not (me.get('ctype') or [None, None])[1] and not content.isascii()
        return Info(nontrivial, info.labels + ('charset_param:%s' % ((me.get('ctype') or [None, None])[1]),))

    confirm_hang = staticmethod(_confirm(lambda c: run_valid(c, TRANSPORTS), _budget_small))


# ------------------------------------------------------------------ limits


def run_limits(case):
    form = case['form']
    tr = case['transport']
    which = case['which']
    parts = form['parts']
    n = len(parts)
    body, layout = G.encode(form)
    ct = G.content_type_header(form)
    idx = min(case['index'], max(0, n - 1))
    labels = ['limit:' + which, 'delta:%+d' % case['delta'], 'parts:%d' % n]

    if which == 'count':
        limit = max(0, n + case['delta'])
        limits = {'max_body_part_count': limit}
        patterns = [['read_all']] * n
        reject_at = None if (limit == 0 or n <= limit) else limit
        exp_parts = [exp_record(p, pat) for p, pat in zip(parts, patterns)]
        actual = n
    elif which == 'headers':
        sizes = [len(G.part_header_block(p)) for p in parts]
        actual = sizes[idx]
        limit = max(0, actual + case['delta'])
        limits = {'max_body_part_headers_size': limit}
        patterns = [['read_all']] * n
        over = [j for j, s in enumerate(sizes) if s > limit]
        reject_at = over[0] if over else None
        exp_parts = [exp_record(p, pat) for p, pat in zip(parts, patterns)]
    else:
        sizes = [len(G.part_content(p)) for p in parts]
        actual = sizes[idx]
        limit = max(0, actual + case['delta'])
        limits = {'max_body_part_buffer_size': limit}
        patterns = [['text'] if (case['use_text'] and G.part_base(p) == 'text/plain') else ['data'] for p in parts]
        reject_at = None
        exp_parts = []
        for j, (p, pat) in enumerate(zip(parts, patterns)):
            rec = exp_record(p, pat)
            if sizes[j] > limit:
                rec['obs'] = ['err', 'MultipartParseError']
            exp_parts.append(rec)
            if isinstance(rec['obs'], list) and rec['obs'][:1] == ['err']:
                break
    if case.get('defaults'):
        # the DOCUMENTED defaults (64 parts, 8192 header bytes, 1 MiB buffered content): nothing is configured
        if limit != {'count': 64, 'headers': 8192, 'buffer': 1024 * 1024}[which]:
            raise HarnessError('default-limit case does not sit on the documented default: %r' % (limit,))
        limits = {}
        labels.append('documented_default')
    labels.append('expect:' + ('accept' if reject_at is None and len(exp_parts) == n and not any(
        isinstance(r['obs'], list) and r['obs'][:1] == ['err'] for r in exp_parts) else 'reject'))
    plan = {'mode': 'patterns', 'patterns': patterns, 'stop_on_err': which == 'buffer'}
    outs = []
    for name, fn in REQUEST_TRANSPORTS:
        out = guarded(name, fn, ct, body, tr, plan, limits)
        outs.append(out)
        ctx = '%s=%d (actual %d) %s' % (list(limits)[0] if limits else 'default limit on ' + which, limit, actual, _ctx(ct, body[:2000], tr))
        if which == 'buffer':
            if out['error'] is not None:
                raise Violation('limit_buffer', '[%s] form iteration failed with %s (%r); %s'
                                % (name, out['error'], out.get('description'), ctx))
            if out['parts'] != exp_parts:
                raise Violation('limit_buffer', '[%s] got %s, expected %s (sizes %r); %s'
                                % (name, _short(repr(out['parts'])), _short(repr(exp_parts)), sizes, ctx))
            continue
        if reject_at is None:
            if out['error'] is not None or out['parts'] != exp_parts:
                raise Violation('limit_rejects_at_threshold',
                                '[%s] form within the limit was not parsed completely: error=%r (%r), %d of %d parts%s; %s'
                                % (name, out['error'], out.get('description'), len(out['parts']), n,
                                   '' if out['parts'] == exp_parts[:len(out['parts'])] else ' (parts differ)', ctx))
        else:
            if out['error'] != 'MultipartParseError':
                raise Violation('limit_not_enforced',
                                '[%s] expected MultipartParseError once part %d is reached, got error=%r and %d parts; %s'
                                % (name, reject_at, out['error'], len(out['parts']), ctx))
            if len(out['parts']) > reject_at or out['parts'] != exp_parts[:len(out['parts'])]:
                raise Violation('limit_prefix', '[%s] parts yielded before the limit error are not a prefix of the first %d '
                                'encoded parts: %s; %s' % (name, reject_at, _short(repr(out['parts'])), ctx))
    if (outs[0]['error'], outs[0]['parts']) != (outs[1]['error'], outs[1]['parts']):
        raise Violation('wsgi_asgi_disagree', 'limits %r: wsgi %s vs asgi %s; %s'
                        % (limits, _short(repr(outs[0])), _short(repr(outs[1])), _ctx(ct, body, tr)))
    return Info(case['delta'] <= 0 and (which != 'count' or limit > 0), sorted(set(labels)))


class Limits(_C13Suite):
    """MultipartParseOptions limits at actual-1 / actual / actual+1: max_body_part_count against the number of parts
    (0 = unlimited), max_body_part_buffer_size against one part's content length (get_data / get_text),
    max_body_part_headers_size against one part's header block; configured on a custom handler in
    RequestOptions.media_handlers; WSGI and ASGI requests.  Accepted at the threshold, MultipartParseError one past."""

    name = 'limits'
    budget = {'quick': 4000, 'thorough': 80000}
    case_timeout = 20

    def strategy(self, tier):
        return G.limit_cases()

    def run(self, case):
        return run_limits(case)

    confirm_hang = staticmethod(_confirm(run_limits, _budget_small))


class DefaultLimits(_C13Suite):
    """Sizes / counts at the DOCUMENTED default limits, with nothing configured: forms of 63 / 64 / 65 / 130 parts (default
    max_body_part_count 64), a part of 1 MiB - 1 / 1 MiB / 1 MiB + 1 bytes read with get_data() / get_text() (default
    max_body_part_buffer_size), a header block of 8191 / 8192 / 8193 bytes (default max_body_part_headers_size); WSGI
    and ASGI.  Accepted at the default, MultipartParseError one past, the parts before the error a correct prefix."""

    name = 'default_limits'
    exhaustive = True
    budget = {'quick': 1, 'thorough': 1}
    case_timeout = 60

    def cases(self, tier):
        for n in (63, 64, 65, 130):
            yield {'which': 'count', 'n': n}
        for d in (-1, 0, 1):
            for use_text in (False, True):
                yield {'which': 'buffer', 'd': d, 'use_text': use_text}
            yield {'which': 'headers', 'd': d}

    def run(self, case):
        which = case['which']
        tr = {'short': [0], 'events': [65536], 'preload': True, 'asgi_cl': True}
        form = {'boundary': 'vf-default-limits', 'quote_boundary': False, 'preamble': None, 'tail': b''}
        if which == 'count':
            n = case['n']
            form['parts'] = [G._p('f%d' % i, b'v%d' % i) for i in range(n)]
            full = {'form': form, 'which': 'count', 'delta': 64 - n, 'index': 0, 'use_text': False, 'transport': tr, 'defaults': True}
        elif which == 'buffer':
            size = 1024 * 1024 + case['d']
            form['parts'] = [G._p('small', b'first'), G._p('big', b'end', ctype=['text/plain', None], pad=size - 3), G._p('after', b'x')]
            full = {'form': form, 'which': 'buffer', 'delta': -case['d'], 'index': 1, 'use_text': case['use_text'], 'transport': tr, 'defaults': True}
        else:
            part = G._p('h', b'content', extra=[['X-Pad', 'p']])
            base = len(G.part_header_block(part))
            part['extra'] = [['X-Pad', 'p' * (1 + 8192 + case['d'] - base)]]
            form['parts'] = [G._p('small', b'first'), part, G._p('after', b'x')]
            full = {'form': form, 'which': 'headers', 'delta': -case['d'], 'index': 1, 'use_text': False, 'transport': tr, 'defaults': True}
        try:
            info = run_limits(full)
        except Violation as v:
            d = v.detail
            raise Violation(v.kind, '%s ... %s\n  compact case=%r' % (d[:600], d[-200:], case))
        return Info(True, info.labels)

    confirm_hang = None



# ------------------------------------------------------------------ corruptions


def corrupt_record(rec):
    return [rec['name'], rec['filename'], rec['content_type'], rec['obs']]


def exp_corrupt_parts(form, consume, replace=None):
    out = []
    for i, part in enumerate(form['parts']):
        content = G.part_content(part)
        if replace is not None and replace[0] == i:
            content = replace[1]
        if consume == 'skip':
            obs = None
        elif consume == 'text':
            obs = exp_text(part, content)
        else:
            obs = content
        out.append([part['name'], part.get('filename'), G.part_ctype_value(part) or 'text/plain', obs])
    return out


def check_containment(body, delim, parts, complete, ctx):
    """Every content is a slice of the body that follows a blank line (CRLF CRLF), contains no delimiter and is
    directly followed by one (the last one by the close delimiter when the form was accepted); slices are
    disjoint and in order.  Leftmost-feasible placement is complete for this kind of constraint."""
    cursor = 0
    for i, rec in enumerate(parts):
        c = rec[3]
        if not isinstance(c, bytes):
            return
        if delim in c:
            raise Violation('content_contains_delimiter', 'part %d content %s contains %r; %s' % (i, _short(c), delim, ctx))
        last = i == len(parts) - 1
        follow = delim + b'--' if (last and complete) else delim
        p = body.find(c, cursor)
        found = -1
        while p >= 0:
            end = p + len(c)
            ok_before = p >= 4 and body[p - 4:p] == b'\r\n\r\n'
            ok_after = body.startswith(follow, end) or (last and not complete and end == len(body))
            if ok_before and ok_after:
                found = p
                break
            p = body.find(c, p + 1)
        if found < 0:
            raise Violation('content_not_a_part_of_body',
                            'part %d content %s is not a slice of the body at/after offset %d that follows CRLF CRLF and is '
                            'followed by %r; parts=%s; %s' % (i, _short(c), cursor, follow, _short(repr(parts)), ctx))
        cursor = found + len(c) + len(delim)


def run_corrupt(case):
    form = case['form']
    tr = case['transport']
    edit = case['edit']
    consume = case['consume']
    body0, layout = G.encode(form)
    kind, pos, byte = edit
    hi = len(body0) if kind in ('ins', 'trunc') else len(body0) - 1
    if pos > hi or pos < 0:
        return Info(False, ('edit_out_of_range',))
    body = G.apply_edit(body0, edit)
    pred = G.predict(form, body0, layout, edit)
    ct = G.content_type_header(form)
    delim = G.delimiter(form)
    plan = {'mode': 'corrupt', 'consume': consume}
    ctx = 'edit=%r of valid body %s -> %s; content-type %r; consume=%r transport=%r' % (
        edit, _short(body0), _short(body), ct, consume, tr)
    outs = []
    for name, fn in TRANSPORTS:
        out = guarded(name, fn, ct, body, tr, plan)
        outs.append((name, [corrupt_record(r) for r in out['parts']], out['error'], out.get('description')))
    ref = outs[0]
    for o in outs[1:]:
        if (o[1], o[2] is None) != (ref[1], ref[2] is None):
            raise Violation('stacks_disagree', '%s: parts=%s error=%r (%r)  vs  %s: parts=%s error=%r (%r); %s'
                            % (ref[0], _short(repr(ref[1])), ref[2], ref[3], o[0], _short(repr(o[1])), o[2], o[3], ctx))
    _, parts, error, descr = ref
    if consume in ('read', 'data'):
        check_containment(body, delim, parts, error is None, ctx)
    labels = ['edit:' + kind, 'outcome:' + ('accepted' if error is None else 'rejected'),
              'predicted:' + (pred[0] if pred else 'none'), 'consume:' + consume]
    if pred is not None:
        if pred[0] == 'reject':
            if error is None:
                raise Violation('truncated_form_accepted', 'body cut before the end of the close delimiter was accepted '
                                'with parts %s; %s' % (_short(repr(parts)), ctx))
        else:
            exp = exp_corrupt_parts(form, consume, (pred[1], pred[2]) if pred[0] == 'content' else None)
            if error is not None or parts != exp:
                raise Violation('harmless_edit_changed_form',
                                'prediction %s: expected %s, got parts=%s error=%r (%r); %s'
                                % (pred[0], _short(repr(exp)), _short(repr(parts)), error, descr, ctx))
    return Info(pred is not None, labels)


class Corrupt(_C13Suite):
    """A generated valid body with one byte replaced / deleted / inserted at a generated position, or truncated, parsed
    four ways (WSGI, ASGI, both small-chunk readers).  Each outcome is a part list or MultipartParseError (any 4xx
    HTTPError), never another exception or a hang; all four agree; accepted contents are disjoint ordered slices of the
    corrupted body between a blank line and a delimiter; edits inside one content / the preamble / the epilogue that
    create no delimiter give exactly the predicted form; truncation before the close delimiter is rejected."""

    name = 'corrupt'
    budget = {'quick': 8000, 'thorough': 200000}
    case_timeout = 20

    def strategy(self, tier):
        return G.corrupt_cases()

    def run(self, case):
        return run_corrupt(case)

    confirm_hang = staticmethod(_confirm(run_corrupt, _budget_small))


class CorruptEnum(_C13Suite):
    """Exhaustive: every position of the fixed small bodies (<= 120 bytes) x replace / insert with each byte of a
    hostile alphabet, delete, truncate (quick: 4 forms x 8 bytes; thorough: 6 forms x 19 bytes)."""

    name = 'corrupt_enum'
    exhaustive = True
    budget = {'quick': 1, 'thorough': 1}
    case_timeout = 20

    def cases(self, tier):
        return G.corrupt_enum_cases(tier)

    def run(self, case):
        return run_corrupt(case)

    confirm_hang = staticmethod(_confirm(run_corrupt, _budget_small))


def run_header_param(case):
    boundary = case['boundary']
    form = {'boundary': boundary, 'quote_boundary': False, 'preamble': None, 'tail': b'',
            'parts': [G._p('a', b'x\r\n--' + boundary.encode('ascii')[:-1])]}
    body, _ = G.encode(form)
    ct = case['content_type']
    tr = {'short': [0], 'events': [7], 'preload': False, 'asgi_cl': True}
    plan = {'mode': 'patterns', 'patterns': [['read_all']]}
    outs = []
    for name, fn in REQUEST_TRANSPORTS:
        out = guarded(name, fn, ct, body, tr, plan)
        outs.append(out)
        if case['expect'] == 'ok':
            check_valid_outcome(name, out, form, plan['patterns'], ct, body, tr)
        elif out['error'] is None:
            raise Violation('invalid_boundary_accepted', '[%s] Content-Type %r was accepted: parts %s'
                            % (name, ct, _short(repr(out['parts']))))
    if (outs[0]['error'], outs[0]['parts']) != (outs[1]['error'], outs[1]['parts']):
        raise Violation('wsgi_asgi_disagree', 'Content-Type %r: wsgi %s vs asgi %s'
                        % (ct, _short(repr(outs[0])), _short(repr(outs[1]))))
    return Info(True, ('expect:' + case['expect'], 'error:%s' % outs[0]['error']))


class HeaderParam(_C13Suite):
    """Exhaustive list of Content-Type header variants around the boundary parameter (missing, empty, 70 / 71 / 200
    characters, quoted, upper-case parameter name, trailing white space that RFC 2046 says must be deleted, extra
    parameters): valid ones parse the fixed form, invalid ones raise a 4xx HTTPError, WSGI and ASGI agree."""

    name = 'header_param'
    exhaustive = True
    max_shards = 1
    budget = {'quick': 1, 'thorough': 1}
    case_timeout = 20

    def cases(self, tier):
        return G.header_param_cases(tier)

    def run(self, case):
        return run_header_param(case)

    confirm_hang = staticmethod(_confirm(run_header_param, lambda c: 2_000_000))


SUITES = [Valid(), ValidBig(), ValidSweep(), CharsetEnum(), Limits(), DefaultLimits(), Corrupt(), CorruptEnum(), HeaderParam()]


def _known_f13(suite_name, case, violation):
    # F13: a part header with a byte that is not UTF-8 (Content-Disposition) / not ASCII (Content-Type)
    return (suite_name in ('corrupt', 'corrupt_enum') and violation.kind in ('unexpected_exception', 'internal_error')
            and 'UnicodeDecodeError' in violation.detail and 'falcon/media/multipart.py' in violation.detail)


def _known_boundary_comma(suite_name, case, violation):
    # F17 (C11) seen from here: Content-Type: multipart/form-data; boundary="a,b" -> 415 from media handler resolution
    return (',' in (case.get('form') or {}).get('boundary', '') and violation.kind == 'valid_form_rejected'
            and 'HTTPUnsupportedMediaType' in violation.detail)


def _known_rfc5987_language(suite_name, case, violation):
    # filename*=UTF-8'en-US'... (hyphenated RFC 5646 language tag) is not recognised as an extended value
    return (violation.kind == 'part_filename'
            and any('-' in (p.get('fn_lang') or '') for p in (case.get('form') or {}).get('parts', ())))


# predicates are only consulted for ids listed as kind=known in known_findings.jsonl
KNOWN = {'F13': _known_f13, 'F17b': _known_boundary_comma, 'F22': _known_rfc5987_language}
