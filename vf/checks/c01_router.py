"""C01 — Compiled router resolves every path exactly as the URI-template tree dictates."""
import itertools
import re
import uuid

from hypothesis import strategies as st

from falcon.routing import CompiledRouter
from falcon.routing.compiled import UnacceptableRouteError
from falcon.routing.converters import BaseConverter

from vf.core import Info, Suite, Violation

LEVEL = 'exploration'
RULE = (
    'a case = a history of add_route(template, compile flag) and find(path) operations on one CompiledRouter, '
    'followed by lookups of every path (<= depth+1 segments) over segment representatives of the accepted route set; '
    'non-trivial = some lookup matched only after backtracking out of a sibling subtree, or a converter vetoed a '
    'segment, or a rejected add preceded an accepted one; distinct = distinct case fingerprint'
)
ASSUMPTIONS = [
    'reference = recursive DFS over a tree built from the accepted template texts (never reads router internals)',
    'multi-field segments use Python re greedy semantics with literal text matched literally',
    'int/uuid converter semantics are re-implemented from their documentation (strip check + int(), uuid.UUID)',
    'converter arguments containing "}" are not generated (documented grammar limitation)',
]


class ABConverter(BaseConverter):
    """Harness-registered converter accepting exactly a, b, ab (frequent vetoes)."""

    def convert(self, value):
        return value.upper() if value in ('a', 'b', 'ab') else None


class RestConverter(object):
    """A duck-typed converter (deliberately NOT a BaseConverter subclass; supported by the router) that consumes
    the remaining segments."""

    CONSUME_MULTIPLE_SEGMENTS = True

    def convert(self, value):
        return '|'.join(value)


class SafeRestConverter(RestConverter):
    """A rest-of-path converter that may VETO: it refuses remainders that contain a 'zz' or '..' segment (converters
    may veto a match, whatever they consume)."""

    def convert(self, value):
        if 'zz' in value or '..' in value:
            return None
        return '|'.join(value)


class Res(object):
    def __init__(self, ident):
        self.ident = ident

    def on_get(self, req, resp, **kw):
        pass


# ------------------------------------------------------------------ reference

_FIELD = re.compile(r'\{([^}:]*)(?::([^}(]*)(?:\(([^}]*)\))?)?\}')


def _ref_int(nd=None, lo=None, hi=None):
    def conv(v):
        if nd is not None and len(v) != nd:
            return None
        if v.strip() != v:
            return None
        try:
            n = int(v)
        except ValueError:
            return None
        if lo is not None and n < lo:
            return None
        if hi is not None and n > hi:
            return None
        return n
    return conv


def _ref_uuid(v):
    try:
        return uuid.UUID(v)
    except ValueError:
        return None


def _ref_float(lo=None, hi=None, finite=True):
    """Documented: min / max reject values outside the bounds; finite=False additionally matches nan, inf, -inf (a NaN
    compares false with every bound, so only the infinities can violate one)."""
    import math

    def conv(v):
        if v.strip() != v:
            return None
        try:
            x = float(v)
        except ValueError:
            return None
        if finite and not math.isfinite(x):
            return None
        if lo is not None and x < lo:
            return None
        if hi is not None and x > hi:
            return None
        return x
    return conv


REF_CONVERTERS = {
    ('float', None): _ref_float(),
    ('float', 'max=100'): _ref_float(None, 100),
    ('float', 'finite=False'): _ref_float(None, None, False),
    ('float', 'max=100,finite=False'): _ref_float(None, 100, False),
    ('float', 'min=-5,finite=False'): _ref_float(-5, None, False),
    ('int', None): _ref_int(),
    ('int', '2'): _ref_int(2),
    ('int', 'min=1,max=9'): _ref_int(None, 1, 9),
    ('int', 'min=0'): _ref_int(None, 0, None),
    ('int', 'max=0'): _ref_int(None, None, 0),
    ('float', 'min=0,max=1'): _ref_float(0, 1),
    ('uuid', None): _ref_uuid,
    ('ab', None): lambda v: v.upper() if v in ('a', 'b', 'ab') else None,
    ('path', None): 'PATH',
    ('rest', None): 'REST',
    ('saferest', None): 'SAFEREST',
}


class RNode(object):
    def __init__(self, raw):
        self.raw = raw
        self.children = []
        self.route = None  # (template, resource ident)
        ms = list(_FIELD.finditer(raw))
        self.fields = [(m.group(1), m.group(2) or None, m.group(3)) for m in ms]
        if not ms:
            self.kind = 0
        elif len(ms) == 1 and ms[0].span() == (0, len(raw)):
            self.kind = 2
        else:
            self.kind = 1
            parts = []
            pos = 0
            for m in ms:
                parts.append(re.escape(raw[pos:m.start()]))
                parts.append('(?P<%s>.+)' % m.group(1))
                pos = m.end()
            parts.append(re.escape(raw[pos:]))
            self.regex = re.compile('^' + ''.join(parts) + '$')
        self.is_path = self.kind == 2 and self.fields[0][1] in ('path', 'rest', 'saferest')


class RefRouter(object):
    def __init__(self):
        self.roots = []

    def add(self, template, ident):
        segs = template.lstrip('/').split('/')
        nodes = self.roots
        node = None
        for s in segs:
            for n in nodes:
                if n.raw == s:
                    node = n
                    break
            else:
                node = RNode(s)
                nodes.append(node)
            nodes = node.children
        node.route = (template, ident)

    def find(self, uri, stats=None):
        path = uri.lstrip('/').split('/')
        n = len(path)

        def match(node, level):
            """Return dict of params if node matches path[level], else None."""
            seg = path[level]
            if node.kind == 0:
                return {} if seg == node.raw else None
            if node.kind == 2:
                name, cname, arg = node.fields[0]
                if cname is None:
                    return {name: seg}
                conv = REF_CONVERTERS[(cname, arg)]
                if conv == 'PATH':
                    return {name: '/'.join(path[level:])}
                if conv == 'REST':
                    return {name: '|'.join(path[level:])}
                if conv == 'SAFEREST':
                    if 'zz' in path[level:] or '..' in path[level:]:
                        if stats is not None:
                            stats['veto'] = True
                        return None
                    return {name: '|'.join(path[level:])}
                v = conv(seg)
                if v is None:
                    if stats is not None:
                        stats['veto'] = True
                    return None
                return {name: v}
            m = node.regex.match(seg)
            if m is None:
                return None
            groups = m.groupdict()
            out = {}
            for name, cname, arg in node.fields:
                if cname is not None:
                    v = REF_CONVERTERS[(cname, arg)](groups.pop(name))
                    if v is None:
                        if stats is not None:
                            stats['veto'] = True
                        return None
                    out[name] = v
            out.update(groups)
            return out

        def walk(nodes, level, acc):
            if level >= n:
                return None
            for node in sorted(nodes, key=lambda x: x.kind):
                p = match(node, level)
                if p is None:
                    continue
                acc2 = acc + [p]
                if node.is_path:
                    return node.route, acc2
                if node.children and level + 1 < n:
                    r = walk(node.children, level + 1, acc2)
                    if r is not None:
                        return r
                    if stats is not None:
                        stats['failed_subtree'] = stats.get('failed_subtree', 0) + 1
                if node.route is not None and level + 1 == n:
                    return node.route, acc2
            return None

        failed_before = stats.get('failed_subtree', 0) if stats is not None else 0
        r = walk(self.roots, 0, [])
        if r is None:
            return None
        if stats is not None and stats.get('failed_subtree', 0) > failed_before:
            stats['backtracked_match'] = True
        route, plist = r
        params = {}
        for p in plist:
            params.update(p)
        return route[0], route[1], params


# ------------------------------------------------------------------ vocabulary

LITERALS = ['a', 'b', 'ab', 'a.b', '1', '12', 'x-y', "it's", 'a\\b', 'x']
NAMES = ['f', 'g', 'h', 'k']


def _seg_templates():
    out = []
    for n in NAMES[:2]:
        out += ['{%s}' % n, '{%s:int}' % n, '{%s:int(2)}' % n, '{%s:int(min=1,max=9)}' % n, '{%s:uuid}' % n, '{%s:ab}' % n]
    out += ['{f:int(min=0)}', '{g:int(max=0)}', '{h:float(min=0,max=1)}']
    out += ['{f:float}', '{g:float(max=100)}', '{f:float(finite=False)}', '{g:float(max=100,finite=False)}',
            '{h:float(min=-5,finite=False)}']
    out += ['{f:int}-{g:int}', '{h:int}-{k:int(2)}', '{f}-{g}', '{f}.{g}', 'x{f}', '{f:int}x{g}', '{f}\\d', '{h}-{k}', 'x{h:ab}', 'a{b}', '{f}x', '{g:int}-{h}']
    return out


VAR_SEGS = _seg_templates()
PATH_SEGS = ['{f:path}', '{k:path}', '{g:rest}', '{h:saferest}']
BAD_SEGS = ['{f:nope}', '{class}', 'a b', '{f:path}x', 'x{g:path}', '{f:int(0)}', '{f:}', '{9x}', '{f}{f}', '{f} {g}',
            # field names that are almost identifiers: trailing / embedded line breaks, blanks, quotes, a backslash
            '{f\n}', '{g\n:int}', 'x{h\n}', '{f\r}', '{f\t}', '{ f}', "{f'}", '{f"}', '{f\\}', '{f\n}-{g}', '{\nf}']

UUID_OK = '12345678-1234-5678-1234-567812345678'


def _fillers(cname, arg):
    if cname is None:
        return ['a', 'x-y']
    if cname == 'int':
        if arg == '2':
            return ['12', '7', ' 7']
        if arg in ('min=0', 'max=0'):
            return ['-1', '0', '1']
        if arg:
            return ['5', '0', '12']
        return ['7', '007', ' 7', 'x']
    if cname == 'float':
        if arg == 'min=0,max=1':
            return ['-0.25', '0', '0.5', '1', '1.5']
        return ['1.5', 'inf', '-inf', 'nan', '1e3', '50', ' 5', 'x']
    if cname == 'uuid':
        return [UUID_OK, 'x']
    if cname == 'ab':
        return ['a', 'ab', 'c']
    if cname in ('path', 'rest', 'saferest'):
        return ['a']
    return ['a']


def seg_probes(raw):
    """Strings that do / do not match a template segment."""
    ms = list(_FIELD.finditer(raw))
    if not ms:
        return [raw]
    fills = [_fillers(m.group(2) or None, m.group(3)) for m in ms]
    out = []
    for k, combo in enumerate(itertools.product(*fills)):
        if k >= 6:
            break
        pos = 0
        s = ''
        for m, f in zip(ms, combo):
            s += raw[pos:m.start()] + f
            pos = m.end()
        s += raw[pos:]
        out.append(s)
    return out


GENERIC = ['', 'zz', '7', 'a', 'x-y-z', '15']


def probe_paths(templates, cap):
    """All paths of <= depth+1 segments over per-depth segment representatives (strided when > cap)."""
    per_depth = []
    maxd = 0
    for t in templates:
        segs = t.lstrip('/').split('/')
        maxd = max(maxd, len(segs))
        for d, s in enumerate(segs):
            while len(per_depth) <= d:
                per_depth.append([])
            for p in seg_probes(s):
                if p not in per_depth[d]:
                    per_depth[d].append(p)
    maxd = min(maxd + 1, 5)
    while len(per_depth) < maxd:
        per_depth.append([])
    for d in range(maxd):
        for g in GENERIC:
            if g not in per_depth[d]:
                per_depth[d].append(g)
    paths = []
    total = 0
    for depth in range(1, maxd + 1):
        sizes = [len(per_depth[d]) for d in range(depth)]
        count = 1
        for s in sizes:
            count *= s
        total += count
    stride = max(1, (total + cap - 1) // cap)
    idx = 0
    for depth in range(1, maxd + 1):
        for combo in itertools.product(*[per_depth[d] for d in range(depth)]):
            if idx % stride == 0:
                paths.append('/' + '/'.join(combo))
            idx += 1
    return paths, stride


# ------------------------------------------------------------------ execution


def new_router():
    r = CompiledRouter()
    r.options.converters['ab'] = ABConverter
    r.options.converters['rest'] = RestConverter
    r.options.converters['saferest'] = SafeRestConverter
    return r


def real_find(router, path, what):
    try:
        r = router.find(path)
    except Exception as e:
        raise Violation('find_raised', '%s: find(%r) raised %s: %s' % (what, path, type(e).__name__, str(e)[:300]))
    if r is None:
        return None
    resource, method_map, params, template = r
    return template, getattr(resource, 'ident', None), params


def same(a, b):
    if a is None or b is None:
        return a is None and b is None
    if a[0] != b[0] or a[1] != b[1]:
        return False
    pa, pb = a[2], b[2]
    if set(pa) != set(pb):
        return False
    return all(type(pa[k]) is type(pb[k]) and (pa[k] == pb[k] or (type(pa[k]) is float and pa[k] != pa[k] and pb[k] != pb[k]))
               for k in pa)


_FIELD_NAME = re.compile(r'{([^}:]*)', re.S)
_IDENT = re.compile(r'[A-Za-z_][A-Za-z0-9_]*')


def run_history(case, cap):
    ops = case['ops']
    live = new_router()
    ref = RefRouter()
    accepted = []  # (template, ident, compile)
    stats = {}
    rejected_before_accept = False
    seen_reject = False
    hist = []
    n_lookups = 0
    for i, op in enumerate(ops):
        if op[0] == 'add':
            t, flag = op[1], bool(op[2])
            res = Res(i)
            try:
                live.add_route(t, res, compile=flag)
                ok = True
            except UnacceptableRouteError:
                ok = False
            except Exception as e:
                raise Violation('add_route_internal_error', 'history %r: add_route(%r, compile=%s) raised %s: %s'
                                % (hist, t, flag, type(e).__name__, str(e)[:300]))
            hist.append(('add', t, flag, 'accepted' if ok else 'rejected'))
            if ok:
                bad = [n for n in _FIELD_NAME.findall(t) if not _IDENT.fullmatch(n)]
                if bad:
                    # documented: "Field names must be valid identifiers" (they become responder keyword arguments and
                    # are written into the generated finder): such a template must be refused, not compiled
                    raise Violation('invalid_template_accepted', 'history %r: add_route(%r) was accepted although the field name(s) %r '
                                    'are not identifiers' % (hist, t, bad))
                accepted.append((t, i, flag))
                ref.add(t, i)
                if seen_reject:
                    rejected_before_accept = True
            else:
                seen_reject = True
                # a rejected template must also be rejected by a router that never saw earlier rejected adds
                fresh = new_router()
                for (t2, i2, f2) in accepted:
                    fresh.add_route(t2, Res(i2))
                try:
                    fresh.add_route(t, res)
                except UnacceptableRouteError:
                    pass
                else:
                    raise Violation('rejected_add_not_noop', 'history %r: %r is rejected here but accepted by a fresh router holding '
                                    'only the accepted templates %r (an earlier rejected add left state behind)'
                                    % (hist, t, [a[0] for a in accepted]))
        else:
            path = op[1]
            got = real_find(live, path, 'history %r' % (hist,))
            exp = ref.find(path, stats)
            n_lookups += 1
            if not same(got, exp):
                raise Violation('find_mismatch', 'history %r: find(%r) = %r, reference walk %r' % (hist, path, got, exp))
            hist.append(('find', path))
    # closing batch on the live router, and on a twin built from the accepted adds only with opposite compile flags
    twin = new_router()
    for (t, i, flag) in accepted:
        try:
            twin.add_route(t, Res(i), compile=not flag)
        except UnacceptableRouteError:
            raise Violation('accepted_add_rejected_by_twin', 'history %r: %r was accepted, but a fresh router given only the '
                            'accepted templates rejects it' % (hist, t))
        except Exception as e:
            raise Violation('add_route_internal_error', 'twin of history %r: add_route(%r, compile=%s) raised %s: %s'
                            % (hist, t, not flag, type(e).__name__, str(e)[:300]))
    paths, stride = probe_paths([a[0] for a in accepted], cap)
    for path in paths:
        exp = ref.find(path, stats)
        got = real_find(live, path, 'history %r' % (hist,))
        if not same(got, exp):
            raise Violation('find_mismatch', 'history %r: find(%r) = %r, reference walk %r' % (hist, path, got, exp))
        got2 = real_find(twin, path, 'twin (accepted adds only, opposite compile flags) of history %r' % (hist,))
        if not same(got2, exp):
            raise Violation('find_mismatch_twin', 'history %r: twin router (accepted adds only, opposite compile flags) '
                            'find(%r) = %r, reference walk %r' % (hist, path, got2, exp))
        n_lookups += 1
    labels = []
    if stats.get('backtracked_match'):
        labels.append('backtracked_match')
    if stats.get('veto'):
        labels.append('converter_veto')
    if rejected_before_accept:
        labels.append('rejected_then_accepted')
    if seen_reject:
        labels.append('has_rejected_add')
    if any(a[2] for a in accepted):
        labels.append('compile_flag_used')
    if stride > 1:
        labels.append('lookups_strided')
    labels.append('routes:%d' % min(len(accepted), 6))
    nt = bool(stats.get('backtracked_match') or stats.get('veto') or rejected_before_accept)
    return Info(nt, labels), n_lookups


# ------------------------------------------------------------------ generators

_lit = st.sampled_from(LITERALS)
_var = st.sampled_from(VAR_SEGS)
_seg = st.one_of(_lit, _lit, _var, _var, st.sampled_from(BAD_SEGS))


@st.composite
def _template(draw):
    n = draw(st.integers(1, 4))
    segs = [draw(_seg) for _ in range(n)]
    r = draw(st.integers(0, 9))
    if r == 0:
        segs.append(draw(st.sampled_from(PATH_SEGS)))
    elif r == 1:
        segs.insert(draw(st.integers(0, len(segs))), draw(st.sampled_from(PATH_SEGS)))
    elif r == 2:
        segs.append('')  # trailing slash
    return '/' + '/'.join(segs)


@st.composite
def _colliding_pair(draw):
    """Two templates over the same literal skeleton: each generalises a different segment to a field and
    then diverges, so that a lookup must abandon one branch (after matching a field in it) for the other."""
    n = draw(st.integers(2, 4))
    lits = [draw(_lit) for _ in range(n)]
    i = draw(st.integers(0, n - 1))
    j = draw(st.integers(0, n - 1))
    a = list(lits)
    b = list(lits)
    a[i] = draw(st.sampled_from(['{f}', '{f:int}', '{f:ab}', 'x{f}', '{f}-{g}']))
    b[j] = draw(st.sampled_from(['{h}', '{h:int}', '{h:ab}', '{h}.{k}']))
    k = draw(st.integers(0, n - 1))
    if k != i:
        a[k] = draw(_lit)
    if draw(st.booleans()):
        a.append(draw(_lit))
    return ['/' + '/'.join(a), '/' + '/'.join(b), '/' + '/'.join(lits)]


_probe_seg = st.one_of(st.sampled_from(LITERALS + GENERIC + ['7', '12', '007', ' 7', 'xa', 'a-b', 'a.b', '7x12', 'ab', UUID_OK, 'a\\d', '1d']))
_path = st.lists(_probe_seg, min_size=1, max_size=5).map(lambda s: '/' + '/'.join(s))


class Histories(Suite):
    """Random histories of <= 8 add_route (accepted and rejected templates from a colliding segment vocabulary:
    literals incl. quote and backslash, simple / converter / multi-field / path fields, four field names, compile
    flag on or off) interleaved with lookups; then every path over the segment representatives of the accepted set
    (<= 600 per history, strided beyond) on the live router and on a twin built from the accepted adds only with
    opposite compile flags; each rejected add is re-tried on a fresh router holding only the accepted templates."""

    name = 'histories'
    budget = {'quick': 3000, 'thorough': 60000}
    cap = 600

    def strategy(self, tier):
        add = st.tuples(st.just('add'), _template(), st.booleans())
        find = st.tuples(st.just('find'), _path)
        plain = st.lists(st.one_of(add, add, add, find), min_size=1, max_size=12)

        def with_pair(ops, pair, flags, pos):
            ops = list(ops)
            a, b, lit_path = pair
            ops.insert(min(pos[0], len(ops)), ('add', a, flags[0]))
            ops.insert(min(pos[1], len(ops)), ('add', b, flags[1]))
            ops.append(('find', lit_path))
            return ops
        paired = st.builds(with_pair, st.lists(st.one_of(add, find), max_size=6), _colliding_pair(),
                           st.tuples(st.booleans(), st.booleans()), st.tuples(st.integers(0, 6), st.integers(0, 7)))
        return st.one_of(plain, paired).map(lambda ops: {'ops': ops})

    def run(self, case):
        info, n = run_history(case, self.cap)
        return info


POOL = ['/a', '/{f}', '/a/{g}', '/a/b', '/{f}/b', '/{f:int}/b', '/{f}-{g}', '/a/{g:path}', '/{f:ab}/{h}', '/x{f}/b',
        '/{f:int}x{g}', "/it's/{h}", '/a\\b/{h}', '/{f}/{k:path}/x', '/a/{h}/zz', '/{f}/b/7', '/b/{g:rest}',
        '/{g:float(max=100,finite=False)}/b', '/{f:int(min=0)}/b', '/{f:int}-{g:int}/{h:int}', '/a/{h:saferest}']


class PoolEnum(Suite):
    """Exhaustive: every ordered selection of <= 2 (quick) / <= 3 (thorough) templates from a 21-template pool (incl.
    one unacceptable template and literals with quote / backslash) x both compile flags on the last add, all
    representative paths."""

    name = 'pool_enum'
    exhaustive = True
    budget = {'quick': 1, 'thorough': 1}
    cap = 4000

    def cases(self, tier):
        k = 2 if tier == 'quick' else 3
        for n in range(1, k + 1):
            for sel in itertools.permutations(range(len(POOL)), n):
                for flag in (False, True):
                    ops = [['add', POOL[i], False] for i in sel]
                    ops[-1][2] = flag
                    yield {'ops': ops}

    def run(self, case):
        info, n = run_history(case, self.cap)
        return info


NESTED = ['/a', '/a/b', '/a/b/c', '/{t}', '/{t}/b', '/{t}/b/{c:int}', '/a/{g}', '/a/b/{h}/d']
NESTED_FINDS = ['/a/b', '/a/b/c', '/x/b/7', '/a']


class NestedHistories(Suite):
    """Exhaustive histories over a family of 8 NESTED templates (each a prefix / ancestor / sibling of others, literal and
    field variants): every ordered selection of <= 3 (thorough: <= 4) of them, with lookups between the adds in every
    possible pattern (after which adds the router is used, i.e. compiled), then all representative paths.  A route added
    late below, above or beside routes that have already been used must be found exactly like in a router that got all
    of them up front."""

    name = 'nested_histories'
    exhaustive = True
    budget = {'quick': 1, 'thorough': 1}
    cap = 4000

    def cases(self, tier):
        kmax = 3 if tier == 'quick' else 4
        for k in range(2, kmax + 1):
            for sel in itertools.permutations(range(len(NESTED)), k):
                for mask in range(1, 2 ** (k - 1)):  # lookups after add i (i < k-1) when bit i is set; at least one
                    yield {'sel': list(sel), 'mask': mask}

    def run(self, case):
        ops = []
        for i, t in enumerate(case['sel']):
            ops.append(['add', NESTED[t], False])
            if case['mask'] >> i & 1:
                ops.extend(['find', p] for p in NESTED_FINDS)
        info, n = run_history({'ops': ops}, self.cap)
        return Info(True, list(info.labels) + ['adds:%d' % len(case['sel']), 'used_between_adds'])


def _deep_template(kind, n, tail=''):
    if kind == 'fields':
        segs = ['{f%d}' % i for i in range(n)]
    elif kind == 'literals':
        segs = ['s%d' % i for i in range(n)]
    else:
        segs = [('{f%d}' % i) if i % 2 else ('s%d' % i) for i in range(n)]
    return '/' + '/'.join(segs) + tail


def _deep_path(kind, n):
    if kind == 'fields':
        segs = ['v%d' % i for i in range(n)]
    elif kind == 'literals':
        segs = ['s%d' % i for i in range(n)]
    else:
        segs = [('v%d' % i) if i % 2 else ('s%d' % i) for i in range(n)]
    return '/' + '/'.join(segs)


class Deep(Suite):
    """Depth beyond the moderate range: templates of 1-96 field segments, 1-47 literal segments and mixtures of up to 63 (and,
    recorded as finding F34, deeper ones: the generated finder nests one or two blocks per segment and CPython refuses
    source with more than 100 levels of indentation), alone, next to a template that is three segments
    deeper and with a trailing path converter; lookups of paths one shorter, equal, one longer and five longer."""

    name = 'deep'
    exhaustive = True
    budget = {'quick': 1, 'thorough': 1}
    cap = 300

    def cases(self, tier):
        for kind, depths in (('fields', (1, 8, 31, 32, 33, 63, 64, 65, 66, 70, 90, 93, 130)), ('literals', (8, 31, 32, 33, 44, 60)),
                             ('mixed', (9, 33, 59, 60, 120))):
            for n in depths:
                for shape in ('alone', 'with_deeper', 'path_tail'):
                    yield {'kind': kind, 'n': n, 'shape': shape}

    def run(self, case):
        kind, n, shape = case['kind'], case['n'], case['shape']
        ops = [['add', _deep_template(kind, n, '/{rest:path}' if shape == 'path_tail' else ''), False]]
        if shape == 'with_deeper':
            ops.append(['add', _deep_template(kind, n + 3), False])
        for m in (n - 1, n, n + 1, n + 3, n + 5):
            if m > 0:
                ops.append(['find', _deep_path(kind, m)])
        ops.append(['find', _deep_path(kind, n) + '/'])
        try:
            info, _n = run_history({'ops': ops}, self.cap)
        except Violation as v:
            d = v.detail
            raise Violation(v.kind, '%s ... %s\n  compact case=%r' % (d[:200], d[-500:], case))
        return Info(True, ['kind:' + kind, 'depth:%s' % ('<=32' if n <= 32 else '<=64' if n <= 64 else '>64'), 'shape:' + shape])



class Wide(Suite):
    """Counts beyond the moderate range: 40-800 sibling routes under one parent (literals, literals next to one field
    sibling, converter fields told apart by their literal prefixes), looked up for the first, middle, last and a missing
    sibling; and 300 routes added one by one with a lookup after every 50th."""

    name = 'wide'
    exhaustive = True
    budget = {'quick': 1, 'thorough': 1}
    cap = 200

    def cases(self, tier):
        for n in ((40, 257, 600) if tier == 'quick' else (40, 63, 64, 65, 255, 256, 257, 600, 800)):
            for shape in ('literals', 'literals+field', 'prefixed_fields', 'incremental'):
                yield {'n': n, 'shape': shape}

    def run(self, case):
        n, shape = case['n'], case['shape']
        ops = []
        if shape == 'prefixed_fields':
            temps = ['/w/p%dx{v:int}' % i for i in range(n)]
            probes = ['/w/p0x7', '/w/p%dx42' % (n // 2), '/w/p%dx1' % (n - 1), '/w/p%dx1' % n, '/w/p1xx', '/w/p%dx' % (n - 1)]
        else:
            temps = ['/w/s%d' % i for i in range(n)]
            if shape == 'literals+field':
                temps.insert(n // 3, '/w/{other}')
            probes = ['/w/s0', '/w/s%d' % (n // 2), '/w/s%d' % (n - 1), '/w/s%d' % n, '/w/s', '/w/S0', '/w/s%d/x' % (n - 1)]
        for i, t in enumerate(temps):
            ops.append(['add', t, False])
            if shape == 'incremental' and i % 50 == 49:
                ops.extend(['find', p] for p in ('/w/s%d' % i, '/w/s%d' % (i + 1), '/w/s0'))
        ops.extend(['find', p] for p in probes)
        try:
            info, _n = run_history({'ops': ops}, self.cap)
        except Violation as v:
            d = v.detail
            raise Violation(v.kind, '%s ... %s\n  compact case=%r' % (d[:200], d[-400:], case))
        return Info(True, ['shape:' + shape, 'siblings:%s' % ('<=64' if n <= 64 else '<=256' if n <= 256 else '>256')])



class HugeNumbers(Suite):
    """Numeric segments beyond the moderate range: 4300 / 4301 / 5000 / 20000 digits (with sign, leading zeros) for int and
    float converters, next to a generic two-field template that must take over when the converter declines.  Whether such
    a segment IS an integer depends on the interpreter's limit on integer string conversion (PYTHONINTMAXSTRDIGITS): the
    reference uses the same int() as the process under test, so the expectation follows the environment."""

    name = 'huge_numbers'
    exhaustive = True
    budget = {'quick': 1, 'thorough': 1}
    cap = 50

    def cases(self, tier):
        for n in (4299, 4300, 4301, 5000, 20000):
            for shape in ('digits', 'negative', 'leading_zeros', 'float_digits'):
                for with_generic in (True, False):
                    yield {'n': n, 'shape': shape, 'generic': with_generic, 'env_case': True}

    def run(self, case):
        n, shape = case['n'], case['shape']
        seg = {'digits': '9' * n, 'negative': '-' + '1' * n, 'leading_zeros': '0' * (n - 1) + '7', 'float_digits': '1' * n}[shape]
        conv = 'float(finite=False)' if shape == 'float_digits' else 'int'
        ops = [['add', '/n/{id:%s}' % conv, False]]
        if case['generic']:
            ops.append(['add', '/{category}/{name}', False])
        ops += [['find', '/n/' + seg], ['find', '/n/12'], ['find', '/n/' + seg + 'x']]
        try:
            info, _n = run_history({'ops': ops}, self.cap)
        except Violation as v:
            d = v.detail
            raise Violation(v.kind, '%s ... %s\n  compact case=%r' % (d[:300], d[-300:], case))
        try:
            int('1' * n)
            convertible = True
        except ValueError:
            convertible = False
        return Info(True, ['digits:%s' % ('<=4300' if n <= 4300 else '>4300'), 'shape:' + shape,
                           'int()_accepts_it_here' if convertible else 'int()_refuses_it_here'])



SUITES = [Histories(), PoolEnum(), NestedHistories(), Deep(), Wide(), HugeNumbers()]


def _known_f34(suite_name, case, violation):
    """F34: a template so deep that the generated finder exceeds CPython's 100 levels of indentation."""
    return 'IndentationError: too many levels of indentation' in violation.detail


KNOWN = {'F34': _known_f34}
