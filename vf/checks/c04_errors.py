"""C04 — Every raised exception becomes the response its most specific handler defines.

Two generated searches against falcon.App and falcon.asgi.App, driven through the minimal
WSGI / ASGI servers of vf.drivers (no falcon.testing):

* handler_choice: an exception class DAG built with type(), a history of add_error_handler()
  calls, one or two raise sites.  Generated error handlers record themselves; the recorded
  sequence must be what a dict model (latest registration per class) selects along
  type(ex).__mro__, each handler must have seen resp.text / data / media reset to None, and the
  final response must be what the last handler (or the built-in rendering of HTTPError /
  HTTPStatus / "any other exception -> 500") defines.  Nothing may propagate out of the app.

* default_rendering: HTTPError (sub)classes with arbitrary unicode fields and HTTPStatus with
  arbitrary text, rendered by the built-in handlers under a generated Accept header.  The body
  is parsed back by independent parsers (json.loads, the expat parser behind xml.etree, the
  decoder of a test media handler, urllib.parse.parse_qs) and compared with a reference
  document computed from the documented meaning of the fields; the negotiated representation
  must be the documented preference computed by a small structured reference (never parsing
  header text).
"""
import http
import json
import urllib.parse
import xml.etree.ElementTree as ET

from hypothesis import strategies as st

import falcon
import falcon.asgi
import falcon.media

from vf.core import HarnessError, Info, Suite, Violation
from vf.drivers import asgi as A
from vf.drivers import wsgi as W

LEVEL = 'exploration'
RULE = (
    'handler_choice cases: <= 6 exception classes created with type() over the roots Exception / HTTPError / '
    'HTTPNotFound / HTTPStatus / ValueError (multiple inheritance), <= 8 add_error_handler registrations (single '
    'class, tuple, list, or the class-attribute "handle" form; repeats allowed; roots may be re-registered), a raise '
    'site (process_request / process_resource / process_response, before / after hook, responder, media handler '
    'serialize() during rendering), optionally a second raise in process_response, handler behaviours (set a body, '
    'set only a status, raise HTTPError / HTTPNotFound / HTTPStatus / an HTTPStatus subclass), WSGI and ASGI; '
    'non-trivial when at least one custom registration lies on the MRO of a raised class and the selection had to '
    'decide between >= 2 registered MRO classes or between >= 2 registrations of the selected class. '
    'default_rendering cases: an HTTPError (generic with str / int / http.HTTPStatus / bytes status, or one of 11 '
    'subclasses) with unicode title / description / href / href_text, int code, headers as dict or pair list, or an '
    'HTTPStatus with unicode text; Accept absent or 1..4 ranges biased to JSON / XML / +json / +xml / a registered '
    'custom type / unacceptable types / wildcards with q-values; xml_error_serialization on / off; raised from a '
    'responder, process_request, or by an error handler; WSGI and ASGI; non-trivial when a serialized field contains '
    'a character that JSON or XML must escape (or non-ASCII), or the Accept header has >= 2 ranges. '
    'distinct = distinct case fingerprint'
)
ASSUMPTIONS = [
    'type(ex).__mro__ as computed by CPython is the "method resolution order of the raised exception type" of the '
    'add_error_handler docstring; the registry model is a dict: class -> latest registered handler, pre-loaded with '
    'the three documented default handlers (Exception, HTTPError, HTTPStatus)',
    'an HTTPError / HTTPStatus raised by an error handler is rendered by the built-in rendering directly (it is not '
    'dispatched to custom handlers registered for HTTPError / HTTPStatus)',
    'error handlers that raise anything other than HTTPError / HTTPStatus are not generated',
    'an exception raised while the body is rendered (media handler serialize()) is "handled exactly the same way as '
    'other exceptions raised in a responder" (docs/changes/3.0.0.rst, #1607): same handler selection, reset and '
    'resulting response, body included',
    'negotiation reference: candidates are application/json, then (xml_error_serialization on) text/xml and '
    'application/xml, then the configured response media handlers; quality of a candidate = q of the most specific '
    'matching range; highest quality wins, JSON wins every tie it takes part in; ties among non-JSON types are not '
    'ordered by the documentation, any of the tied types is accepted; when no candidate is acceptable a range with '
    'a +json (then +xml) suffix selects JSON (XML); +json and +xml both present -> either accepted',
    'Accept headers are well-formed, without media-type parameters other than q, with unique ranges, and +json/+xml '
    'ranges never carry q=0 (malformed and parameterised headers belong to C11)',
    'title / href / href_text are None or non-empty (falcon treats "" like None; the docs do not say); the default '
    'link text is only required to be a non-empty string (the docstrings disagree on its wording); link.href must '
    'be the given href with exactly the characters that are neither RFC 3986 unreserved nor reserved percent-'
    'encoded as UTF-8 (HTTPError and falcon.uri.encode docs), hex digit case ignored',
    'XML 1.0 cannot carry C0 controls other than TAB/LF, U+FFFE/U+FFFF, and normalises CR: cases whose serialized '
    'fields contain such characters skip the XML body comparison only (status, headers, negotiation still checked)',
    'application/x-www-form-urlencoded (a default response media handler) flattens the nested link object; for that '
    'representation only title / description / code are compared',
    'HTTPMethodNotAllowed / HTTPUnauthorized(challenges) / retry_after classes convert the given header collection '
    'to a dict before adding their own header; for those, a header name given in several letter-case spellings is '
    'not asserted (the "last value wins" rule of Response.set_headers is then applied to the reordered dict)',
    'statuses are 4xx/5xx for HTTPError and 2xx/4xx without 204/205 for HTTPStatus, method GET (body-less statuses '
    'and HEAD belong to C05); header values are printable ASCII; reason phrases for int statuses come from a table '
    'of RFC 9110 phrases in this file, for http.HTTPStatus members from CPython',
]

PATH = '/item/7'
ROOTS = {
    'Exception': Exception,
    'HTTPError': falcon.HTTPError,
    'HTTPNotFound': falcon.HTTPNotFound,
    'HTTPStatus': falcon.HTTPStatus,
    'ValueError': ValueError,
    # raisable / registrable framework and builtin classes that are not used as DAG roots
    'HTTPForbidden': falcon.HTTPForbidden,
    'KeyError': KeyError,
}
DAG_ROOTS = ['Exception', 'HTTPError', 'HTTPNotFound', 'HTTPStatus', 'ValueError']
EXTRA_CLASSES = ['HTTPForbidden', 'KeyError']

REASONS = {
    400: 'Bad Request', 401: 'Unauthorized', 403: 'Forbidden', 404: 'Not Found', 405: 'Method Not Allowed',
    409: 'Conflict', 410: 'Gone', 415: 'Unsupported Media Type', 422: 'Unprocessable Entity',
    429: 'Too Many Requests', 500: 'Internal Server Error', 501: 'Not Implemented', 502: 'Bad Gateway',
    503: 'Service Unavailable', 504: 'Gateway Timeout',
    200: 'OK', 201: 'Created', 202: 'Accepted',
}

JSON_TYPE = 'application/json'
XML_TYPES = ('text/xml', 'application/xml')
MULTIPART = 'multipart/form-data'
URLENCODED = 'application/x-www-form-urlencoded'
CUSTOM_TYPES = ('application/x-vf', 'text/x-vf')
BOOM_TYPE = 'application/x-vf-boom'


# ----------------------------------------------------------------- driving one request


class Got(object):
    def __init__(self, code, line, headers, body, error):
        self.code = code
        self.line = line
        self.headers = headers  # [(lower-case name, value)]
        self.body = body
        self.error = error

    def values(self, name):
        return [v for k, v in self.headers if k == name]

    def brief(self):
        return 'status=%r headers=%r body=%r' % (self.line or self.code, self.headers, self.body[:400])


def perform(app, stack, accept, ctx):
    headers = [('Accept', accept)] if accept is not None else []
    if stack == 'asgi':
        res = A.call(app, A.build_scope(method='GET', raw_path=PATH, headers=headers), monitor=False)
        started = res.start is not None
    else:
        res = W.call(app, W.build_environ(method='GET', raw_path=PATH, headers=headers), monitor=False)
        started = res.status is not None
    if res.error is not None:
        raise Violation('exception_escaped', '%s\n  %s: %s propagated out of the app callable'
                        % (ctx, type(res.error).__name__, res.error))
    if not started:
        raise Violation('no_response', '%s\n  the app returned without starting a response' % ctx)
    if stack == 'asgi':
        return Got(res.code, None, [(k.lower(), v) for k, v in res.headers], res.body, None)
    return Got(res.code, res.status, [(k.lower(), v) for k, v in res.headers], res.body, None)


# ----------------------------------------------------------------- reference: documents


def is_xml_clean(s):
    for ch in s:
        o = ord(ch)
        if o in (0x9, 0xA) or 0x20 <= o <= 0xD7FF or 0xE000 <= o <= 0xFFFD or 0x10000 <= o <= 0x10FFFF:
            continue
        return False
    return True


# RFC 3986 unreserved + reserved (gen-delims, sub-delims): what a URI may contain literally
_URI_LITERALS = set("ABCDEFGHIJKLMNOPQRSTUVWXYZabcdefghijklmnopqrstuvwxyz0123456789-._~:/?#[]@!$&'()*+,;=")
_HEX = '0123456789abcdefABCDEF'


def uri_tokens(text):
    """An encoded URI as a list of literal characters and escaped byte values (hex case ignored)."""
    out = []
    i = 0
    while i < len(text):
        if text[i] == '%' and i + 2 < len(text) and text[i + 1] in _HEX and text[i + 2] in _HEX:
            out.append(int(text[i + 1:i + 3], 16))
            i += 3
        else:
            out.append(text[i])
            i += 1
    return out


def ref_href_tokens(href):
    """HTTPError docs: 'Unicode characters are percent-encoded'; uri.encode docs: every character that is
    neither unreserved nor reserved is percent-encoded (as UTF-8), the URI delimiters stay."""
    out = []
    for ch in href:
        if ch in _URI_LITERALS:
            out.append(ch)
        else:
            out.extend(ch.encode('utf-8'))
    return out


def needs_escaping(s):
    """JSON or XML has to escape / encode something in s."""
    return any(ch in '"\\<>&' or ord(ch) < 0x20 or ord(ch) > 0x7E for ch in s)


def ref_fields(line, f):
    """Reference document of an HTTPError: field -> expected value; absent fields are absent.

    HTTPError docs: title defaults to the status line; description / code / link are present iff
    given; link = {text, href, rel: help}.
    """
    doc = {'title': f['title'] if f['title'] is not None else line}
    if f['description'] is not None:
        doc['description'] = f['description']
    if f['code'] is not None:
        doc['code'] = f['code']
    if f['href'] is not None:
        doc['link'] = {'text': f['href_text'], 'href': f['href'], 'rel': 'help'}
    return doc


def compare_doc(got, exp, code_as_text=False, with_link=True):
    """None when the parsed document `got` is a faithful encoding of `exp`, else a complaint."""
    if not isinstance(got, dict):
        return 'document is %s, not an object' % type(got).__name__
    keys = set(exp) if with_link else set(exp) - {'link'}
    got_keys = set(got) if with_link else set(got) - {'link'}
    if got_keys != keys:
        return 'members %r, expected %r' % (sorted(got_keys), sorted(keys))
    for name in ('title', 'description'):
        if name in exp and got[name] != exp[name]:
            return '%s is %r, expected %r' % (name, got[name], exp[name])
    if 'code' in exp:
        want = str(exp['code']) if code_as_text else exp['code']
        if got['code'] != want or type(got['code']) is not type(want):
            return 'code is %r, expected %r' % (got['code'], want)
    if with_link and 'link' in exp:
        link = got['link']
        if not isinstance(link, dict) or set(link) != {'text', 'href', 'rel'}:
            return 'link is %r, expected members text, href, rel' % (link,)
        if link['rel'] != 'help':
            return 'link.rel is %r' % (link['rel'],)
        if exp['link']['text'] is not None:
            if link['text'] != exp['link']['text']:
                return 'link.text is %r, expected %r' % (link['text'], exp['link']['text'])
        elif not (isinstance(link['text'], str) and link['text']):
            return 'default link.text is %r' % (link['text'],)
        href = link['href']
        if not isinstance(href, str) or not set(href) <= (_URI_LITERALS | {'%'}):
            return 'link.href %r contains characters outside RFC 3986' % (href,)
        if uri_tokens(href) != ref_href_tokens(exp['link']['href']):
            return ('link.href %r is not %r with exactly the non-URI characters percent-encoded as UTF-8'
                    % (href, exp['link']['href']))
    return None


def parse_xml_doc(body):
    root = ET.fromstring(body)  # expat; raises ET.ParseError on ill-formed input
    if root.tag != 'error':
        raise ValueError('root element is %r' % root.tag)
    doc = {}
    for child in root:
        if child.tag in doc:
            raise ValueError('element %r repeated' % child.tag)
        if child.tag == 'link':
            link = {}
            for sub in child:
                if sub.tag in link:
                    raise ValueError('element link/%r repeated' % sub.tag)
                link[sub.tag] = sub.text or ''
            doc['link'] = link
        else:
            doc[child.tag] = child.text or ''
    return doc


class VfHandler(falcon.media.BaseHandler):
    """Test media handler for the custom types: 'VF1 ' + ASCII JSON with sorted keys."""

    def serialize(self, media, content_type):
        return b'VF1 ' + json.dumps(media, sort_keys=True, ensure_ascii=True).encode('ascii')

    def deserialize(self, stream, content_type, content_length):
        raise NotImplementedError()


def check_body(kind, body, exp_doc, ctx, got):
    """kind: json / xml / custom / urlencoded; exp_doc from ref_fields."""
    try:
        if kind == 'json':
            doc = json.loads(body.decode('utf-8'))
            complaint = compare_doc(doc, exp_doc)
        elif kind == 'custom':
            if not body.startswith(b'VF1 '):
                raise ValueError('not produced by the registered handler')
            doc = json.loads(body[4:].decode('ascii'))
            complaint = compare_doc(doc, exp_doc)
        elif kind == 'xml':
            doc = parse_xml_doc(body)
            complaint = compare_doc(doc, exp_doc, code_as_text=True)
        elif kind == 'urlencoded':
            pairs = urllib.parse.parse_qs(body.decode('ascii'), keep_blank_values=True, strict_parsing=bool(body),
                                          encoding='utf-8', errors='strict')
            doc = {}
            for k, v in pairs.items():
                doc[k] = v[0] if len(v) == 1 else v
            complaint = compare_doc(doc, exp_doc, code_as_text=True, with_link=False)
        else:
            raise HarnessError('bad body kind %r' % (kind,))
    except HarnessError:
        raise
    except (ValueError, ET.ParseError) as e:  # UnicodeDecodeError and JSONDecodeError are ValueErrors
        raise Violation('error_body_unparseable', '%s\n  %s body cannot be parsed back: %s: %s\n  got %s'
                        % (ctx, kind, type(e).__name__, e, got.brief()))
    if complaint:
        raise Violation('error_body_unfaithful', '%s\n  %s body: %s\n  expected document %r\n  got %s'
                        % (ctx, kind, complaint, exp_doc, got.brief()))


# ----------------------------------------------------------------- reference: statuses and headers


def status_ref(spec):
    """spec [form, value] -> (object given to falcon, int code, expected status line)."""
    form, value = spec
    if form == 'line':
        return value, int(value[:3]), value
    if form == 'bytes':
        return value.encode('ascii'), int(value[:3]), value
    if form == 'int':
        return value, value, '%d %s' % (value, REASONS[value])
    if form == 'enum':
        member = http.HTTPStatus(value)
        return member, value, '%d %s' % (value, member.phrase)
    raise HarnessError('bad status spec %r' % (spec,))


def header_arg(hspec):
    """hspec None | {'form': 'dict'|'pairs', 'items': [[name, value], ...]} -> object given to falcon."""
    if hspec is None:
        return None
    items = [(n, v) for n, v in hspec['items']]
    return dict(items) if hspec['form'] == 'dict' else items


def ref_headers(arg, overrides=()):
    """Response.set_headers docs: names are case-insensitive, the last value given for a name is used."""
    out = {}
    if arg is not None:
        for n, v in (arg.items() if isinstance(arg, dict) else arg):
            out[n.lower()] = v
    for n, v in overrides:
        out[n.lower()] = v
    return out


def check_status(got, code, line, ctx):
    if got.code != code or (got.line is not None and line is not None and got.line != line):
        raise Violation('wrong_status', '%s\n  expected status %r (%r)\n  got %s' % (ctx, line, code, got.brief()))


def check_headers(got, exp, ctx, skip=('content-type', 'vary')):
    for name in sorted(exp):
        if name in skip:
            continue
        if got.values(name) != [exp[name]]:
            raise Violation('wrong_header', '%s\n  expected header %s: %r exactly once, response has %r\n  got %s'
                            % (ctx, name, exp[name], got.values(name), got.brief()))


def vary_members(got):
    out = []
    for v in got.values('vary'):
        out.extend(x.strip().lower() for x in v.split(','))
    return out


def check_vary(got, exp_headers, ctx):
    members = vary_members(got)
    if 'accept' not in members:
        raise Violation('vary_missing', '%s\n  Vary does not contain Accept: %r\n  got %s'
                        % (ctx, got.values('vary'), got.brief()))
    for x in exp_headers.get('vary', '').split(','):
        x = x.strip().lower()
        if x and x not in members:
            raise Violation('wrong_header', "%s\n  the error's own Vary member %r was lost: %r" %
                            (ctx, x, got.values('vary')))


# ----------------------------------------------------------------- reference: negotiation


def ref_quality(ranges, mt):
    """q of the most specific range matching media type `mt` (0.0 when none matches)."""
    t, s = mt.split('/')
    best = None
    for r in ranges:
        if r['t'] == '*' and r['s'] == '*':
            spec = 0
        elif r['t'] == t and r['s'] == '*':
            spec = 1
        elif r['t'] == t and r['s'] == s:
            spec = 2
        else:
            continue
        q = float(r['q']) if r['q'] is not None else 1.0
        if best is None or spec > best[0] or (spec == best[0] and q > best[1]):
            best = (spec, q)
    return best[1] if best else 0.0


def ref_negotiate(accept, xml, custom):
    """-> (set of acceptable response media types, or empty set = no body), note label."""
    # an Accept header that is present but empty states no preference: req.accept documents / implements it as '*/*'
    ranges = accept if accept else [{'t': '*', 's': '*', 'q': None}]
    cands = [JSON_TYPE] + (list(XML_TYPES) if xml else []) + [MULTIPART, URLENCODED] + list(custom)
    quals = [(mt, ref_quality(ranges, mt)) for mt in cands]
    top = max(q for _mt, q in quals)
    if top > 0:
        tied = [mt for mt, q in quals if q == top]
        if JSON_TYPE in tied:
            return {JSON_TYPE}, 'negotiated'
        return set(tied), 'negotiated'
    has_json = any(r['s'].endswith('+json') for r in ranges)
    has_xml = any(r['s'].endswith('+xml') for r in ranges)
    out = set()
    if has_json:
        out.add(JSON_TYPE)
    if has_xml and xml and (not has_json):
        out.add('application/xml')
    if has_json and has_xml and xml:
        out.add('application/xml')  # both suffixes present: order undocumented
    if has_json or has_xml:
        return out, 'suffix'
    return set(), 'unacceptable'


def render_accept(accept):
    if accept is None:
        return None
    parts = []
    for r in accept:
        if r.get('pad'):
            # a header beyond the moderate range: N more ranges for media types nobody offers (they change nothing)
            parts.extend('%s/%s%d;q=%s' % (r['t'], r['s'], i, r['q']) for i in range(r['pad']))
            continue
        txt = '%s/%s' % (r['t'], r['s'])
        # media type names are case-insensitive (RFC 9110 8.3.1)
        txt = {'upper': txt.upper(), 'title': txt.title()}.get(r.get('case'), txt)
        if r['q'] is not None:
            txt += '%s;%sq=%s' % (r['ws'][0], r['ws'][1], r['q'])
        parts.append(txt)
    return (',' + accept[0]['ws'][2]).join(parts) if parts else ''


def body_kind(mt):
    if mt == JSON_TYPE:
        return 'json'
    if mt in XML_TYPES:
        return 'xml'
    if mt in CUSTOM_TYPES:
        return 'custom'
    if mt == URLENCODED:
        return 'urlencoded'
    return None


def f4_applies(case):
    """Finding F4: the reference says the client's preferred supported type is multipart/form-data."""
    if case.get('err', {}).get('kind') != 'error':
        return False
    allowed, _ = ref_negotiate(case['accept'], case['xml'], case['custom'])
    return MULTIPART in allowed


# ================================================================= suite A: handler choice

SITES = ['mw_request', 'mw_resource', 'before_hook', 'responder', 'after_hook', 'mw_response', 'render']
HANDLER_ACTIONS = ['return', 'noop', 'http_error', 'http_notfound', 'http_status', 'sub_status']
N_HANDLERS = 4


class SubStatus(falcon.HTTPStatus):
    """An HTTPStatus subclass raised by generated error handlers."""


def resolve_ref(ref, classes):
    if isinstance(ref, str):
        return ROOTS[ref]
    if not classes:
        return Exception
    return classes[ref % len(classes)]


def class_kind(cls):
    if issubclass(cls, falcon.HTTPStatus):
        return 'status'
    if issubclass(cls, falcon.HTTPNotFound):
        return 'notfound'
    if issubclass(cls, falcon.HTTPError):
        return 'error'
    return 'plain'


def _init_for(kind):
    if kind == 'status':
        def __init__(self, *a, **kw):
            falcon.HTTPStatus.__init__(self, *a, **kw)
    elif kind == 'notfound':
        # not HTTPNotFound.__init__: its super().__init__() would reach whatever class Python's MRO places
        # between HTTPNotFound and HTTPError (e.g. ValueError), which is the generated hierarchy's business
        def __init__(self, **kw):
            falcon.HTTPError.__init__(self, '404 Not Found', **kw)
    elif kind == 'error':
        def __init__(self, *a, **kw):
            falcon.HTTPError.__init__(self, *a, **kw)
    else:
        def __init__(self, *a):
            Exception.__init__(self, *a)
    return __init__


def build_classes(specs, handlers):
    """-> (classes, number of classes whose base list had to be reduced)."""
    classes = []
    reduced = 0
    for i, spec in enumerate(specs):
        bases = []
        for ref in spec['bases']:
            b = resolve_ref(ref, classes) if (isinstance(ref, str) or classes) else Exception
            if b not in bases:
                bases.append(b)
        ns = {}
        if spec['handle'] is not None:
            ns['handle'] = staticmethod(handlers[spec['handle'] % len(handlers)])
        cls = None
        # Python rejects some base lists (inconsistent MRO, HTTPError + HTTPStatus lay-out conflict):
        # deterministic fallbacks keep the case meaningful
        for attempt in (bases, bases[::-1], bases[:1]):
            try:
                cls = type('G%d' % i, tuple(attempt), dict(ns))
                break
            except TypeError:
                reduced += 1
        if cls is None:
            raise HarnessError('cannot build class %d from %r' % (i, spec))
        cls.__init__ = _init_for(class_kind(cls))
        classes.append(cls)
    return classes, reduced


def own_handle_index(cls, classes, specs):
    """Handler index reachable as cls.handle (Python attribute lookup along the MRO), or None."""
    for c in cls.__mro__:
        if c in classes:
            k = specs[classes.index(c)]['handle']
            if k is not None:
                return k % N_HANDLERS
    return None


def make_event_instance(cls, idx):
    """-> (instance, expected built-in rendering) for the idx-th raise of a case."""
    kind = class_kind(cls)
    if kind == 'status':
        line = '%d Raised Status' % (230 + idx)
        hdrs = {'X-Raised-%d' % idx: 'status'}
        text = 'raised-status-%d' % idx
        return cls(line, hdrs, text), {'code': 230 + idx, 'line': line, 'headers': ref_headers(hdrs),
                                       'body': ('text', text.encode())}
    hdrs = {'X-Raised-%d' % idx: 'error'}
    fields = {'title': 'Raised %d' % idx, 'description': 'top-level <%d>' % idx, 'code': None, 'href': None,
              'href_text': None}
    if kind == 'notfound':
        inst = cls(title=fields['title'], description=fields['description'], headers=hdrs)
        line = '404 Not Found'
    elif kind == 'error':
        if cls is falcon.HTTPForbidden:
            inst = cls(title=fields['title'], description=fields['description'], headers=hdrs)
            line = '403 Forbidden'
        else:
            line = '%d Raised Error' % (480 + idx)
            inst = cls(line, title=fields['title'], description=fields['description'], headers=hdrs)
    else:
        # text that is hostile to naive logging / formatting of the traceback (braces, percent signs)
        inst = cls('raised-%d {not_a_field} %%s {0} }{ {"json": 1}' % idx)
        return inst, {'code': 500, 'line': '500 Internal Server Error', 'headers': {},
                      'body': ('json', ref_fields('500 Internal Server Error',
                                                  {'title': None, 'description': None, 'code': None, 'href': None,
                                                   'href_text': None}))}
    return inst, {'code': int(line[:3]), 'line': line, 'headers': ref_headers(hdrs),
                  'body': ('json', ref_fields(line, fields))}


def handler_outcome(k, action):
    """What handler k does, and the response that defines."""
    if action == 'return':
        line = '%d Handled By %d' % (460 + k, k)
        return {'code': 460 + k, 'line': line, 'headers': {'x-handler': str(k)}, 'body': ('text', b'H%d' % k)}
    if action == 'noop':
        line = '%d Noop By %d' % (260 + k, k)
        return {'code': 260 + k, 'line': line, 'headers': {}, 'body': ('text', b'')}
    if action == 'http_error':
        line = '%d Handler Raised' % (470 + k)
        fields = {'title': 'from handler %d' % k, 'description': None, 'code': 7000 + k, 'href': None,
                  'href_text': None}
        return {'code': 470 + k, 'line': line, 'headers': {'x-handler-error': str(k)},
                'body': ('json', ref_fields(line, fields))}
    if action == 'http_notfound':
        fields = {'title': None, 'description': 'nf from handler %d' % k, 'code': None, 'href': None,
                  'href_text': None}
        return {'code': 404, 'line': '404 Not Found', 'headers': {}, 'body': ('json', ref_fields('404 Not Found',
                                                                                                fields))}
    if action in ('http_status', 'sub_status'):
        line = '%d Handler Status' % (280 + k)
        return {'code': 280 + k, 'line': line, 'headers': {'x-handler-status': str(k)},
                'body': ('text', b'status-from-%d' % k)}
    raise HarnessError('bad handler action %r' % (action,))


def _handler_body(k, action, resp):
    if action == 'return':
        resp.status = '%d Handled By %d' % (460 + k, k)
        resp.set_header('X-Handler', str(k))
        resp.text = 'H%d' % k
    elif action == 'noop':
        resp.status = '%d Noop By %d' % (260 + k, k)
    elif action == 'http_error':
        raise falcon.HTTPError('%d Handler Raised' % (470 + k), title='from handler %d' % k, code=7000 + k,
                               headers={'X-Handler-Error': str(k)})
    elif action == 'http_notfound':
        raise falcon.HTTPNotFound(description='nf from handler %d' % k)
    elif action == 'http_status':
        raise falcon.HTTPStatus('%d Handler Status' % (280 + k), {'X-Handler-Status': str(k)},
                                'status-from-%d' % k)
    elif action == 'sub_status':
        raise SubStatus('%d Handler Status' % (280 + k), {'X-Handler-Status': str(k)}, 'status-from-%d' % k)
    else:
        raise HarnessError('bad handler action %r' % (action,))


def make_handler(k, action, rec, asyn):
    def observe(resp, ex):
        rec.append([k, type(ex).__name__, id(ex), resp.text is None, resp.data is None, resp.media is None])

    if asyn:
        async def handler(req, resp, ex, params):
            observe(resp, ex)
            _handler_body(k, action, resp)
    else:
        def handler(req, resp, ex, params):
            observe(resp, ex)
            _handler_body(k, action, resp)
    return handler


class BoomHandler(falcon.media.BaseHandler):
    """Response media handler whose serialize() raises the scheduled exception."""

    def __init__(self, fire):
        self.fire = fire

    def serialize(self, media, content_type):
        self.fire('render', None)
        return b'{}'

    def deserialize(self, stream, content_type, content_length):
        raise NotImplementedError()


def apply_preset(resp, preset):
    if 'text' in preset:
        resp.text = 'stale text'
    if 'data' in preset:
        resp.data = b'stale data'
    if 'media' in preset:
        resp.media = {'stale': 'media'}
    # set, but falsy: '' / b'' / [] are response content like any other and must be discarded just the same
    if 'text_empty' in preset:
        resp.text = ''
    if 'data_empty' in preset:
        resp.data = b''
    if 'media_empty' in preset:
        resp.media = []
    if 'rendered' in preset and not isinstance(resp, falcon.asgi.Response):
        # the public render_body() may be called early (e.g. by a digest / ETag hook): what it cached must be
        # discarded together with text / data / media when an exception is handled afterwards
        resp.render_body()


class _CustomResponse(falcon.Response):
    """An application's own response type (documented `response_type` argument); behaviour unchanged."""


class _CustomAsgiResponse(falcon.asgi.Response):
    pass


def _response_type_kw(case, asyn):
    if not case.get('custom_response_type'):
        return {}
    return {'response_type': _CustomAsgiResponse if asyn else _CustomResponse}


def build_choice_app(case, rec):
    """-> (app, events) with events = [(site, instance, builtin outcome, class)] in raise order."""
    asyn = case['stack'] == 'asgi'
    actions = [case['handler_actions'][k % len(case['handler_actions'])] for k in range(N_HANDLERS)]
    handlers = [make_handler(k, actions[k], rec, asyn) for k in range(N_HANDLERS)]
    classes, reduced = build_classes(case['classes'], handlers)

    primary = case['raise']
    events = []
    cls0 = resolve_ref(primary['cls'], classes)
    inst0, out0 = make_event_instance(cls0, 0)
    events.append((primary['site'], inst0, out0, cls0))
    second = case['second']
    if second is not None and primary['site'] not in ('mw_response', 'render'):
        cls1 = resolve_ref(second['cls'], classes)
        inst1, out1 = make_event_instance(cls1, 1)
        events.append(('mw_response', inst1, out1, cls1))
    schedule = {site: inst for site, inst, _o, _c in events}
    preset = ['media'] if primary['site'] == 'render' else primary['preset']
    early = primary['site'] in ('mw_request', 'mw_resource', 'before_hook')

    def fire(site, resp):
        """Called at every call site; raises when the case schedules a raise there."""
        inst = schedule.get(site)
        if inst is None:
            return
        if early and site == primary['site']:
            apply_preset(resp, preset)  # the raising callable had already produced output
        raise inst

    def responder_body(resp):
        # the responder always sets the body before anything can go wrong later
        if not early:
            apply_preset(resp, preset)
            if primary['site'] == 'render':
                resp.content_type = BOOM_TYPE
        fire('responder', resp)

    if asyn:
        class Middleware(object):
            async def process_request(self, req, resp):
                fire('mw_request', resp)

            async def process_resource(self, req, resp, resource, params):
                fire('mw_resource', resp)

            async def process_response(self, req, resp, resource, req_succeeded):
                fire('mw_response', resp)

        async def before(req, resp, resource, params):
            fire('before_hook', resp)

        async def after(req, resp, resource):
            fire('after_hook', resp)

        class Resource(object):
            @falcon.before(before)
            @falcon.after(after)
            async def on_get(self, req, resp, id):
                responder_body(resp)

        app = falcon.asgi.App(middleware=[Middleware()], **_response_type_kw(case, True))
    else:
        class Middleware(object):
            def process_request(self, req, resp):
                fire('mw_request', resp)

            def process_resource(self, req, resp, resource, params):
                fire('mw_resource', resp)

            def process_response(self, req, resp, resource, req_succeeded):
                fire('mw_response', resp)

        def before(req, resp, resource, params):
            fire('before_hook', resp)

        def after(req, resp, resource):
            fire('after_hook', resp)

        class Resource(object):
            @falcon.before(before)
            @falcon.after(after)
            def on_get(self, req, resp, id):
                responder_body(resp)

        app = falcon.App(middleware=[Middleware()], **_response_type_kw(case, False))

    app.resp_options.media_handlers[BOOM_TYPE] = BoomHandler(fire)
    app.add_route('/item/{id}', Resource())

    # registration history + dict model (latest registration per class wins)
    model = {Exception: 'D:python', falcon.HTTPError: 'D:http_error', falcon.HTTPStatus: 'D:http_status'}
    counts = {}
    for reg in case['regs']:
        targets = []
        for ref in reg['classes']:
            c = resolve_ref(ref, classes)
            if c not in targets:
                targets.append(c)
        k = reg['handler'] % N_HANDLERS
        form = reg['form']
        if form == 'default':
            hk = own_handle_index(targets[0], classes, case['classes'])
            if hk is None:
                form = 'single'  # the class has no `handle` attribute: register explicitly
            else:
                app.add_error_handler(targets[0])
                targets, k = targets[:1], hk
        if form == 'single':
            targets = targets[:1]
            app.add_error_handler(targets[0], handlers[k])
        elif form == 'tuple':
            app.add_error_handler(tuple(targets), handlers[k])
        elif form == 'list':
            app.add_error_handler(list(targets), handlers[k])
        elif form != 'default':
            raise HarnessError('bad registration form %r' % (form,))
        for c in targets:
            model[c] = k
            counts[c] = counts.get(c, 0) + 1
    return app, events, model, counts, actions, reduced


def select(model, cls):
    for c in cls.__mro__:
        if c in model:
            return c, model[c]
    return None, None


def run_choice_case(case):
    rec = []
    app, events, model, counts, actions, reduced = build_choice_app(case, rec)
    ctx = 'case=%r' % (case,)
    got = perform(app, case['stack'], None, ctx)

    expected = []
    outcome = None
    nontrivial = False
    chosen_labels = []
    for site, inst, builtin, cls in events:
        sel_cls, sel = select(model, cls)
        on_mro = [c for c in cls.__mro__ if c in model]
        custom_on_mro = [c for c in on_mro if c in counts]
        if custom_on_mro and (len(on_mro) >= 2 or counts.get(sel_cls, 0) >= 2):
            nontrivial = True
        if isinstance(sel, int):
            expected.append([sel, type(inst).__name__, id(inst), True, True, True])
            outcome = handler_outcome(sel, actions[sel])
            chosen_labels.append('chosen:custom')
            if counts.get(sel_cls, 0) >= 2:
                chosen_labels.append('chosen_class_registered_repeatedly')
            chosen_labels.append('chosen_for:' + ('raised class' if sel_cls is cls else 'a base class'))
            if len(custom_on_mro) >= 2:
                chosen_labels.append('several_custom_registrations_on_mro')
            chosen_labels.append('handler_action:' + actions[sel])
        else:
            outcome = builtin
            chosen_labels.append('chosen:%s' % sel)
            if custom_on_mro:
                chosen_labels.append('default_preferred_to_custom_on_base')
    if rec != expected:
        ids = {id(e[1]): 'raised instance #%d' % n for n, e in enumerate(events)}

        def show(r):
            return [[k, name, ids.get(i, 'another object'), t, d, m] for k, name, i, t, d, m in r]
        raise Violation(
            'handler_selection',
            '%s\n  classes: %s\n  invoked  [handler, type(ex), ex, text None?, data None?, media None?]: %r\n'
            '  expected (first registered class on the MRO, latest registration; body reset): %r\n  got %s'
            % (ctx, '; '.join('%s%r' % (c.__name__, tuple(b.__name__ for b in c.__mro__[1:-2]))
                              for _s, _i, _o, c in events), show(rec), show(expected), got.brief()))
    check_status(got, outcome['code'], outcome['line'], ctx)
    exp_headers = dict(outcome['headers'])
    check_headers(got, exp_headers, ctx)
    primary_site = events[0][0]
    kind, payload = outcome['body']
    if kind == 'text':
        if got.body != payload:
            raise Violation('wrong_body', '%s\n  expected body %r\n  got %s' % (ctx, payload, got.brief()))
    else:
        if got.values('content-type') != [JSON_TYPE]:
            raise Violation('wrong_content_type', '%s\n  expected application/json\n  got %s' % (ctx, got.brief()))
        check_body('json', got.body, payload, ctx, got)
        check_vary(got, exp_headers, ctx)
    if got.values('content-length') != [str(len(got.body))]:
        raise Violation('wrong_content_length', '%s\n  got %s' % (ctx, got.brief()))
    labels = [case['stack'], 'site:' + primary_site, 'raised_kind:' + class_kind(events[0][3]),
              'mro_classes_below_Exception:' + ('>=3' if len(events[0][3].__mro__) - 3 >= 3 else '<3')]
    if len(events) > 1:
        labels.append('second_raise_in_process_response')
    labels.extend(sorted(set(chosen_labels)))
    if reduced:
        labels.append('base_list_reduced')
    if any(len(c.__bases__) > 1 for _s, _i, _o, c in events):
        labels.append('raised_multiple_inheritance')
    for form in sorted(set(r['form'] for r in case['regs'])):
        labels.append('reg_form:' + form)
    return Info(nontrivial, labels)


_ROOT_ANCESTORS = {
    'Exception': set(), 'ValueError': {'Exception'}, 'HTTPError': {'Exception'}, 'HTTPStatus': {'Exception'},
    'HTTPNotFound': {'HTTPError', 'Exception'}, 'HTTPForbidden': {'HTTPError', 'Exception'},
    'KeyError': {'Exception'},
}
_ROOT_FAMILY = {'Exception': 'plain', 'ValueError': 'plain', 'KeyError': 'plain', 'HTTPError': 'error',
                'HTTPNotFound': 'error', 'HTTPForbidden': 'error', 'HTTPStatus': 'status'}


@st.composite
def _choice_case(draw):
    n = draw(st.sampled_from([1, 2, 3, 3, 4, 4, 5, 6, 6]))
    classes = []
    ancestors = dict((k, set(v)) for k, v in _ROOT_ANCESTORS.items())  # ref -> refs of all proper ancestors
    family = dict(_ROOT_FAMILY)
    tidy = draw(st.sampled_from([True, True, True, True, False]))
    for i in range(n):
        pool = DAG_ROOTS + list(range(i)) * 3
        nb = draw(st.sampled_from([1, 2, 2, 3, 3]))
        bases = draw(st.lists(st.sampled_from(pool), min_size=min(nb, 2), max_size=nb, unique=True))
        if tidy:
            # keep Python happy most of the time: no base that is an ancestor of another base, and never the
            # HTTPError and HTTPStatus families together (instance lay-out conflict); untidy cases exercise
            # the deterministic fallback in build_classes
            bases = [b for b in bases if not any(b in ancestors[o] for o in bases if o != b)]
            fam = [family[b] for b in bases if family[b] != 'plain']
            if fam:
                bases = [b for b in bases if family[b] in ('plain', fam[0])]
        elif 'Exception' in bases and len(bases) > 1:
            bases = [b for b in bases if b != 'Exception'] + ['Exception']
        anc = set()
        for b in bases:
            anc.add(b)
            anc |= ancestors[b]
        ancestors[i] = anc
        fams = [family[b] for b in bases if family[b] != 'plain']
        family[i] = fams[0] if fams else 'plain'
        classes.append({'bases': bases, 'handle': draw(st.sampled_from([None, None, None, 0, 1, 2, 3]))})
    raise_pool = [n - 1] * 6 + list(range(n)) * 2 + DAG_ROOTS + EXTRA_CLASSES
    primary = {
        'site': draw(st.sampled_from(SITES)),
        'cls': draw(st.sampled_from(raise_pool)),
        'preset': sorted(draw(st.sets(st.sampled_from(['text', 'data', 'media', 'media', 'rendered', 'text_empty', 'media_empty', 'data_empty']), max_size=3))),
    }
    second = None
    if draw(st.sampled_from([False, False, True])):
        second = {'cls': draw(st.sampled_from(raise_pool))}
    # registrations are biased towards the raised class and its ancestors so that the MRO has to decide
    lineage = sorted(ancestors[primary['cls']] | {primary['cls']}, key=str)
    ref_pool = lineage * 4 + list(range(n)) + DAG_ROOTS + EXTRA_CLASSES
    regs = []
    for _ in range(draw(st.sampled_from([0, 1, 2, 3, 3, 4, 5, 6, 8]))):
        form = draw(st.sampled_from(['single', 'single', 'single', 'tuple', 'list', 'default']))
        nt = 1 if form in ('single', 'default') else draw(st.sampled_from([1, 2, 2, 3]))
        regs.append({
            'classes': draw(st.lists(st.sampled_from(ref_pool), min_size=nt, max_size=nt)),
            'handler': draw(st.integers(0, N_HANDLERS - 1)),
            'form': form,
        })
    return {
        'stack': draw(st.sampled_from(['wsgi', 'asgi'])),
        'classes': classes,
        'regs': regs,
        'raise': primary,
        'second': second,
        'handler_actions': draw(st.lists(st.sampled_from(HANDLER_ACTIONS), min_size=N_HANDLERS,
                                         max_size=N_HANDLERS)),
        'custom_response_type': draw(st.sampled_from([False, False, True])),
    }


class HandlerChoice(Suite):
    """Exception class DAGs (<= 6 classes created with type(), multiple inheritance, roots Exception /
    HTTPError / HTTPNotFound / HTTPStatus / ValueError) x add_error_handler histories (class, tuple, list,
    class-attribute `handle`; repeats; roots re-registered) x raise site (3 middleware phases, before / after
    hook, responder, media handler serialize during rendering) x optional second raise in process_response x
    handler behaviour (body, status only, raises HTTPError / HTTPNotFound / HTTPStatus / HTTPStatus subclass)
    on falcon.App and falcon.asgi.App.  Recorded handler invocations must equal the MRO / latest-registration
    model, each with text/data/media reset, the final response must be the one the last handler or the built-in
    rendering defines, nothing may escape the app callable."""

    name = 'handler_choice'
    budget = {'quick': 3500, 'thorough': 80000}

    def strategy(self, tier):
        return _choice_case()

    def run(self, case):
        return run_choice_case(case)


# ================================================================= suite B: default rendering

ERROR_CLASSES = {
    # name: (status line, extra constructor argument or None)
    'HTTPBadRequest': ('400 Bad Request', None),
    'HTTPUnauthorized': ('401 Unauthorized', 'challenges'),
    'HTTPForbidden': ('403 Forbidden', None),
    'HTTPNotFound': ('404 Not Found', None),
    'HTTPMethodNotAllowed': ('405 Method Not Allowed', 'allowed_methods'),
    'HTTPConflict': ('409 Conflict', None),
    'HTTPGone': ('410 Gone', None),
    'HTTPUnprocessableEntity': ('422 Unprocessable Entity', None),
    'HTTPTooManyRequests': ('429 Too Many Requests', 'retry_after'),
    'HTTPInternalServerError': ('500 Internal Server Error', None),
    'HTTPServiceUnavailable': ('503 Service Unavailable', 'retry_after'),
}
EXTRA_HEADER = {'challenges': 'WWW-Authenticate', 'allowed_methods': 'Allow', 'retry_after': 'Retry-After'}


class AppError(Exception):
    """Application exception converted by a generated error handler."""


def build_error(err):
    """-> (exception instance, int code, status line, reference headers)."""
    kw = {}
    for name in ('title', 'description', 'href', 'href_text', 'code'):
        if err[name] is not None or err['explicit_none']:
            kw[name] = err[name]
    harg = header_arg(err['headers'])
    if harg is not None or err['explicit_none']:
        kw['headers'] = harg
    overrides = []
    if err['cls'] == 'HTTPError':
        arg, code, line = status_ref(err['status'])
        inst = falcon.HTTPError(arg, **kw)
    else:
        line, extra = ERROR_CLASSES[err['cls']]
        code = int(line[:3])
        cls = getattr(falcon, err['cls'])
        value = err['extra']
        if extra == 'allowed_methods':
            value = value or []
            inst = cls(list(value), **kw)
            overrides.append(('Allow', ', '.join(value)))
        elif extra == 'retry_after' and isinstance(value, list) and value[:1] == ['dt']:
            # a datetime (documented: "assumed to be UTC", naive or aware): an HTTP-date, whatever the server's time zone
            import datetime as _dtm
            y, mo, d, hh, mi, ss = value[1]
            kw[extra] = _dtm.datetime(y, mo, d, hh, mi, ss, tzinfo=_dtm.timezone.utc if value[2] else None)
            inst = cls(**kw)
            overrides.append(('Retry-After', '%s, %02d %s %04d %02d:%02d:%02d GMT' % (
                ['Mon', 'Tue', 'Wed', 'Thu', 'Fri', 'Sat', 'Sun'][_dtm.date(y, mo, d).weekday()], d,
                ['Jan', 'Feb', 'Mar', 'Apr', 'May', 'Jun', 'Jul', 'Aug', 'Sep', 'Oct', 'Nov', 'Dec'][mo - 1], y, hh, mi, ss)))
        elif extra is not None and value is not None:
            kw[extra] = list(value) if extra == 'challenges' else value
            inst = cls(**kw)
            if extra == 'challenges':
                if value:
                    overrides.append(('WWW-Authenticate', ', '.join(value)))
            else:
                overrides.append(('Retry-After', str(value)))
        else:
            inst = cls(**kw)
    # reference headers are computed from an argument object built separately (falcon may mutate its own)
    exp = ref_headers(header_arg(err['headers']), overrides)
    if overrides and err['headers']:
        # These classes merge their own header into the given collection by converting it to a dict first;
        # which of several differently-cased spellings of one name then survives is not specified: such
        # names are not asserted (the class's own header always is).
        spellings = {}
        for n, _v in err['headers']['items']:
            spellings.setdefault(n.lower(), set()).add(n)
        own = set(n.lower() for n, _v in overrides)
        for low, names in spellings.items():
            if len(names) > 1 and low not in own:
                exp.pop(low, None)
    return inst, code, line, exp


def build_render_app(case, inst):
    asyn = case['stack'] == 'asgi'
    site = case['site']

    def maybe(at, resp):
        if at == site:
            raise inst
        if at == 'responder' and site == 'handler':
            resp.text = 'stale'
            raise AppError('convert me')

    if asyn:
        class Middleware(object):
            async def process_request(self, req, resp):
                maybe('mw_request', resp)

        class Resource(object):
            async def on_get(self, req, resp, id):
                maybe('responder', resp)

        async def convert(req, resp, ex, params):
            raise inst

        app = falcon.asgi.App(middleware=[Middleware()])
    else:
        class Middleware(object):
            def process_request(self, req, resp):
                maybe('mw_request', resp)

        class Resource(object):
            def on_get(self, req, resp, id):
                maybe('responder', resp)

        def convert(req, resp, ex, params):
            raise inst

        app = falcon.App(middleware=[Middleware()])
    app.add_route('/item/{id}', Resource())
    app.add_error_handler(AppError, convert)
    if not case['xml']:
        app.resp_options.xml_error_serialization = False
    for mt in case['custom']:
        app.resp_options.media_handlers[mt] = VfHandler()
    return app


def run_render_case(case):
    err = case['err']
    ctx = 'case=%r' % (case,)
    accept_text = render_accept(case['accept'])
    ctx += '\n  Accept: %r' % (accept_text if accept_text is None or len(accept_text) < 600
                              else '%s ...(%d characters)... %s' % (accept_text[:300], len(accept_text), accept_text[-100:]),)
    if err['kind'] == 'status':
        arg, code, line = status_ref(err['status'])
        harg = header_arg(err['headers'])
        inst = falcon.HTTPStatus(arg, harg, err['text'])
        exp_headers = ref_headers(header_arg(err['headers']))
        app = build_render_app(case, inst)
        got = perform(app, case['stack'], accept_text, ctx)
        check_status(got, code, line, ctx)
        check_headers(got, exp_headers, ctx, skip=())
        want = (err['text'] or '').encode('utf-8')
        if got.body != want:
            raise Violation('wrong_body', '%s\n  HTTPStatus text must be the UTF-8 body %r\n  got %s'
                            % (ctx, want, got.brief()))
        labels = [case['stack'], 'kind:HTTPStatus', 'site:' + case['site'], 'status_form:' + err['status'][0],
                  'headers:' + (err['headers']['form'] if err['headers'] else 'none')]
        return Info(needs_escaping(err['text'] or ''), labels)

    inst, code, line, exp_headers = build_error(err)
    exp_doc = ref_fields(line, err)
    app = build_render_app(case, inst)
    got = perform(app, case['stack'], accept_text, ctx)
    allowed, how = ref_negotiate(case['accept'], case['xml'], case['custom'])

    check_status(got, code, line, ctx)
    check_headers(got, exp_headers, ctx)
    check_vary(got, exp_headers, ctx)
    ctype = got.values('content-type')
    labels = [case['stack'], 'kind:' + ('HTTPError' if err['cls'] == 'HTTPError' else 'subclass'),
              'site:' + case['site'], 'xml_option:' + ('on' if case['xml'] else 'off'),
              'accept:' + ('absent' if case['accept'] is None else 'empty_header' if not case['accept']
                           else '%d_ranges' % len(case['accept'])),
              'negotiation:' + how, 'headers:' + (err['headers']['form'] if err['headers'] else 'none')]
    if err['cls'] == 'HTTPError':
        labels.append('status_form:' + err['status'][0])
    texts = [exp_doc['title'], err['description'] or '', err['href'] or '', err['href_text'] or '']
    if not allowed:
        if got.body != b'':
            raise Violation('unacceptable_but_body', '%s\n  no supported representation is acceptable to the client, '
                            'expected an empty body\n  got %s' % (ctx, got.brief()))
        labels.append('representation:none')
    else:
        if len(ctype) != 1 or ctype[0] not in allowed:
            raise Violation('wrong_representation', '%s\n  expected Content-Type in %r (documented preference)\n  '
                            'got %s' % (ctx, sorted(allowed), got.brief()))
        kind = body_kind(ctype[0])
        if kind is None:
            raise Violation('wrong_representation', '%s\n  Content-Type %r cannot represent the error\n  got %s'
                            % (ctx, ctype[0], got.brief()))
        labels.append('representation:' + kind)
        if len(allowed) > 1:
            labels.append('tie_among_non_json')
        if kind == 'xml' and not all(is_xml_clean(t) and '\r' not in t for t in texts):
            labels.append('xml_comparison_skipped(unrepresentable char)')
        else:
            check_body(kind, got.body, exp_doc, ctx, got)
    if got.values('content-length') != [str(len(got.body))]:
        raise Violation('wrong_content_length', '%s\n  got %s' % (ctx, got.brief()))
    for name, present in (('description', err['description'] is not None), ('code', err['code'] is not None),
                          ('link', err['href'] is not None), ('title', err['title'] is not None)):
        if present:
            labels.append(name + ':given')
    escaping = any(needs_escaping(t) for t in texts)
    if escaping:
        labels.append('needs_escaping')
    return Info(escaping or (case['accept'] is not None and len(case['accept']) >= 2), labels)


# ----------------------------------------------------------------- strategy B

_SPECIAL = list('<>&"\'\\/%#?= ;,+') + [
    '\x00', '\x01', '\x08', '\t', '\n', '\r', '\x0b', '\x1f', '\x7f', '\x85', '\xa0', '\u2028', '\u2029',
    '\ufeff', '\ufffe', '\uffff', '\ufffd', '\xe9', '\u20ac', '\u4e2d', '\U0001f600', '\U0010ffff',
    ']]>', '<!--', '&amp;', '&#0;', '\\u0000', '</title>']
_PLAIN = list('abcXYZ019 -_.')


def _text(min_size=0, max_size=12):
    piece = st.one_of(st.sampled_from(_PLAIN), st.sampled_from(_PLAIN), st.sampled_from(_SPECIAL),
                      st.characters(blacklist_categories=('Cs',)))
    return st.lists(piece, min_size=min_size, max_size=max_size).map(''.join)


_HREF_BASES = ['http://example.com/docs', 'https://example.org/e/42?x=1&y=2#frag', '/errors/17', 'urn:error:7', '']
_HEADER_NAMES = ['X-Error-Id', 'x-error-id', 'X-ERROR-ID', 'X-Request-Id', 'Cache-Control', 'cache-control',
                 'Content-Language', 'Vary', 'vary', 'Content-Type', 'content-type', 'Retry-After',
                 'WWW-Authenticate', 'Allow', 'X-Powered-By']
_HEADER_VALUES = ['1', 'abc', 'no-store', 'text/plain', 'Cookie', 'Accept-Encoding, Cookie', 'en', 'x y z',
                  'Basic realm="x"', 'a=b; c=d', '~!@#$%^&*()_+{}|:<>?', '120', 'GET, POST']

_ACCEPT_TYPES = (
    [('application', 'json')] * 4 + [('application', 'xml'), ('text', 'xml')] * 2
    + [('application', 'x-vf'), ('text', 'x-vf')] * 2
    + [('application', 'vnd.api+json'), ('application', 'problem+json'), ('application', 'atom+xml'),
       ('application', 'problem+xml')]
    + [('text', 'html'), ('image', 'png'), ('text', 'plain'), ('application', 'yaml')]
    + [('*', '*')] * 2 + [('application', '*'), ('text', '*'), ('image', '*')]
    + [('multipart', 'form-data'), ('application', 'x-www-form-urlencoded')]
)
_QS = [None, None, None, '1', '1.0', '0.9', '0.8', '0.5', '0.5', '0.1', '0.001', '0', '0.0']
_WS = ['', '', ' ', '\t']


def _r(t, s, q):
    return {'t': t, 's': s, 'q': q, 'case': None, 'ws': ['', '', ' ']}


# a refusal (q=0) of a specific type next to a wildcard that would accept it, in both orders, and ties
_FIXED_ACCEPTS = [
    [_r('application', 'json', '0'), _r('*', '*', '0.5')],
    [_r('*', '*', '0.5'), _r('application', 'json', '0')],
    [_r('application', 'json', '0.0'), _r('application', '*', None)],
    [_r('application', 'xml', '0'), _r('text', 'xml', '0'), _r('*', '*', None)],
    [_r('application', 'json', '0'), _r('application', 'xml', '0'), _r('text', 'xml', '0'), _r('*', '*', '0.1')],
    [_r('application', 'json', '0.000'), _r('text', '*', '0.3'), _r('*', '*', '0.2')],
    [_r('application', 'json', '0.5'), _r('application', 'xml', '0.5')],
]


@st.composite
def _accept(draw):
    if draw(st.integers(0, 9)) == 0:
        return [dict(r) for r in draw(st.sampled_from(_FIXED_ACCEPTS))]
    if draw(st.sampled_from([True, False, False, False, False, False])):
        return None
    n = draw(st.sampled_from([1, 1, 2, 2, 3, 4, 1, 2, 0]))
    types = draw(st.lists(st.sampled_from(_ACCEPT_TYPES), min_size=n, max_size=n, unique=True))
    out = []
    pad = draw(st.sampled_from([0] * 24 + [300, 4000, 9000]))  # 9000 ranges: a header of more than 128 KiB
    for t, s in types:
        q = draw(st.sampled_from(_QS))
        if (s.endswith('+json') or s.endswith('+xml')) and q is not None and float(q) == 0:
            q = '0.3'
        out.append({'t': t, 's': s, 'q': q, 'case': draw(st.sampled_from([None, None, None, None, 'upper', 'title'])),
                    'ws': [draw(st.sampled_from(_WS)), draw(st.sampled_from(_WS)), draw(st.sampled_from(['', ' ', ' ']))]})
    if pad and out:
        out.insert(draw(st.integers(0, len(out))), {'t': 'x-pad', 's': 'n', 'q': '0.5', 'case': None, 'ws': ['', '', ''], 'pad': pad})
        out[0]['ws'] = list(out[0].get('ws') or ['', '', ''])
    return out


@st.composite
def _headers(draw, extra_name=None):
    form = draw(st.sampled_from([None, 'dict', 'dict', 'pairs', 'pairs']))
    if form is None:
        return None
    names = [n for n in _HEADER_NAMES]
    items = draw(st.lists(st.tuples(st.sampled_from(names), st.sampled_from(_HEADER_VALUES)), max_size=4))
    return {'form': form, 'items': [list(x) for x in items]}


@st.composite
def _render_case(draw):
    kind = draw(st.sampled_from(['error'] * 7 + ['status']))
    case = {
        'stack': draw(st.sampled_from(['wsgi', 'asgi'])),
        'xml': draw(st.sampled_from([True, True, False])),
        'custom': draw(st.sampled_from([[], [], ['application/x-vf'], ['text/x-vf'],
                                        ['application/x-vf', 'text/x-vf'], ['text/x-vf', 'application/x-vf']])),
        'accept': draw(_accept()),
        'site': draw(st.sampled_from(['responder', 'responder', 'mw_request', 'handler'])),
    }
    if kind == 'status':
        status = draw(st.sampled_from([['line', '200 OK'], ['line', '299 Custom Reason'], ['int', 201], ['int', 202],
                                       ['enum', 200], ['enum', 202], ['bytes', '202 Accepted'], ['int', 409],
                                       ['line', '404 Not Found']]))
        case['err'] = {'kind': 'status', 'status': status, 'headers': draw(_headers()),
                       'text': draw(st.one_of(st.none(), _text(max_size=20)))}
        return case
    cls = draw(st.sampled_from(['HTTPError'] * 6 + sorted(ERROR_CLASSES)))
    err = {'kind': 'error', 'cls': cls, 'status': None, 'extra': None,
           'explicit_none': draw(st.booleans())}
    if cls == 'HTTPError':
        err['status'] = draw(st.sampled_from(
            [['line', '409 Conflict'], ['line', '499 Custom Reason'], ['line', '400 Bad Request'],
             ['line', '599 Custom X'],
             ['int', 400], ['int', 404], ['int', 409], ['int', 415], ['int', 429], ['int', 500], ['int', 503],
             ['enum', 400], ['enum', 403], ['enum', 409], ['enum', 500], ['enum', 502],
             ['bytes', '409 Conflict'], ['bytes', '503 Service Unavailable'],
             # the error's OWN reason phrase travels with it: a custom phrase in a bytes line, the http.HTTPStatus member's
             ['bytes', '409 Edit Conflict'], ['bytes', '599 Custom X'], ['enum', 418], ['enum', 413], ['enum', 416], ['enum', 422],
             ['enum', 414], ['enum', 451]]))
    else:
        extra = ERROR_CLASSES[cls][1]
        if extra == 'challenges':
            err['extra'] = draw(st.sampled_from([None, [], ['Basic realm="x"'], ['Bearer', 'Basic realm="y z"']]))
        elif extra == 'allowed_methods':
            err['extra'] = draw(st.sampled_from([[], ['GET'], ['GET', 'POST', 'HEAD']]))
        elif extra == 'retry_after':
            err['extra'] = draw(st.sampled_from([None, 0, 30, 86400, ['dt', [2050, 1, 1, 0, 30, 0], False], ['dt', [2031, 7, 15, 23, 59, 59], True],
                                                 ['dt', [2028, 2, 29, 12, 0, 0], False], ['dt', [2030, 3, 10, 7, 30, 0], False]]))
    err['title'] = draw(st.one_of(st.none(), _text(min_size=1)))
    err['description'] = draw(st.one_of(st.none(), _text(max_size=20)))
    err['code'] = draw(st.one_of(st.none(), st.none(), st.integers(-5, 5), st.integers(-2 ** 70, 2 ** 70)))
    if draw(st.sampled_from([False, True, True])):
        err['href'] = draw(st.sampled_from(_HREF_BASES)) + draw(_text(max_size=8))
        if not err['href']:
            err['href'] = '/'
        err['href_text'] = draw(st.one_of(st.none(), _text(min_size=1)))
    else:
        err['href'] = None
        err['href_text'] = draw(st.sampled_from([None, None, 'unused text']))
    err['headers'] = draw(_headers())
    case['err'] = err
    return case


class DefaultRendering(Suite):
    """HTTPError (generic with str / int / http.HTTPStatus / bytes status, or one of 11 predefined subclasses
    incl. challenges / allowed_methods / retry_after) with arbitrary unicode title, description, href, href_text,
    int code, headers as dict or pair list with case-variant duplicates - or HTTPStatus with unicode text -
    raised from a responder, from process_request or by an error handler, under an absent Accept header or 1..4
    weighted ranges (JSON, XML, +json, +xml, registered custom types, unacceptable types, wildcards, the other
    default media handlers), xml_error_serialization on/off, 0..2 custom response media handlers, WSGI and
    ASGI.  Status, headers, Vary: Accept, the negotiated representation and the body (parsed back with
    json.loads / expat / the test handler's decoder / parse_qs) must match the reference document."""

    name = 'default_rendering'
    budget = {'quick': 4500, 'thorough': 100000}

    def strategy(self, tier):
        return _render_case()

    def run(self, case):
        return run_render_case(case)


# ================================================================= suite C: registrations interleaved with requests


class _HBase(Exception):
    pass


class _HMid(_HBase):
    pass


class _HLeaf(_HMid):
    pass


class _HSide(Exception):
    pass


class _HBoth(_HLeaf, _HSide):
    pass


class _HNotFound(falcon.HTTPNotFound):
    pass


_H_CLASSES = {'Base': _HBase, 'Mid': _HMid, 'Leaf': _HLeaf, 'Side': _HSide, 'Both': _HBoth, 'Exception': Exception,
              'HTTPError': falcon.HTTPError, 'HTTPNotFound': falcon.HTTPNotFound, 'MyNotFound': _HNotFound}

_H_SMALL = sorted(_H_CLASSES)  # the generated histories draw from these nine


class RegistrationHistory(Suite):
    """One app instance lives through a history of add_error_handler(class, handler_k) calls INTERLEAVED with requests
    whose responder raises an instance of a chosen class (5-class hierarchy with multiple inheritance, plus Exception /
    HTTPError / HTTPNotFound and a subclass): after every registration the very next request must already be served by
    the handler the current registrations designate (first registered class on the MRO, latest registration winning;
    the built-in rendering otherwise), even for exception types that were served before the registration changed."""

    name = 'registration_history'
    budget = {'quick': 2500, 'thorough': 60000}

    def strategy(self, tier):
        cls = st.sampled_from(_H_SMALL)
        op = st.one_of(st.tuples(st.just('reg'), cls, st.integers(0, 3)), st.tuples(st.just('raise'), cls),
                       st.tuples(st.just('raise'), cls))
        return st.builds(lambda stack, ops: {'stack': stack, 'ops': [list(o) for o in ops]},
                         st.sampled_from(['wsgi', 'asgi']), st.lists(op, min_size=2, max_size=12))

    def run(self, case):
        stack = case['stack']
        box = {}

        def make_handler(k):
            if stack == 'wsgi':
                def handler(req, resp, ex, params):
                    resp.status = falcon.HTTP_299 if hasattr(falcon, 'HTTP_299') else 299
                    resp.text = 'handler-%d:%s' % (k, type(ex).__name__)
            else:
                async def handler(req, resp, ex, params):
                    resp.status = 299
                    resp.text = 'handler-%d:%s' % (k, type(ex).__name__)
            return handler

        handlers = [make_handler(k) for k in range(4)]
        if stack == 'wsgi':
            class R(object):
                def on_get(self, req, resp):
                    raise box['exc']
            app = falcon.App()
        else:
            class R(object):
                async def on_get(self, req, resp):
                    raise box['exc']
            app = falcon.asgi.App()
        app.add_route('/', R())
        model = {}
        served = set()
        rereg_after_served = False
        n_raise = 0
        for i, op in enumerate(case['ops']):
            c = _H_CLASSES[op[1]]
            if op[0] == 'reg':
                app.add_error_handler(c, handlers[op[2]])
                if c in model and any(c in t.__mro__ for t in served):
                    rereg_after_served = True
                model[c] = op[2]
                continue
            n_raise += 1
            exc = c() if not issubclass(c, falcon.HTTPError) or c in (falcon.HTTPNotFound, _HNotFound) else c(falcon.HTTP_409)
            box['exc'] = exc
            served.add(c)
            if stack == 'wsgi':
                res = W.call(app, W.build_environ('GET', '/'))
            else:
                res = A.call(app, A.build_scope('GET', '/'))
            if res.error is not None:
                raise Violation('exception_escaped', 'ops[:%d]=%r: %r escaped the app callable' % (i + 1, case['ops'][:i + 1], res.error))
            chosen = None
            for k in c.__mro__:
                if k in model:
                    chosen = model[k]
                    break
                if k in (falcon.HTTPError, Exception):
                    break  # built-in handlers are registered for these classes
            if chosen is not None:
                want = (299, ('handler-%d:%s' % (chosen, c.__name__)).encode())
                got = (res.code, res.body)
            else:
                code = 404 if issubclass(c, falcon.HTTPNotFound) else 409 if issubclass(c, falcon.HTTPError) else 500
                want = (code, None)
                got = (res.code, None)
            if got != want:
                raise Violation('stale_or_wrong_handler', '%s ops[:%d]=%r: raising %s gave (status, body) %r, the current registrations %r designate %r'
                                % (stack, i + 1, case['ops'][:i + 1], c.__name__, (res.code, res.body[:60]),
                                   sorted((k.__name__, v) for k, v in model.items()), want))
        labels = [stack]
        if rereg_after_served:
            labels.append('re-registration_after_type_was_served')
        if n_raise >= 2:
            labels.append('>=2_requests')
        return Info(rereg_after_served and n_raise >= 2, labels)


def _grow_classes():
    """A chain of 200 exception classes (Chain0 > Chain1 > ...) and 400 unrelated ones, for counts beyond the moderate range."""
    prev = Exception
    for i in range(200):
        prev = type('Chain%d' % i, (prev,), {})
        _H_CLASSES['Chain%d' % i] = prev
    for i in range(400):
        _H_CLASSES['Flat%d' % i] = type('Flat%d' % i, (Exception,), {})


_grow_classes()


class ManyHandlers(Suite):
    """Counts beyond the moderate range through the same history interpreter: inheritance chains 20-200 classes deep with
    a handler on every 7th / 64th class (the nearest registered ancestor must win, at any distance), 70-400 unrelated
    classes with a handler each, re-registrations after the types were served; on both stacks."""

    name = 'many_handlers'
    exhaustive = True
    budget = {'quick': 1, 'thorough': 1}

    def cases(self, tier):
        for stack in ('wsgi', 'asgi'):
            for n in ((70, 200) if tier == 'quick' else (20, 63, 64, 65, 70, 129, 200)):
                for every in (7, 64):
                    yield {'stack': stack, 'shape': 'chain', 'n': n, 'every': every}
            for n in ((70, 400) if tier == 'quick' else (63, 64, 65, 70, 129, 257, 400)):
                yield {'stack': stack, 'shape': 'flat', 'n': n}

    def run(self, case):
        n = case['n']
        ops = []
        if case['shape'] == 'chain':
            every = case['every']
            for i in range(0, n, every):
                ops.append(['reg', 'Chain%d' % i, (i // every) % 4])
            for i in (n - 1, n // 2, every, every - 1, 0, n - 1):
                ops.append(['raise', 'Chain%d' % max(i, 0)])
            ops.append(['reg', 'Chain%d' % (n // 2), 3])
            ops.append(['raise', 'Chain%d' % (n - 1)])
            ops.append(['reg', 'Chain0', 2])
            ops.append(['raise', 'Chain%d' % max(every - 1, 0)])
            ops.append(['raise', 'Chain%d' % (n - 1)])
        else:
            for i in range(n):
                ops.append(['reg', 'Flat%d' % i, i % 4])
            for i in (0, n - 1, n // 2, 64, n):
                ops.append(['raise', 'Flat%d' % min(i, 399)])
            ops.append(['reg', 'Flat%d' % (n - 1), (n + 1) % 4])
            ops.append(['raise', 'Flat%d' % (n - 1)])
        try:
            RegistrationHistory().run({'stack': case['stack'], 'ops': ops})
        except Violation as v:
            d = v.detail
            raise Violation(v.kind, '%s ... %s\n  compact case=%r' % (d[:300], d[-400:], case))
        return Info(True, [case['stack'], 'shape:' + case['shape'], 'n:%s' % ('<=64' if n <= 64 else '>64')])



class _ResetExc(Exception):
    pass


class ResetEnum(Suite):
    """Exhaustive: what the responder had set so far (any subset of text / data / media, the media optionally already
    rendered through the public render_body()) x what the handler of the raised exception does (nothing, status only,
    sets text, sets media, raises a body-less HTTPStatus, raises an HTTPError) x stack: nothing the responder prepared may
    reach the client; the body is exactly what the handler (or the rendering of what it raised) defines."""

    name = 'reset_enum'
    exhaustive = True
    budget = {'quick': 1, 'thorough': 1}

    def cases(self, tier):
        import itertools
        for stack in ('wsgi', 'asgi'):
            # per attribute: 0 = not set, 1 = set, 2 = set to a falsy value ('' / b'' / [])
            for pre in itertools.product((0, 1, 2), repeat=3):
                for render in (False, True):
                    for action in ('noop', 'status', 'text', 'media', 'raise_status', 'raise_error', 'text_then_raise_status',
                                   'text_then_raise_error'):
                        yield {'stack': stack, 'pre': list(pre), 'render': render, 'action': action}

    def run(self, case):
        asyn = case['stack'] == 'asgi'
        pre_text, pre_data, pre_media = case['pre']
        action = case['action']

        def prepare(resp):
            if pre_text:
                resp.text = 'prepared text' if pre_text == 1 else ''
            if pre_data:
                resp.data = b'prepared data' if pre_data == 1 else b''
            if pre_media:
                resp.media = {'prepared': 'media'} if pre_media == 1 else []

        def compose(resp):
            if action == 'status':
                resp.status = 202
            elif action == 'text':
                resp.text = 'handler text'
            elif action == 'media':
                resp.media = {'handler': 1}
            elif action == 'raise_status':
                raise falcon.HTTPStatus(falcon.HTTP_203)
            elif action == 'raise_error':
                raise falcon.HTTPConflict(title='handler conflict')
            elif action == 'text_then_raise_status':
                # the handler prepares something itself, then changes its mind: the raised status (no text) defines the response
                resp.text = 'handler draft'
                resp.media = {'handler': 'draft'}
                raise falcon.HTTPStatus(falcon.HTTP_203)
            elif action == 'text_then_raise_error':
                resp.text = 'handler draft'
                raise falcon.HTTPConflict(title='handler conflict')

        if asyn:
            class R(object):
                async def on_get(self, req, resp):
                    prepare(resp)
                    if case['render']:
                        await resp.render_body()
                    raise _ResetExc()

            async def handler(req, resp, ex, params):
                compose(resp)
            app = falcon.asgi.App()
        else:
            class R(object):
                def on_get(self, req, resp):
                    prepare(resp)
                    if case['render']:
                        resp.render_body()
                    raise _ResetExc()

            def handler(req, resp, ex, params):
                compose(resp)
            app = falcon.App()
        app.add_route('/', R())
        app.add_error_handler(_ResetExc, handler)
        res = A.call(app, A.build_scope('GET', '/')) if asyn else W.call(app, W.build_environ('GET', '/'))
        if res.error is not None:
            raise Violation('exception_escaped', 'case=%r: %r escaped the app callable' % (case, res.error))
        code = {'noop': 200, 'status': 202, 'text': 200, 'media': 200, 'raise_status': 203, 'raise_error': 409,
                'text_then_raise_status': 203, 'text_then_raise_error': 409}[action]
        ctx = 'case=%r: status %r body %r' % (case, res.code, res.body)
        if res.code != code:
            raise Violation('reset_wrong_status', ctx)
        if action in ('noop', 'status', 'raise_status', 'text_then_raise_status'):
            ok = res.body == b''
        elif action == 'text':
            ok = res.body == b'handler text'
        elif action == 'media':
            ok = json.loads(res.body.decode()) == {'handler': 1}
        else:
            try:
                ok = json.loads(res.body.decode()) == {'title': 'handler conflict'}
            except ValueError:
                ok = False
        if not ok:
            raise Violation('prepared_body_survived', 'what the responder had set before raising must be discarded; ' + ctx)
        return Info(any(case['pre']), [case['stack'], 'handler:' + action] + (['rendered_before_raise'] if case['render'] else []))


SUITES = [HandlerChoice(), DefaultRendering(), RegistrationHistory(), ManyHandlers(), ResetEnum()]

def render_body_dropped(suite_name, case, violation):
    """Finding F25: whatever the error handling composes for an exception raised while the body is rendered,
    the response is sent with an empty body."""
    return (suite_name == 'handler_choice' and case['raise']['site'] == 'render'
            and violation.kind in ('wrong_body', 'error_body_unparseable'))


KNOWN = {
    # any HTTPError when the client's preferred supported type is multipart/form-data: the negotiation
    # selects the multipart media handler, which cannot serialize -> 500 with an empty body
    'F4': lambda suite_name, case, violation: (
        suite_name == 'default_rendering'
        and violation.kind in ('wrong_status', 'wrong_representation')
        and f4_applies(case)
    ),
    'F25': render_body_dropped,
}
