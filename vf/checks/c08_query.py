"""C08 — Query strings parse to one well-defined mapping; typed getters never misreport."""
import datetime
import itertools
import json
import math
import re
import urllib.parse
import uuid

from hypothesis import strategies as st

import falcon
import falcon.asgi
from falcon.util import misc as falcon_misc
from falcon.util import uri as falcon_uri

from vf.core import Info, Suite, Violation
from vf.drivers import asgi as asgi_driver
from vf.drivers import wsgi as wsgi_driver
from vf.ref import c08_query as ref

LEVEL = 'exploration'
RULE = (
    "parse suites: the query string shows >= 2 of {a repeated name, '%', '+', ',', a field with an "
    'empty name or empty value}; getter suite: in the same case at least one typed (non-str) getter '
    'converted a value successfully and at least one getter raised a documented 400 error; '
    'round-trip suite: the dict has a list value or a character that must be escaped; '
    'distinct = distinct case fingerprint'
)
ASSUMPTIONS = [
    'lone surrogates are not query-string text and are excluded',
    'the Cython twin falcon/cyutil/uri.pyx cannot be built offline and is not covered',
    'a text query string reaches ASGI as its UTF-8 bytes and WSGI as those bytes tunnelled through '
    'latin-1 (PEP 3333); raw non-UTF-8 bytes in an ASGI scope are outside the ASGI spec (query_string is '
    'percent-encoded) and are not generated',
    "csv mode with blanks dropped: for a name one of whose occurrences is a comma-only value (e.g. 'a=,&a=1') "
    'scalar-vs-one-element-list is not asserted; a name with no value left must be absent or map to [] and '
    'every scalar getter must treat it as missing',
    'float getter with min/max given and a NaN value: docstring is self-contradictory, either outcome accepted',
    'JSON params are nested <= 50 deep (RecursionError on deep nesting is finding F5, owned by C12)',
    'format strings and list transforms are caller-supplied code; only well-formed strptime formats and '
    'transforms that raise nothing but ValueError are used',
]

ALPHABET = ['&', '=', ',', '+', '%', '2', 'C', 'c', 'g', 'a', ';', '\x00', 'é']
COMBOS = [(False, False), (False, True), (True, False), (True, True)]  # (keep_blank, csv)

TRUE_STRINGS = ('true', 'True', 't', 'yes', 'y', '1', 'on')
FALSE_STRINGS = ('false', 'False', 'f', 'no', 'n', '0', 'off')

_MALFORMED = re.compile('%(?![0-9A-Fa-f]{2})')


async def _receive():  # never awaited: the requests built here have no body
    return {'type': 'http.disconnect'}


def make_options(keep, csv):
    opts = falcon.RequestOptions()
    opts.keep_blank_qs_values = keep
    opts.auto_parse_qs_csv = csv
    return opts


def tunnel(s):
    """What a WSGI server puts into QUERY_STRING for the request-target text s."""
    return s if s.isascii() else s.encode('utf-8').decode('latin-1')


def wsgi_request(s, opts):
    env = wsgi_driver.build_environ(query=tunnel(s))
    return falcon.Request(env, options=opts) if opts is not None else falcon.Request(env)


def asgi_request(s, opts):
    scope = asgi_driver.build_scope(query='', extra={'query_string': s.encode('utf-8')})
    if opts is None:
        return falcon.asgi.Request(scope, _receive)
    return falcon.asgi.Request(scope, _receive, options=opts)


def features(s):
    """The classes the non-trivial rule names."""
    f = []
    base = ref.parse(s, True, False)
    if any(len(v) > 1 for v in base.values.values()):
        f.append('repeated_name')
    if '%' in s:
        f.append('pct')
    if '+' in s:
        f.append('plus')
    if ',' in s:
        f.append('comma')
    if s:
        for field in s.split('&'):
            k, _, v = field.partition('=')
            if k == '' or v == '':
                f.append('empty_name_or_value')
                break
    return f


def check_basic_getters(req, exp, where):
    """has_param / get_param / get_param_as_list on every name and one absent name."""
    params = req.params
    for name, vals in exp.values.items():
        if req.has_param(name) is not True:
            raise Violation('has_param', '%s: has_param(%r) is not True, params=%r' % (where, name, params))
        try:
            got = req.get_param(name)
            got_list = req.get_param_as_list(name)
        except Exception as e:
            raise Violation('getter_raised', '%s: get_param/get_param_as_list(%r) raised %s: %s; params=%r'
                            % (where, name, type(e).__name__, e, params))
        if got != vals[-1]:
            raise Violation('get_param_not_last', '%s: get_param(%r) = %r, last occurrence is %r (all: %r)'
                            % (where, name, got, vals[-1], vals))
        if got_list != vals:
            raise Violation('get_param_as_list', '%s: get_param_as_list(%r) = %r, expected %r'
                            % (where, name, got_list, vals))
    absent = 'zz'
    while absent in exp.values or absent in exp.vanished:
        absent += 'z'
    for name in sorted(exp.vanished) + [absent]:
        if req.has_param(name) is not (name in params):
            raise Violation('has_param', '%s: has_param(%r) = %r but params=%r'
                            % (where, name, req.has_param(name), params))
        try:
            got = req.get_param(name)
            got_req = None
            try:
                req.get_param(name, required=True)
                got_req = 'returned'
            except falcon.HTTPMissingParam:
                got_req = 'missing'
        except Exception as e:
            raise Violation('getter_raised', '%s: get_param(%r) raised %s: %s although no value is left; params=%r'
                            % (where, name, type(e).__name__, e, params))
        if got is not None or got_req != 'missing':
            raise Violation('absent_param_reported', '%s: get_param(%r) = %r / required -> %s; params=%r'
                            % (where, name, got, got_req, params))


def check_parse(s):
    """All four option combinations: function, WSGI request, ASGI request vs the references."""
    w = tunnel(s)
    labels = set()
    for keep, csv in COMBOS:
        where = 'qs=%r keep_blank=%s csv=%s' % (s, keep, csv)
        try:
            got = falcon_uri.parse_query_string(s, keep_blank=keep, csv=csv)
        except Exception as e:
            raise Violation('parse_raised', '%s: %s: %s' % (where, type(e).__name__, e))
        exp = ref.parse(s, keep, csv)
        diff = ref.compare(got, exp)
        if diff:
            raise Violation('parse_mismatch', '%s: parse_query_string -> %r; %s' % (where, got, diff))
        if not csv:
            lib = ref.parse_stdlib(s, keep)
            if got != lib:
                raise Violation('parse_vs_urllib', '%s: parse_query_string -> %r, urllib.parse.parse_qsl reading %r'
                                % (where, got, lib))
        if exp.vanished:
            labels.add('vanished_name')
        if csv and any(sh == 'list' for sh in exp.shape.values()):
            labels.add('csv_or_repeat_list')
        opts = make_options(keep, csv)
        # ---- ASGI: the scope carries the UTF-8 bytes of s
        areq = asgi_request(s, opts)
        if areq.query_string != s or areq.params != got or ref.compare(areq.params, exp):
            raise Violation('asgi_params', '%s: asgi req.query_string=%r req.params=%r, parse_query_string=%r'
                            % (where, areq.query_string, areq.params, got))
        # ---- WSGI: QUERY_STRING is the latin-1 tunnelled form
        wreq = wsgi_request(s, opts)
        if w == s:
            wexp, wgot = exp, got
        else:
            wexp, wgot = ref.parse(w, keep, csv), falcon_uri.parse_query_string(w, keep_blank=keep, csv=csv)
        diff = ref.compare(wreq.params, wexp)
        if wreq.query_string != w or wreq.params != wgot or diff:
            raise Violation('wsgi_params', '%s: QUERY_STRING=%r req.params=%r, parse_query_string=%r; %s'
                            % (where, w, wreq.params, wgot, diff))
        check_basic_getters(areq, exp, where + ' [asgi]')
        check_basic_getters(wreq, wexp, where + ' [wsgi]')
        # ---- a request's mapping is its own: what an application does to it (middleware adding a default, a responder
        # popping what it consumed) must not show in the mapping of the NEXT request with the same query string
        for r in (areq, wreq):
            try:
                for name, value in list(r.params.items()):
                    as_list = r.get_param_as_list(name)
                    for lst in (value, as_list):
                        if isinstance(lst, list):  # a responder sorting / consuming the list it was handed
                            lst.reverse()
                            lst.append('vf-appended-by-an-earlier-request')
                r.params['vf_injected'] = 'by-an-earlier-request'
                for name in list(exp.values)[:1]:
                    r.params.pop(name, None)
            except TypeError:
                pass  # an immutable mapping would be fine too
        areq2, wreq2 = asgi_request(s, opts), wsgi_request(s, opts)
        if areq2.params != got or wreq2.params != wgot:
            raise Violation('params_leak_between_requests', '%s: after an earlier request\'s params were modified by the application, a new '
                            'request with the same query string has asgi params=%r wsgi params=%r, expected %r / %r'
                            % (where, areq2.params, wreq2.params, got, wgot))
    # ---- documented defaults: function keep_blank=False, csv=False; RequestOptions keep=True, csv=False
    dflt = falcon_uri.parse_query_string(s)
    if ref.compare(dflt, ref.parse(s, False, False)):
        raise Violation('function_defaults', 'parse_query_string(%r) = %r, expected the keep_blank=False csv=False reading'
                        % (s, dflt))
    for req, text in ((wsgi_request(s, None), w), (asgi_request(s, None), s)):
        diff = ref.compare(req.params, ref.parse(text, True, False))
        if diff:
            raise Violation('option_defaults', 'default RequestOptions, query %r: params=%r; %s' % (text, req.params, diff))
    return labels


def parse_info(s, extra=()):
    f = features(s)
    lb = list(f)
    if _MALFORMED.search(s):
        lb.append('malformed_escape')
    if not s.isascii():
        lb.append('non_ascii')
    if s.count('%') >= 8:
        lb.append('pct>=8(decoder long path)')
    return Info(len(f) >= 2, lb + list(extra))


class EnumShort(Suite):
    """All strings of length <= 4 (quick) / <= 5 (thorough) over the 13 symbols & = , + % 2 C c g a ; NUL e-acute, each under the 4
    combinations of keep_blank x csv: parse_query_string vs the statement-derived reference (and vs
    urllib.parse.parse_qsl for csv=False), req.params / query_string / has_param / get_param /
    get_param_as_list on a WSGI Request and an ASGI Request built with those options, plus the documented
    default options."""

    name = 'enum_short'
    exhaustive = True
    budget = {'quick': 1, 'thorough': 1}

    def cases(self, tier):
        for n in range(0, 5 if tier == 'quick' else 6):
            for t in itertools.product(ALPHABET, repeat=n):
                yield {'s': ''.join(t)}

    def run(self, case):
        s = case['s']
        extra = check_parse(s)
        return parse_info(s, sorted(extra))


# ------------------------------------------------------------------ random longer strings

_ESCAPES = ['%20', '%2C', '%2c', '%26', '%3D', '%3d', '%2B', '%25', '%00', '%C3%A9', '%c3%a9', '%E2%82%AC',
            '%F0%9F%98%80', '%C3', '%A9', '%E2%82', '%FF', '%ED%A0%80']
_BROKEN = ['%', '%2', '%G1', '%1g', '%%', '%+', '%,', '%=', '%&', '% 2', '%2%2C']
_piece = st.one_of(
    st.sampled_from(ALPHABET + [' ', 'b', '1', '0', '€', '\U0001F600', ';']),
    st.sampled_from(_ESCAPES),
    st.sampled_from(_BROKEN),
    st.text(alphabet=st.characters(blacklist_categories=('Cs',)), min_size=0, max_size=5),
    st.text(alphabet='abc012,+', min_size=1, max_size=6),
    st.binary(min_size=1, max_size=4).map(lambda b: ''.join('%%%02X' % c for c in b)),
    st.builds(lambda e, n: e * n, st.sampled_from(['%C3%A9', '%2C', '%41', '%', '%zz', '%E2%82']),
              st.integers(8, 24)),
)
_token = st.lists(_piece, min_size=0, max_size=5).map(''.join)
_name = st.one_of(st.sampled_from(['a', 'b', 'a', 'id', '', '%61', 'a+b', 'a%20b', 'a b', 'é', '%C3%A9', ',']),
                  _token)
_field = st.one_of(
    st.builds(lambda k, v: k + '=' + v, _name, _token),
    st.builds(lambda k, v: k + '=' + v, _name, st.lists(_token, min_size=2, max_size=5).map(','.join)),
    st.builds(lambda k: k + '=', _name),
    _name,
    st.builds(lambda k, v, w: k + '=' + v + '=' + w, _name, _token, _token),
    st.sampled_from(['', '=', '==', ',', '=,', 'a=,', 'a=,,', 'a=1', 'a=1,', 'b=,%2C', '=x']),
)


class RandomLong(Suite):
    """Random query strings assembled from fields (names from a small colliding pool; values from the
    exhaustive alphabet, valid / truncated / invalid UTF-8 escapes, malformed escapes, arbitrary unicode,
    runs of > 8 escapes so that the decoder's long path is taken, comma lists with blanks), same oracle as
    enum_short under all 4 option combinations."""

    name = 'random_long'
    budget = {'quick': 8000, 'thorough': 250000}

    def strategy(self, tier):
        return st.builds(
            lambda fields, rep: {'s': '&'.join(fields * rep)},
            st.lists(_field, min_size=0, max_size=8),
            st.sampled_from([1, 1, 1, 1, 1, 1, 2, 12]),
        )

    def run(self, case):
        s = case['s']
        extra = check_parse(s)
        return parse_info(s, sorted(extra) + ['len>1000'] * (len(s) > 1000))


# ------------------------------------------------------------------ typed getters

DEFAULTS = {
    'str': 'dflt', 'int': -12345, 'float': -0.5, 'uuid': uuid.UUID(int=7), 'list': ['dflt'],
    'datetime': datetime.datetime(2000, 1, 2, 3, 4, 5), 'date': datetime.date(2000, 1, 2), 'json': {'dflt': [1]},
}


def _no_x(item):
    if 'x' in item:
        raise ValueError('x is not allowed')
    return item + '!'


TRANSFORMS = {'int': int, 'float': float, 'upper': str.upper, 'uuid': uuid.UUID, 'no_x': _no_x}
DT_DEFAULT = '%Y-%m-%dT%H:%M:%S%z'
D_DEFAULT = '%Y-%m-%d'


def same(a, b):
    return type(a) is type(b) and repr(a) == repr(b)


def conv(fn, *args):
    """Python's own conversion: ('value', v) or ('invalid',) when it raises ValueError."""
    try:
        return ('value', fn(*args))
    except ValueError:
        return ('invalid',)


def bounded(outcome, lo, hi):
    if outcome[0] != 'value':
        return outcome
    v = outcome[1]
    if isinstance(v, float) and math.isnan(v) and (lo is not None or hi is not None):
        return ('nan_bounds', v)
    if lo is not None and v < lo:
        return ('invalid',)
    if hi is not None and v > hi:
        return ('invalid',)
    return outcome


def ref_bool(text, blank_as_true):
    if text in TRUE_STRINGS:
        return ('value', True)
    if text in FALSE_STRINGS:
        return ('value', False)
    if text == '':
        return ('value', blank_as_true)
    return ('invalid',)


def call_getter(req, getter, name, kwargs, use_store, expected, default, required, where, stats):
    """expected: ('value', v) | ('invalid',) | ('absent',) | ('nan_bounds', v)."""
    store = {} if use_store else None
    kw = dict(kwargs)
    if use_store:
        kw['store'] = store
    if required:
        kw['required'] = True
    if default is not None:
        kw['default'] = default
    method = getattr(req, getter)
    desc = '%s: %s(%r, %s)' % (where, getter, name,
                               ', '.join('%s=%r' % (k, v) for k, v in sorted(kw.items()) if k != 'store'))
    try:
        got = ('value', method(name, **kw))
    except falcon.HTTPInvalidParam as e:
        got = ('invalid', e)
    except falcon.HTTPMissingParam as e:
        got = ('missing', e)
    except Exception as e:
        raise Violation('getter_raised', '%s raised %s: %s (only HTTPMissingParam / HTTPInvalidParam are documented); '
                        'params=%r' % (desc, type(e).__name__, str(e)[:200], req.params))
    if got[0] != 'value':
        e = got[1]
        if type(e) not in (falcon.HTTPInvalidParam, falcon.HTTPMissingParam) or not str(e.status).startswith('400') \
                or name not in (e.description or ''):
            raise Violation('error_shape', '%s raised %r status=%r description=%r' % (desc, e, e.status, e.description))
        if use_store and store != {}:
            raise Violation('store_on_error', '%s raised %s but store=%r' % (desc, got[0], store))
    kind = expected[0]
    if kind == 'absent':
        if required:
            ok = got[0] == 'missing'
            want = 'HTTPMissingParam'
        else:
            ok = got[0] == 'value' and got[1] is default
            want = 'default %r' % (default,)
        if ok and use_store and store != {}:
            raise Violation('store_when_absent', '%s: param absent but store=%r' % (desc, store))
        stats.add('absent->' + ('HTTPMissingParam' if required else 'default' if default is not None else 'None'))
    elif kind == 'invalid':
        ok = got[0] == 'invalid'
        want = 'HTTPInvalidParam'
        stats.add('invalid:' + getter)
    elif kind == 'nan_bounds':
        ok = got[0] == 'invalid' or (got[0] == 'value' and same(got[1], expected[1]))
        want = 'nan or HTTPInvalidParam'
        stats.add('nan_bounds:' + getter)
    else:
        ok = got[0] == 'value' and same(got[1], expected[1])
        want = repr(expected[1])
        if ok and use_store and not (list(store) == [name] and store[name] is got[1]):
            raise Violation('store_mismatch', '%s returned %r but store=%r' % (desc, got[1], store))
        stats.add('ok:' + getter)
    if not ok:
        shown = repr(got[1]) if got[0] == 'value' else '%s (%s)' % (type(got[1]).__name__, got[1].description)
        raise Violation('getter_mismatch', '%s -> %s; expected %s; params=%r' % (desc, shown, want, req.params))


def check_getters(req, exp, cfg, absent, where):
    stats = set()
    params = req.params
    names = list(exp.values) + sorted(exp.vanished)
    if absent not in exp.values and absent not in exp.vanished:
        names.append(absent)
    required = cfg['required']
    use_store = cfg['store']
    dt_fmt = cfg['dt_fmt']
    d_fmt = cfg['d_fmt']
    for name in names:
        present = name in exp.values
        last = exp.values[name][-1] if present else None

        def go(getter, kwargs, expected, default_key, default_override=None):
            default = None
            if cfg['default']:
                default = DEFAULTS[default_key] if default_override is None else default_override
            call_getter(req, getter, name, kwargs, use_store, expected if present else ('absent',), default,
                        required, where, stats)

        if req.has_param(name) is not (name in params):
            raise Violation('has_param', '%s: has_param(%r) = %r, params=%r' % (where, name, req.has_param(name), params))
        go('get_param', {}, ('value', last), 'str')
        kw = {}
        if cfg['imin'] is not None:
            kw['min_value'] = cfg['imin']
        if cfg['imax'] is not None:
            kw['max_value'] = cfg['imax']
        go('get_param_as_int', kw, bounded(conv(int, last), cfg['imin'], cfg['imax']) if present else None, 'int')
        kw = {}
        if cfg['fmin'] is not None:
            kw['min_value'] = cfg['fmin']
        if cfg['fmax'] is not None:
            kw['max_value'] = cfg['fmax']
        go('get_param_as_float', kw, bounded(conv(float, last), cfg['fmin'], cfg['fmax']) if present else None, 'float')
        kw = {} if cfg['blank_as_true'] is None else {'blank_as_true': cfg['blank_as_true']}
        bat = True if cfg['blank_as_true'] is None else cfg['blank_as_true']
        go('get_param_as_bool', kw, ref_bool(last, bat) if present else None, 'str', cfg['bool_default'])
        go('get_param_as_uuid', {}, conv(uuid.UUID, last) if present else None, 'uuid')
        kw = {} if dt_fmt is None else {'format_string': dt_fmt}
        go('get_param_as_datetime', kw,
           conv(datetime.datetime.strptime, last, dt_fmt or DT_DEFAULT) if present else None, 'datetime')
        kw = {} if d_fmt is None else {'format_string': d_fmt}
        dexp = None
        if present:
            dexp = conv(datetime.datetime.strptime, last, d_fmt or D_DEFAULT)
            if dexp[0] == 'value':
                dexp = ('value', dexp[1].date())
        go('get_param_as_date', kw, dexp, 'date')
        go('get_param_as_json', {}, conv(json.loads, last) if present else None, 'json')
        # ---- list getter: all occurrences, optional transform
        tname = cfg['transform']
        kw = {} if tname is None else {'transform': TRANSFORMS[tname]}
        if present:
            vals = exp.values[name]
            lexp = ('value', list(vals)) if tname is None else conv(lambda: [TRANSFORMS[tname](i) for i in vals])
            go('get_param_as_list', kw, lexp, 'list')
        elif name in params:
            # vanished name kept as an empty list: the list getter reports the empty list
            call_getter(req, 'get_param_as_list', name, kw, use_store, ('value', []),
                        DEFAULTS['list'] if cfg['default'] else None, required, where, stats)
        else:
            go('get_param_as_list', kw, None, 'list')
    return stats


def _q_full(v):
    return urllib.parse.quote(v, safe='')


def _q_plus(v):
    return urllib.parse.quote(v, safe=' ').replace(' ', '+')


def _q_lower(v):
    return re.sub('%[0-9A-F]{2}', lambda m: m.group(0).lower(), urllib.parse.quote(v, safe=''))


def _q_min(v):
    return ''.join('%%%02X' % ord(c) if c in '%&=+,#' else c for c in v)


def _q_min_comma(v):
    return ''.join('%%%02X' % ord(c) if c in '%&=+#' else c for c in v)


def _q_raw(v):
    return v


ENCODERS = [_q_full, _q_plus, _q_lower, _q_min, _q_min_comma, _q_raw]

_small_int = st.integers(-60, 60)
_int_text = st.one_of(
    _small_int.map(str), _small_int.map(str), st.integers(-10 ** 30, 10 ** 30).map(str),
    st.sampled_from(['+5', ' 12', '12 ', '1_000', '１２', '0x10', '1.0', '12abc', '', '-', '--1', '1e3',
                     '9' * 4400, '007', '-0', '٣']),
)
_float_text = st.one_of(
    st.floats(allow_nan=False, allow_infinity=False, width=32).map(repr),
    st.floats(-60, 60).map(lambda f: '%.2f' % f),
    _small_int.map(str),
    st.sampled_from(['nan', 'NaN', '-nan', 'inf', '-inf', 'Infinity', '1e5', '1e999', '-1e999', '.5', '5.', '1,5',
                     '1_0.5', ' 2.5 ', '0x1p3', '', 'e5', '1e', '１.5']),
)
_bool_text = st.sampled_from(list(TRUE_STRINGS) + list(FALSE_STRINGS) + [
    'TRUE', 'FALSE', 'Yes', 'No', 'ON', 'Off', 'T', 'F', 'Y', 'N', '', ' true', 'true ', '2', '-1', 'tRue', '00',
    '01', 'null', 'none'])
_uuid_obj = st.one_of(st.uuids(), st.integers(0, 2 ** 128 - 1).map(lambda n: uuid.UUID(int=n)))
_uuid_text = st.one_of(
    _uuid_obj.map(str), _uuid_obj.map(lambda u: str(u).upper()), _uuid_obj.map(lambda u: u.hex),
    _uuid_obj.map(lambda u: '{%s}' % u), _uuid_obj.map(lambda u: 'urn:uuid:%s' % u),
    _uuid_obj.map(lambda u: str(u)[:-1]), _uuid_obj.map(lambda u: str(u)[:-1] + 'g'),
    _uuid_obj.map(lambda u: str(u) + '0'), _uuid_obj.map(lambda u: str(u).replace('-', '', 2)),
    st.sampled_from(['', 'uuid', '0' * 32, '-' * 36, '０' * 32]),
)
_y = st.one_of(st.integers(1, 9999), st.integers(1990, 2030))
_date_parts = st.tuples(_y, st.integers(0, 13), st.integers(0, 32))
_time_parts = st.tuples(st.integers(0, 24), st.integers(0, 60), st.integers(0, 61))
_tz = st.sampled_from(['Z', 'Z', '', '+0000', '+00:00', '+0100', '-05:30', '+01:00:30', '+2500', 'UTC', 'z', '+01'])
_DATE_FMTS = [None, None, '%Y%m%d', '%d/%m/%Y', '%Y-%m-%dT%H:%M:%S%z']
_DT_FMTS = [None, None, '%Y-%m-%dT%H:%M:%SZ', '%Y-%m-%d %H:%M:%S', '%Y-%m-%dT%H:%M:%S.%f', '%Y-%m-%d']


def _render_date(p, style):
    y, m, d = p
    if style == 0:
        return '%04d-%02d-%02d' % (y, m, d)
    if style == 1:
        return '%04d%02d%02d' % (y, m, d)
    if style == 2:
        return '%02d/%02d/%04d' % (d, m, y)
    return '%d-%d-%d' % (y, m, d)


def _render_dt(dp, tp, tz, style):
    date = '%04d-%02d-%02d' % dp
    time = '%02d:%02d:%02d' % tp
    if style == 0:
        return date + 'T' + time + tz
    if style == 1:
        return date + ' ' + time
    if style == 2:
        return date + 'T' + time + '.250000'
    return date + 'T' + time


_valid_date = st.dates(min_value=datetime.date(1, 1, 1)).map(lambda d: (d.year, d.month, d.day))
_valid_time = st.tuples(st.integers(0, 23), st.integers(0, 59), st.integers(0, 59))
_date_text = st.one_of(
    st.builds(_render_date, _valid_date, st.integers(0, 3)),
    st.builds(_render_date, _date_parts, st.integers(0, 3)),
    st.sampled_from(['', '2020-02-30', '2020-1-1', '2020-01-01 ', '0000-01-01', '2020-01-01T00:00:00Z']),
)
_dt_text = st.one_of(
    st.builds(_render_dt, _valid_date, _valid_time, _tz, st.integers(0, 3)),
    st.builds(_render_dt, _valid_date, _valid_time, _tz, st.just(0)),
    st.builds(_render_dt, _date_parts, _time_parts, _tz, st.integers(0, 3)),
    st.sampled_from(['', '2020-01-01', '2020-01-01T00:00:00', '2020-01-01T24:00:00Z']),
)
_json_leaf = st.one_of(st.none(), st.booleans(), st.integers(-10 ** 20, 10 ** 20), _small_int,
                       st.floats(allow_nan=True, allow_infinity=True),
                       st.text(alphabet=st.characters(blacklist_categories=('Cs',)), max_size=6),
                       st.sampled_from(['a,b', 'x&y=z', '100%', '1+1', '"', '\\']))
_json_value = st.recursive(_json_leaf, lambda ch: st.one_of(
    st.lists(ch, max_size=4), st.dictionaries(st.text(alphabet='ab,&=% é"', max_size=3), ch, max_size=4)),
    max_leaves=10)
_json_text = st.one_of(
    _json_value.map(json.dumps),
    _json_value.map(lambda v: json.dumps(v, separators=(',', ':'), ensure_ascii=False)),
    _json_value.map(lambda v: json.dumps(v)[:-1]),
    _json_value.map(lambda v: json.dumps(v) + ' x'),
    st.integers(1, 50).map(lambda n: '[' * n + ']' * n),
    st.integers(1, 50).map(lambda n: '[' * n),
    st.integers(1, 50).map(lambda n: '{"a":' * n + '1' + '}' * n),
    st.sampled_from(['', ' ', 'NaN', '-Infinity', "{'a': 1}", '01', '1.', 'nul', 'true', '"\\ud800"', '\ufeff1',
                     '[1,]', '{"a":1,"a":2}', '1' * 4400, '"a', '\x00']),
)
_free_text = st.one_of(
    st.text(alphabet=st.characters(blacklist_categories=('Cs',)), max_size=8),
    st.text(alphabet='ax1,&=+% é', max_size=8),
)
THEMES = {
    'int': _int_text, 'float': _float_text, 'bool': _bool_text, 'uuid': _uuid_text, 'date': _date_text,
    'datetime': _dt_text, 'json': _json_text, 'text': _free_text,
}
_NAMES = ['a', 'b', 'c', 'a', 'id', 'x y', 'é', 'k,', '']


_GOOD_TZ = st.sampled_from(['Z', '+0000', '+00:00', '+0100', '-05:30', '-1130'])


def _matching_date(fmt):
    if fmt == '%Y-%m-%dT%H:%M:%S%z':
        return st.builds(_render_dt, _valid_date, _valid_time, _GOOD_TZ, st.just(0))
    style = {None: 0, '%Y%m%d': 1, '%d/%m/%Y': 2}[fmt]
    return st.builds(_render_date, _valid_date, st.just(style))


def _matching_dt(fmt):
    if fmt == '%Y-%m-%d':
        return st.builds(_render_date, _valid_date, st.just(0))
    if fmt is None:
        return st.builds(_render_dt, _valid_date, _valid_time, _GOOD_TZ, st.just(0))
    style = {'%Y-%m-%dT%H:%M:%SZ': 0, '%Y-%m-%d %H:%M:%S': 1, '%Y-%m-%dT%H:%M:%S.%f': 2}[fmt]
    return st.builds(_render_dt, _valid_date, _valid_time, st.just('Z'), st.just(style))


@st.composite
def _getter_case(draw):
    theme = draw(st.sampled_from(sorted(THEMES) + ['mixed']))
    dt_fmt = draw(st.sampled_from(_DT_FMTS))
    d_fmt = draw(st.sampled_from(_DATE_FMTS))
    keys = sorted(THEMES)

    @st.composite
    def value(draw2):
        # explicit choice draws: nested one_of() would be flattened and skew towards many-branch themes
        t = theme
        if theme == 'mixed' or draw2(st.integers(0, 4)) == 0:
            t = draw2(st.sampled_from(keys))
        good = draw2(st.integers(0, 2)) > 0
        if t == 'date' and good:
            return draw2(_matching_date(d_fmt))
        if t == 'datetime' and good:
            return draw2(_matching_dt(dt_fmt))
        return draw2(THEMES[t])

    value = value()
    n = draw(st.integers(0, 5))
    fields = []
    for _ in range(n):
        name = draw(st.sampled_from(_NAMES))
        enc_name = ENCODERS[draw(st.integers(0, 3))](name)
        kind = draw(st.integers(0, 9))
        if kind == 0:
            fields.append(enc_name)  # valueless flag
        elif kind == 1:
            fields.append(enc_name + '=')
        elif kind == 2:
            items = draw(st.lists(st.one_of(value, st.just('')), min_size=2, max_size=4))
            enc = ENCODERS[draw(st.sampled_from([0, 1, 3]))]
            fields.append(enc_name + '=' + ','.join(enc(i) for i in items))  # literal commas
        elif kind == 3:
            fields.append(enc_name + '=' + draw(st.sampled_from([',', ',,', ',,,'])))
        else:
            v = draw(value)
            fields.append(enc_name + '=' + ENCODERS[draw(st.integers(0, len(ENCODERS) - 1))](v))
    opt_int = st.one_of(st.none(), _small_int)
    opt_float = st.one_of(st.none(), st.floats(-60, 60), _small_int.map(float))
    cfg = {
        'required': draw(st.booleans()),
        'store': draw(st.booleans()),
        'default': draw(st.booleans()),
        'imin': draw(opt_int), 'imax': draw(opt_int),
        'fmin': draw(opt_float), 'fmax': draw(opt_float),
        'blank_as_true': draw(st.sampled_from([None, True, False])),
        'bool_default': draw(st.booleans()),
        'transform': draw(st.sampled_from([None, None, 'int', 'float', 'upper', 'uuid', 'no_x'])),
        'dt_fmt': dt_fmt,
        'd_fmt': d_fmt,
    }
    return {
        'qs': '&'.join(fields),
        'keep': draw(st.booleans()),
        'csv': draw(st.booleans()),
        'asgi': draw(st.booleans()),
        'absent': draw(st.sampled_from(['zz', 'A', 'a ', 'ID'])),
        'cfg': cfg,
        'theme': theme,
    }


class TypedGetters(Suite):
    """Query strings whose values are renderings (valid, near-valid, differently percent-/plus-encoded, comma
    lists, repeated) of ints, floats, booleans, UUIDs, dates, datetimes and JSON documents; on a WSGI or ASGI
    request every getter (get_param, get_param_as_int/float/bool/uuid/datetime/date/json/list, has_param) is
    called for every present name, every name emptied by blank dropping and one absent name, with generated
    required / default / store / min_value / max_value / blank_as_true / format_string / transform.  Oracle:
    Python's own conversion (int, float, documented true/false sets, uuid.UUID, strptime, json.loads) of the
    LAST occurrence in the reference reading; default (by identity) or HTTPMissingParam when absent;
    HTTPInvalidParam when the conversion raises ValueError or min/max is violated; store receives exactly the
    returned object and nothing on error; no other exception may escape."""

    name = 'typed_getters'
    budget = {'quick': 10000, 'thorough': 250000}

    def strategy(self, tier):
        return _getter_case()

    def run(self, case):
        qs = case['qs']
        keep, csv = case['keep'], case['csv']
        opts = make_options(keep, csv)
        if case['asgi']:
            req, text = asgi_request(qs, opts), qs
        else:
            req, text = wsgi_request(qs, opts), tunnel(qs)
        where = '%s qs=%r keep_blank=%s csv=%s' % ('asgi' if case['asgi'] else 'wsgi', text, keep, csv)
        exp = ref.parse(text, keep, csv)
        diff = ref.compare(req.params, exp)
        if diff:
            raise Violation('params_mismatch', '%s: req.params=%r; %s' % (where, req.params, diff))
        stats = check_getters(req, exp, case['cfg'], case['absent'], where)
        # the getters only read: after any history of getter calls the mapping is still the reference reading
        diff = ref.compare(req.params, exp)
        if diff:
            raise Violation('params_changed_by_getters', '%s: after the getter calls req.params=%r; %s' % (where, req.params, diff))
        typed_ok = any(s.startswith('ok:') and s != 'ok:get_param' and s != 'ok:get_param_as_list' for s in stats)
        errors = any(s.startswith('invalid:') or s == 'absent->HTTPMissingParam' for s in stats)
        labels = sorted(stats) + ['theme:' + case['theme'], 'asgi' if case['asgi'] else 'wsgi']
        if any(len(v) > 1 for v in exp.values.values()):
            labels.append('multi_valued_name')
        if exp.vanished:
            labels.append('vanished_name')
        return Info(typed_ok and errors, labels)


# ------------------------------------------------------------------ to_query_str round trip

_SAFE_OUT = re.compile(r'^[A-Za-z0-9\-._~%&=,]*$')
_rt_text = st.one_of(
    st.text(alphabet=st.characters(blacklist_categories=('Cs',)), max_size=8),
    st.text(alphabet='ab1,&=+%;? \x00é/', max_size=8),
    st.sampled_from(['', ',', '%2C', 'a,b', '+', ' ', '%', 'true', '&', '=']),
)
_rt_key = _rt_text.filter(lambda k: k != '')
# numbers are documented as "something that can be converted into a str": their str() is what must come back
_rt_number = st.one_of(st.integers(-1000, 1000), st.sampled_from([2 ** 63, -2 ** 64, 10 ** 30]),
                       st.sampled_from([1e16, float(2 ** 63), 1.5e300, 0.1, -2.5e-07, 1e15, 123456.789, -0.0]))
_rt_value = st.one_of(_rt_text, _rt_text, _rt_number, st.lists(_rt_text, min_size=2, max_size=5))


class RoundTrip(Suite):
    """Dicts with non-empty str keys whose values are str, int or lists of >= 2 str, rendered with
    falcon.to_query_str (comma_delimited_lists on/off, prefix on/off) and parsed back with
    parse_query_string / a WSGI and an ASGI request in the matching csv mode with keep_blank=True: the result
    must be the original dict (ints as their str()); the independent reference reader must read the rendered
    string the same way; the rendered text is RFC 3986 query-safe ASCII."""

    name = 'to_query_str_roundtrip'
    budget = {'quick': 6000, 'thorough': 150000}

    def strategy(self, tier):
        return st.builds(
            lambda d, csv, prefix: {'items': [[k, v] for k, v in d.items()], 'csv': csv, 'prefix': prefix},
            st.dictionaries(_rt_key, _rt_value, max_size=6), st.booleans(), st.booleans(),
        )

    def run(self, case):
        d = {}
        for k, v in case['items']:
            d[k] = v
        csv, prefix = case['csv'], case['prefix']
        want = {k: (list(v) if isinstance(v, list) else str(v)) for k, v in d.items()}
        where = 'to_query_str(%r, comma_delimited_lists=%s, prefix=%s)' % (d, csv, prefix)
        try:
            text = falcon.to_query_str(d, comma_delimited_lists=csv, prefix=prefix)
            text2 = falcon_misc.to_query_str(dict(d), csv, prefix)
        except Exception as e:
            raise Violation('to_query_str_raised', '%s raised %s: %s' % (where, type(e).__name__, e))
        if text != text2 or type(text) is not str:
            raise Violation('to_query_str_unstable', '%s = %r, positional call gives %r' % (where, text, text2))
        if d and prefix:
            if not text.startswith('?'):
                raise Violation('prefix', '%s = %r lacks the ? prefix' % (where, text))
            qs = text[1:]
        else:
            qs = text
        if not d and text != '':
            raise Violation('empty_dict', '%s = %r, documented result is the empty string' % (where, text))
        if not _SAFE_OUT.match(qs):
            raise Violation('unsafe_output', '%s = %r contains characters that are not query-safe' % (where, text))
        back = falcon_uri.parse_query_string(qs, keep_blank=True, csv=csv)
        if back != want:
            raise Violation('roundtrip', '%s = %r parses back (keep_blank=True, csv=%s) to %r, expected %r'
                            % (where, text, csv, back, want))
        exp = ref.parse(qs, True, csv)
        diff = ref.compare(want, exp)
        if diff:
            raise Violation('rendered_string', '%s = %r: the reference reading of that string is not the dict: %s'
                            % (where, text, diff))
        opts = make_options(True, csv)
        for req in (wsgi_request(qs, opts), asgi_request(qs, opts)):
            if req.params != want:
                raise Violation('roundtrip_request', '%s = %r: %s.params = %r, expected %r'
                                % (where, text, type(req).__module__, req.params, want))
        has_list = any(isinstance(v, list) for v in d.values())
        escaped = '%' in qs
        labels = ['csv' if csv else 'repeat', 'prefix' if prefix else 'no_prefix']
        if has_list:
            labels.append('list_value')
        if escaped:
            labels.append('needs_escape')
        if any(isinstance(v, list) and '' in v for v in d.values()) or '' in d.values():
            labels.append('blank_value')
        if any(isinstance(v, int) for v in d.values()):
            labels.append('int_value')
        if any(isinstance(v, float) for v in d.values()):
            labels.append('float_value')
        if not d:
            labels.append('empty_dict')
        return Info(has_list or escaped, labels)


class FuzzQuery(Suite):
    """Coverage-guided (Atheris) search: raw bytes decoded as UTF-8 (invalid sequences -> U+FFFD) into one query string,
    judged by the same oracle as enum_short (all 4 option combinations, function + WSGI + ASGI requests); falcon's parser
    and decoder are instrumented for coverage feedback."""

    name = 'fuzz_query'
    budget = {'quick': 0, 'thorough': 0}
    fuzz_runs = {'quick': 8000, 'thorough': 600000}
    fuzz_shards = {'quick': 4, 'thorough': 12}
    fuzz_max_len = 160

    def fuzz_corpus(self):
        return [b'a=1&b=2,3&a=%C3%A9', b'a=,&b=&c', b'%61=%2C,+x&&=', b'q=' + b'%41' * 9]

    def fuzz_decode(self, data):
        return {'s': data.decode('utf-8', 'replace')}

    def run(self, case):
        s = case['s']
        extra = check_parse(s)
        return parse_info(s, sorted(extra))


class Huge(Suite):
    """Sizes and counts beyond the moderate range: one value of 64 KiB - 1 MiB (escaped multi-byte units at every alignment,
    so that a character's escapes straddle any internal block boundary), 300-20000 fields, one name repeated thousands of
    times, comma lists of thousands of items; same oracle as random_long under all 4 option combinations."""

    name = 'huge'
    exhaustive = True
    budget = {'quick': 1, 'thorough': 1}

    def cases(self, tier):
        for unit in ('%C3%A9', '%E2%82%AC', '%F0%9F%98%80', '\u00e9', 'a%2Cb,', '+%26', 'xy'):
            for pad in (0, 1, 2, 3):
                for nbytes in ((70000, 140000) if tier == 'quick' else (66000, 70000, 140000, 270000, 1100000)):
                    yield {'shape': 'value', 'pad': pad, 'unit': unit, 'nbytes': nbytes}
        for n in ((300, 1025, 5000) if tier == 'quick' else (300, 1024, 1025, 5000, 20000)):
            for shape in ('fields', 'repeat', 'csv', 'blanks'):
                yield {'shape': shape, 'n': n}

    @staticmethod
    def build(case):
        shape = case['shape']
        if shape == 'value':
            unit = case['unit']
            decoded = len(urllib.parse.unquote_to_bytes(unit))
            return 'k=' + 'x' * case['pad'] + unit * (case['nbytes'] // max(decoded, 1) + 1) + '&last=%C3%A9'
        n = case['n']
        if shape == 'fields':
            return '&'.join('k%d=v%%2C%d' % (i, i) for i in range(n))
        if shape == 'repeat':
            return '&'.join('id=%d' % ((i * 7919) % n) for i in range(n))
        if shape == 'csv':
            return 'id=' + ','.join(str((i * 7919) % n) for i in range(n)) + '&other=1,,2'
        return '&'.join(('b%d=' % i if i % 3 else 'b%d' % i) for i in range(n)) + '&z=1'

    def run(self, case):
        s = self.build(case)
        try:
            extra = check_parse(s)
        except Violation as v:
            d = v.detail
            raise Violation(v.kind, '%s ... %s\n  for the query string built from %r (%d characters)' % (d[:300], d[-400:], case, len(s)))
        return Info(True, sorted(extra) + ['shape:' + case['shape'], 'len:%s' % ('>=64K' if len(s) >= 65536 else '<64K')])



SUITES = [EnumShort(), RandomLong(), TypedGetters(), RoundTrip(), Huge(), FuzzQuery()]


def _known_f7(suite_name, case, violation):
    """F7: csv + blanks dropped, a name left with no value -> scalar getters raise IndexError."""
    return violation.kind in ('getter_raised', 'internal_error') and 'IndexError' in violation.detail


KNOWN = {'F7': _known_f7}
