"""Child process for C19 `fresh_process`: the very first requests of a PROCESS race each other.

    python -m vf.checks.c19_fresh '<json: {"plan": [[thread, n], ...], "reqs": [i, j]}>'

Module-level state that is initialised lazily on first use (tables, caches, compiled patterns) exists once per process, so
only a process that has never served a request can show a race on it.  The child imports falcon from source, builds one
WSGI app, runs two first-ever requests under the deterministic scheduler with EVERY line of every falcon module as a
possible pre-emption point, and prints one JSON line: the two results, what each request must have produced (known
statically: each responder echoes values that only depend on its own request) and the scheduler's switch log.
"""
import json
import os
import sys


def main(argv):
    spec = json.loads(argv[0])
    from vf import boot
    boot.import_falcon()
    import falcon
    from vf.drivers import wsgi as W
    from vf.sched.threads import CoopLock, Scheduler
    import threading

    class Echo(object):
        def on_get(self, req, resp, **kw):
            resp.media = {'params': {k: str(v) for k, v in sorted(kw.items())}, 'name': req.get_param('name'),
                          'tags': req.get_param_as_list('tag'), 'accepts_json': req.client_accepts_json,
                          'hdr': req.get_header('X-Token'), 'lang': req.get_param('lang', default='none')}
            resp.set_header('X-Echo', req.get_header('X-Token') or '')

    app = falcon.App()
    app.add_route('/items/{id:int}', Echo())
    app.add_route('/users/{name}/posts/{pid:int(min=1)}', Echo())
    app.add_route('/files/{p:path}', Echo())

    REQS = [
        ('/items/42', 'name=caf%c3%a9&tag=a%2Cb&tag=%f0%9f%98%80', 't0', 'application/json;q=0.9, text/*',
         {'params': {'id': '42'}, 'name': 'café', 'tags': ['a,b', '\U0001f600'], 'accepts_json': True, 'hdr': 't0', 'lang': 'none'}),
        ('/users/b%C3%B6b/posts/7', 'name=%e2%82%ac&lang=d%E9', 't1', 'text/html, application/*;q=0.1',
         {'params': {'name': 'böb', 'pid': '7'}, 'name': '€', 'tags': None, 'accepts_json': True, 'hdr': 't1', 'lang': 'd�'}),
        ('/files/a/b%20c.txt', 'name=x+y%2Bz&tag=%41', 't2', 'text/plain',
         {'params': {'p': 'a/b c.txt'}, 'name': 'x y+z', 'tags': ['A'], 'accepts_json': False, 'hdr': 't2', 'lang': 'none'}),
    ]

    def request(i):
        path, query, tok, accept, _exp = REQS[i]
        env = W.build_environ('GET', path, query=query, headers=[('X-Token', tok), ('Accept', accept)])
        r = W.call(app, env)
        if r.error is not None:
            return ['error', type(r.error).__name__, str(r.error)[:200]]
        try:
            body = json.loads(r.body)
        except ValueError:
            body = repr(r.body[:200])
        return [r.status, body, dict(r.headers).get('x-echo')]

    reqs = spec['reqs']
    fns = [lambda i=i: request(i) for i in reqs]
    sched = Scheduler(fns, spec['plan'], trace_prefixes=(os.path.join(boot.REPO, 'falcon') + os.sep,), trace_filenames=('<string>',))
    lock_types = (type(threading.Lock()), type(threading.RLock()))
    router = app._router
    names = set(getattr(router, '__dict__', {}))
    for klass in type(router).__mro__:
        names.update(getattr(klass, '__slots__', ()))
    for name in sorted(names):
        try:
            if isinstance(getattr(router, name), lock_types):
                setattr(router, name, CoopLock(sched))
        except AttributeError:
            pass
    try:
        results = sched.run(timeout=60)
    except Exception as e:  # noqa
        print(json.dumps({'harness': '%s: %s' % (type(e).__name__, e)}))
        return 0
    out = []
    for r in results:
        if r[0] == 'exc':
            out.append(['raised', repr(r[1])])
        else:
            out.append(r[1])
    print(json.dumps({'results': out, 'expected': [['200 OK', REQS[i][4], REQS[i][2]] for i in reqs],
                      'deadlock': sched.deadlock, 'points': sched.points, 'switches': [list(s) for s in sched.switch_log[:6]]}))
    return 0


if __name__ == '__main__':
    sys.exit(main(sys.argv[1:]))
