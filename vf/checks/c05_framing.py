"""C05 — Responses are protocol-valid and length-consistent on both server interfaces.

A case is a plain-data description of how a responder fills in the response (status, any subset of
text / data / media / stream, preset headers, cookies, a Response subclass) plus the points at which the
generated stream or the server's write/send raises.  The case is executed against the real falcon.App /
falcon.asgi.App through the minimal servers of vf.drivers (whose PEP 3333 / ASGI monitors are
independent of falcon), and the observed status, headers, body bytes and close() calls are compared with
`reference(case)`, which is written from the property statement and the Response docstrings only.
"""
import asyncio
import http
import itertools
import json

from hypothesis import strategies as st

import falcon
import falcon.asgi

from vf.gen import resp_history as RH
from vf.core import HarnessError, Info, Suite, Violation
from vf.drivers import asgi as A
from vf.drivers import wsgi as W

LEVEL = 'fault_enumeration'
RULE = (
    'a case = stack (WSGI, WSGI offering wsgi.file_wrapper, ASGI) x request method x status (int, status '
    'line str, http.HTTPStatus) x any subset of {text, data, media, stream} (stream kinds: list, iterator, '
    'iterator with close(), generator, file-like with/without close(); ASGI: async generator, async '
    'iterators, async file-likes, SSE emitter) x preset Content-Length / Content-Type x cookies / headers x '
    'Response subclass overriding render_body x fault points (stream raises at chunk k, server write/send '
    'raises at call k). Non-trivial: >= 2 body sources set, or a HEAD request / 100, 101, 204, 304 status '
    'with a body source set, or a fault that fires after the first stream chunk was delivered. '
    'distinct = distinct case fingerprint'
)
ASSUMPTIONS = [
    'vf.drivers.wsgi / vf.drivers.asgi behave like a conforming server (call close() on the returned '
    'iterable, offer a wsgi.file_wrapper that reads blocks and forwards close(), deliver http.disconnect '
    'only after the request events) and their monitors encode PEP 3333 / the ASGI HTTP spec',
    'the application sets documented value types only: status int 100..999, a status line "NNN reason" '
    '(ASCII reason) or an http.HTTPStatus member; text str; data bytes; media JSON-serialisable; header and '
    'cookie values printable ASCII str (extra header values also small ints, through set_header / append_header / '
    'set_headers with a dict or a list of pairs: falcon converts header values with str()); Content-Length / Content-Type only via content_length / content_type / '
    'set_header / set_stream (never append_header)',
    'an empty text / data value is generated only when no other body source is set (whether "" counts as '
    '"set" for the precedence rule is not documented)',
    'resp.sse is documented to supersede text and data; its combination with media or a render_body '
    'override is not documented: for those cases only the protocol monitors, the bodiless / Content-Type '
    'rules and close() accounting are asserted, not which body wins',
    'media with an explicit Content-Type that no configured handler supports is answered 415 (documented '
    'HTTPUnsupportedMediaType); the content of that error body is not asserted here, only its framing',
    'for a streamed body the Content-Length header is whatever the application set (not asserted)',
    'async generators have no close() method: close() accounting applies to stream objects that define '
    'close(); for sync generators "closed" means the generator was finalised (its finally block ran)',
]

BODILESS = (100, 101, 204, 304)
TYPELESS = (204, 304)
STD_REASON = {100: 'Continue', 101: 'Switching Protocols', 200: 'OK', 201: 'Created', 204: 'No Content',
              304: 'Not Modified', 404: 'Not Found', 500: 'Internal Server Error'}

WSGI_KINDS = ('list', 'iter', 'iter_close', 'gen', 'file', 'file_noclose')
ASGI_KINDS = ('agen', 'aiter', 'aiter_none_close', 'aiter_close', 'afile', 'afile_noclose', 'sse')
FILE_KINDS = ('file', 'file_noclose', 'afile', 'afile_noclose')
CAN_RAISE = tuple(k for k in WSGI_KINDS + ASGI_KINDS if k != 'list')
HAS_CLOSE = ('iter_close', 'file', 'aiter_none_close', 'aiter_close', 'afile')


class StreamError(Exception):
    """Injected: the application's stream fails while producing a chunk."""


# ----------------------------------------------------------------- generated stream objects


class Rec(object):
    """What happened to the generated stream object."""

    def __init__(self):
        self.requested = 0   # number of chunks asked for (next() / read() calls)
        self.closed = 0      # close() calls
        self.finalized = 0   # generator finally blocks run
        self.raised = False  # the injected stream failure fired
        self.after_close = 0  # chunks asked for after close()


def _step(rec, chunks, raise_at, i):
    """Chunk i or the end marker (None); raises the injected failure."""
    rec.requested += 1
    if rec.closed or rec.finalized:
        rec.after_close += 1
    if raise_at is not None and i == raise_at:
        rec.raised = True
        raise StreamError('generated stream failure at chunk %d' % i)
    if i < len(chunks):
        return chunks[i]
    return None


class SyncIter(object):
    def __init__(self, rec, chunks, raise_at):
        self.rec, self.chunks, self.raise_at, self.i = rec, chunks, raise_at, 0

    def __iter__(self):
        return self

    def __next__(self):
        c = _step(self.rec, self.chunks, self.raise_at, self.i)
        self.i += 1
        if c is None:
            raise StopIteration
        return c


class SyncIterClose(SyncIter):
    def close(self):
        self.rec.closed += 1


class SyncFileNoClose(object):
    def __init__(self, rec, chunks, raise_at):
        self.rec, self.chunks, self.raise_at, self.i = rec, chunks, raise_at, 0

    def read(self, size=-1):
        left = self.__dict__.get('_left')
        if left:
            # the rest of a generated chunk that was larger than the block the framework asked for
            self._left = left[size:] if size is not None and 0 <= size < len(left) else b''
            return left[:size] if size is not None and 0 <= size else left
        c = _step(self.rec, self.chunks, self.raise_at, self.i)
        self.i += 1
        if c is None:
            return b''
        if size is not None and 0 < size < len(c):
            self._left = c[size:]
            return c[:size]
        return c


class SyncFile(SyncFileNoClose):
    def close(self):
        self.rec.closed += 1


def sync_gen(rec, chunks, raise_at):
    try:
        i = 0
        while True:
            c = _step(rec, chunks, raise_at, i)
            i += 1
            if c is None:
                return
            yield c
    finally:
        rec.finalized += 1


class AsyncIter(object):
    """Async iterator that ends by raising StopAsyncIteration."""

    end_with_none = False

    def __init__(self, rec, chunks, raise_at):
        self.rec, self.chunks, self.raise_at, self.i = rec, chunks, raise_at, 0

    def __aiter__(self):
        return self

    async def __anext__(self):
        await asyncio.sleep(0)
        c = _step(self.rec, self.chunks, self.raise_at, self.i)
        self.i += 1
        if c is None:
            if self.end_with_none:
                return None  # documented way for plain async iterators to signal the end
            raise StopAsyncIteration
        return c


class AsyncIterClose(AsyncIter):
    async def close(self):
        self.rec.closed += 1


class AsyncIterNoneClose(AsyncIterClose):
    end_with_none = True


class AsyncFileNoClose(object):
    def __init__(self, rec, chunks, raise_at):
        self.rec, self.chunks, self.raise_at, self.i = rec, chunks, raise_at, 0

    async def read(self, size=-1):
        await asyncio.sleep(0)
        left = self.__dict__.get('_left')
        if left:
            self._left = left[size:] if size is not None and 0 <= size < len(left) else b''
            return left[:size] if size is not None and 0 <= size else left
        c = _step(self.rec, self.chunks, self.raise_at, self.i)
        self.i += 1
        if c is None:
            return b''
        if size is not None and 0 < size < len(c):
            self._left = c[size:]
            return c[:size]
        return c


class AsyncFile(AsyncFileNoClose):
    async def close(self):
        self.rec.closed += 1


async def async_gen(rec, chunks, raise_at):
    try:
        i = 0
        while True:
            await asyncio.sleep(0)
            c = _step(rec, chunks, raise_at, i)
            i += 1
            if c is None:
                return
            yield c
    finally:
        rec.finalized += 1


def make_event(d):
    if d is None:
        return None
    return falcon.asgi.SSEvent(
        data=d.get('data'), text=d.get('text'), json=(d['json']['v'] if d.get('json') else None),
        event=d.get('event'), event_id=d.get('event_id'), retry=d.get('retry'), comment=d.get('comment'))


async def sse_gen(rec, events, raise_at):
    i = 0
    while True:
        await asyncio.sleep(0)
        rec.requested += 1
        if raise_at is not None and i == raise_at:
            rec.raised = True
            raise StreamError('generated SSE emitter failure at event %d' % i)
        if i >= len(events):
            return
        yield make_event(events[i])
        i += 1


class StreamProxy(object):
    """ONE wrapper class around every kind of stream object (a metering / logging wrapper): what an instance offers -
    read(), close(), sync or async iteration - is what the wrapped object offers, so two instances of this class differ."""

    def __init__(self, inner):
        self._inner = inner

    def __getattr__(self, name):
        return getattr(self._inner, name)

    def __iter__(self):
        return iter(self._inner)

    def __aiter__(self):
        return self._inner.__aiter__()


PROXYABLE = ('iter', 'iter_close', 'gen', 'file', 'file_noclose', 'agen', 'aiter', 'aiter_close', 'aiter_none_close', 'afile',
             'afile_noclose')


def _prelude_kind(kind):
    """A stream kind whose traits (read / close) are the opposite of `kind`'s, on the same stack."""
    if kind in ASGI_KINDS:
        return 'aiter' if kind in ('afile', 'afile_noclose', 'aiter_close', 'aiter_none_close') else 'afile'
    return 'iter' if kind in ('file', 'file_noclose', 'iter_close') else 'file'


BUILDERS = {
    'list': lambda rec, chunks, raise_at: list(chunks),
    'iter': SyncIter, 'iter_close': SyncIterClose, 'gen': sync_gen, 'file': SyncFile,
    'file_noclose': SyncFileNoClose,
    'agen': async_gen, 'aiter': AsyncIter, 'aiter_close': AsyncIterClose,
    'aiter_none_close': AsyncIterNoneClose, 'afile': AsyncFile, 'afile_noclose': AsyncFileNoClose,
    'sse': sse_gen,
}


def stream_chunks(spec):
    """The chunks the generated object delivers (file-likes cannot deliver b'': it means end of file)."""
    if spec['kind'] in FILE_KINDS:
        return [c for c in spec['chunks'] if c]
    return list(spec['chunks'])


def stream_raise_at(spec):
    if spec.get('raise_at') is None or spec['kind'] not in CAN_RAISE:
        return None
    return min(spec['raise_at'], len(stream_chunks(spec)))


# ----------------------------------------------------------------- reference (from the statement + docs)


def status_code_of(spec):
    kind, v = spec
    if kind == 'str':
        return int(v[:3])
    return int(v)


def make_status(spec):
    kind, v = spec
    if kind == 'int':
        return int(v)
    if kind == 'str':
        return v
    if kind == 'enum':
        return http.HTTPStatus(v)
    raise HarnessError('bad status spec %r' % (spec,))


def supported_for_media(ctype):
    return ctype is None or ctype.lower().startswith('application/json')


def media_rendered(case):
    """True when the framework has to serialise resp.media (nothing of higher precedence is set)."""
    custom = case.get('custom')
    return (case.get('media') is not None and case.get('text') is None and case.get('data') is None
            and (custom is None or custom[0] == 'super'))


def reference(case):
    """-> dict(code, mode, body).  mode: fixed / media / error415 / stream / sse / unspecified.

    body: expected bytes for fixed; list of chunks for stream; event list for sse; else None.
    """
    code = status_code_of(case['status'])
    custom = case.get('custom')
    stream = case.get('stream')
    is_sse = stream is not None and stream['kind'] == 'sse'
    if is_sse and (case.get('media') is not None or (custom is not None and custom[0] != 'super')):
        return {'code': None, 'mode': 'unspecified', 'body': None}
    if media_rendered(case) and not supported_for_media(case.get('ctype')):
        return {'code': 415, 'mode': 'error415', 'body': None}
    # documented: text, else data, else media (render_body); an override of render_body decides itself
    if custom is not None and custom[0] == 'bytes':
        fixed = custom[1]
    elif custom is not None and custom[0] == 'none':
        fixed = None
    elif case.get('text') is not None:
        fixed = case['text'].encode('utf-8')
    elif case.get('data') is not None:
        fixed = case['data']
    else:
        fixed = None
    if is_sse:
        # "When the sse property is set, it supersedes both the text and data properties"
        return {'code': code, 'mode': 'sse', 'body': list(stream['chunks'])}
    if fixed is not None:
        return {'code': code, 'mode': 'fixed', 'body': fixed}
    if media_rendered(case):
        return {'code': code, 'mode': 'media', 'body': None}
    if stream is not None:
        return {'code': code, 'mode': 'stream', 'body': stream_chunks(stream)}
    return {'code': code, 'mode': 'fixed', 'body': b''}


def parse_sse(body):
    """HTML5 event-stream parser (enough of it): -> list of {comment, event, id, retry, data}."""
    text = body.decode('utf-8')
    if text and not text.endswith('\n\n'):
        raise ValueError('event stream does not end with a blank line: %r' % (body[-40:],))
    out = []
    for block in text.split('\n\n')[:-1]:
        ev = {'comment': [], 'event': None, 'id': None, 'retry': None, 'data': []}
        for line in block.split('\n'):
            if line.startswith(':'):
                ev['comment'].append(line[1:][1:] if line[1:2] == ' ' else line[1:])
                continue
            name, sep, value = line.partition(':')
            if value.startswith(' '):
                value = value[1:]
            if name == 'data':
                ev['data'].append(value)
            elif name in ('event', 'id', 'retry'):
                ev[name] = value
            else:
                raise ValueError('unknown field %r' % (line,))
        out.append(ev)
    return out


def sse_matches(parsed, spec):
    """Does one parsed block carry what the generated SSEvent description says?"""
    if spec is None:
        spec = {}
    if parsed['event'] != spec.get('event') or parsed['id'] != spec.get('event_id'):
        return False
    if parsed['retry'] != (None if spec.get('retry') is None else str(spec['retry'])):
        return False
    if spec.get('comment') is not None and parsed['comment'] != [spec['comment']]:
        return False
    data = '\n'.join(parsed['data']) if parsed['data'] else None
    if spec.get('data') is not None:       # data > text > json
        return data == spec['data'].decode('utf-8')
    if spec.get('text') is not None:
        return data == spec['text']
    if spec.get('json') is not None:
        try:
            return data is not None and json.loads(data) == spec['json']['v']
        except ValueError:
            return False
    if data is not None:
        return False
    blank = all(spec.get(k) is None for k in ('event', 'event_id', 'retry', 'comment'))
    # "a default ping comment will be included in any event that would otherwise be blank"
    return bool(parsed['comment']) if blank else True


# ----------------------------------------------------------------- system under test


def build_response_type(case, asyn):
    custom = case.get('custom')
    if custom is None:
        return None
    base = falcon.asgi.Response if asyn else falcon.Response
    mode = custom[0]
    value = custom[1] if len(custom) > 1 else None
    if asyn:
        async def render_body(self):
            if mode == 'bytes':
                return value
            if mode == 'none':
                return None
            return await base.render_body(self)
    else:
        def render_body(self):
            if mode == 'bytes':
                return value
            if mode == 'none':
                return None
            return base.render_body(self)
    return type('GeneratedResponse', (base,), {'render_body': render_body})


class _StrSub(str):
    """A str subclass, as applications pass them around (StrEnum members, lazily translated or 'safe' strings)."""

    def __str__(self):
        return str.__str__(self)


def fill_response(case, resp, rec):
    """What the generated responder does (same for both stacks)."""
    resp.status = make_status(case['status'])
    if case.get('ctype') is not None:
        if case.get('ctype_how') == 'header':
            resp.set_header('Content-Type', case['ctype'])
        else:
            resp.content_type = case['ctype']
    if case.get('clen') is not None:
        if case.get('clen_how') == 'header':
            resp.set_header('Content-Length', str(case['clen']))
        else:
            resp.content_length = case['clen']
    for how, name, value in case.get('headers') or ():
        if isinstance(value, list) and value[:1] == ['strsub']:
            value = _StrSub(value[1])  # e.g. an enum.StrEnum member, a markupsafe / i18n string class
        if how == 'append':
            resp.append_header(name, value)
        elif how == 'set_headers_dict':
            resp.set_headers({name: value})
        elif how == 'set_headers_list':
            resp.set_headers([(name, value)])
        else:
            resp.set_header(name, value)
    for name, value in case.get('cookies') or ():
        resp.set_cookie(name, value)
    if case.get('download'):
        # any str is a documented value: the header must still reach the server as a valid (Latin-1) native string
        setattr(resp, case['download'][0], case['download'][1])
    if case.get('text') is not None:
        resp.text = case['text']
    if case.get('data') is not None:
        resp.data = case['data']
    if case.get('media') is not None:
        resp.media = case['media']['v'] if not case.get('body_ops') else __import__('copy').deepcopy(case['media0'])
    spec = case.get('stream')
    if spec is not None:
        kind = spec['kind']
        if kind == 'sse':
            resp.sse = sse_gen(rec, spec['chunks'], stream_raise_at(spec))
        else:
            obj = BUILDERS[kind](rec, stream_chunks(spec), stream_raise_at(spec))
            if case.get('proxy') and kind in PROXYABLE:
                obj = StreamProxy(obj)
            if spec.get('length') is not None:
                resp.set_stream(obj, spec['length'])
            else:
                resp.stream = obj


def _mutate_doc(doc, i):
    if isinstance(doc, dict):
        doc['zz%d' % i] = i
    elif isinstance(doc, list):
        doc.append(i)
    return doc


def body_ops_final(case):
    """Reference for a history of assignments: the LAST value assigned to each of text / data / media counts."""
    import copy
    state = {'text': case.get('text'), 'data': case.get('data'),
             'media': copy.deepcopy(case['media']['v']) if case.get('media') is not None else None}
    for i, op in enumerate(case.get('body_ops') or ()):
        if op[0] in ('text', 'data'):
            state[op[0]] = op[1]
        elif op[0] == 'media':
            state['media'] = copy.deepcopy(op[1])
        elif op[0] == 'mutate_reassign' and state['media'] is not None:
            _mutate_doc(state['media'], i)
    return dict(case, text=state['text'], data=state['data'],
                media=({'v': state['media']} if state['media'] is not None else None))


def body_ops_steps(case, resp):
    """Apply the history to the real response; yields what render_body() returned (a coroutine on ASGI)."""
    import copy
    doc = resp.media
    for i, op in enumerate(case.get('body_ops') or ()):
        if op[0] == 'text':
            resp.text = op[1]
        elif op[0] == 'data':
            resp.data = op[1]
        elif op[0] == 'media':
            doc = copy.deepcopy(op[1])
            resp.media = doc
        elif op[0] == 'mutate_reassign':
            if doc is not None:
                resp.media = _mutate_doc(doc, i)
        elif op[0] == 'render':
            yield resp.render_body()
        elif op[0] == 'read':
            getattr(resp, op[1])


def _settle_loop():
    """Cancel tasks a failed response left behind (the SSE disconnect watcher) so cases stay independent."""
    lp = A.loop()
    pending = [t for t in asyncio.all_tasks(lp) if not t.done()]
    for t in pending:
        t.cancel()
    if pending:
        lp.run_until_complete(asyncio.gather(*pending, return_exceptions=True))


def execute(case):
    rec = Rec()
    stack = case['stack']
    asyn = stack == 'asgi'
    rtype = build_response_type(case, asyn)
    if asyn:
        class Resource(object):
            async def on_get(self, req, resp):
                fill_response(case, resp, rec)
                for rendered in body_ops_steps(case, resp):
                    await rendered
            on_head = on_post = on_get
        app = falcon.asgi.App(response_type=rtype) if rtype else falcon.asgi.App()
    else:
        class Resource(object):
            def on_get(self, req, resp):
                fill_response(case, resp, rec)
                for _rendered in body_ops_steps(case, resp):
                    pass
            on_head = on_post = on_get
        app = falcon.App(response_type=rtype) if rtype else falcon.App()
    app.add_route('/r', Resource())
    fail_at = case.get('fail_at')
    if case.get('proxy') and case.get('stream') and case['stream']['kind'] in PROXYABLE:
        # history: the process has already served a response whose stream was another instance of the same wrapper
        # class with the opposite traits
        pk = _prelude_kind(case['stream']['kind'])
        prec = Rec()
        pcase = {'status': ['int', 200], 'stream': {'kind': pk, 'chunks': [b'p', b'q'], 'raise_at': None, 'length': None}, 'proxy': True}
        if asyn:
            class Prelude(object):
                async def on_get(self, req, resp):
                    fill_response(pcase, resp, prec)
            papp = falcon.asgi.App()
            papp.add_route('/p', Prelude())
            try:
                pres = A.call(papp, A.build_scope(method='GET', raw_path='/p'))
            finally:
                _settle_loop()
        else:
            class Prelude(object):
                def on_get(self, req, resp):
                    fill_response(pcase, resp, prec)
            papp = falcon.App()
            papp.add_route('/p', Prelude())
            pres = W.call(papp, W.build_environ(method='GET', raw_path='/p',
                                                file_wrapper=W.FileWrapper if stack == 'wsgi_fw' else None))
        if pres.error is not None or pres.body != b'pq':
            _fail('prelude_response', case, 'the earlier response (wrapped %s stream) came out as error=%r body=%r' % (pk, pres.error, pres.body))
    if asyn:
        spec = case.get('stream')
        is_sse = spec is not None and spec['kind'] == 'sse'
        try:
            res = A.call(app, A.build_scope(method=case['method'], raw_path='/r'), fail_send_at=fail_at,
                         disconnect_when_drained=(not is_sse) or bool(case.get('disconnect')), fail_kind=case.get('fail_kind'))
        finally:
            _settle_loop()
    else:
        fw = W.FileWrapper if stack == 'wsgi_fw' else None
        res = W.call(app, W.build_environ(method=case['method'], raw_path='/r', file_wrapper=fw),
                     fail_write_at=fail_at)
    return res, rec


# ----------------------------------------------------------------- oracle


def _fail(kind, case, msg):
    raise Violation(kind, '%s\n  case=%r' % (msg, case))


def check_case(case):
    res, rec = execute(case)
    ref = reference(case)
    stack = case['stack']
    asyn = stack == 'asgi'
    spec = case.get('stream')
    fail_at = case.get('fail_at')
    raise_at = stream_raise_at(spec) if spec is not None else None
    labels = [stack, 'status:' + case['status'][0], 'mode:' + ref['mode']]
    if case['method'] == 'HEAD':
        labels.append('HEAD')

    # -- escaped exceptions: only the injected ones may come out of the app callable / the body iterable
    err = res.error
    if err is not None:
        allowed = ()
        if raise_at is not None:
            allowed += (StreamError,)
        if fail_at is not None and asyn:
            allowed += (A.SendError,) if case.get('fail_kind') != 'cancel' else (asyncio.CancelledError,)
        if not isinstance(err, allowed):
            _fail('unexpected_exception', case, '%s: %s escaped from the app (not an injected fault)'
                  % (type(err).__name__, err))

    if asyn:
        start = res.start
        if start is None:
            if fail_at == 0:
                if res.events:
                    _fail('asgi_events_after_failed_start', case, 'events=%r' % (res.events,))
                _check_close(case, rec, labels)
                return Info(False, labels + ['fault:send@start'])
            _fail('no_response_start', case, 'no http.response.start; events=%r error=%r' % (res.events, err))
        code = start['status']
    else:
        if res.status is None or res.start_calls != 1:
            _fail('no_start_response', case, 'start_response calls: %d, error=%r' % (res.start_calls, err))
        code = res.code
    body = res.body
    if code in BODILESS:
        labels.append('code:%d' % code)

    if ref['code'] is not None and code != ref['code']:
        _fail('status_code', case, 'status sent %r, expected code %d'
              % (res.start['status'] if asyn else res.status, ref['code']))

    bodiless = case['method'] == 'HEAD' or code in BODILESS
    mode = ref['mode']
    streamed = mode in ('stream', 'sse') and not bodiless
    write_fired = (res.send_failed_at if asyn else res.write_failed_at) is not None
    complete = True       # was a non-streamed body delivered?
    n_ok = 0              # stream items that reach the server before a fault fires

    # -- body bytes
    if bodiless:
        labels.append('bodiless')
        if body != b'':
            _fail('bodiless_body', case, '%s response to %s carries %d body bytes: %r'
                  % (code, case['method'], len(body), body[:60]))
    elif mode == 'unspecified':
        pass
    elif streamed:
        items = ref['body']
        n_ok = len(items)
        if raise_at is not None:
            n_ok = min(n_ok, raise_at)
        if fail_at is not None:
            # WSGI: write k carries item k; ASGI: send 0 is the start event, send k carries item k-1
            n_ok = min(n_ok, (fail_at - 1) if asyn else fail_at)
        if mode == 'stream':
            expected = b''.join(items[:n_ok])
            if body != expected:
                _fail('stream_body', case, 'streamed body %r, expected %r (%d of %d chunks precede the fault)'
                      % (body, expected, n_ok, len(items)))
        else:
            try:
                parsed = parse_sse(body)
            except ValueError as e:
                _fail('sse_format', case, 'body %r is not an event stream: %s' % (body, e))
            if case.get('disconnect'):
                # the client went away: the emitter may be abandoned after any event
                if len(parsed) > n_ok:
                    _fail('sse_body', case, '%d events sent, only %d generated' % (len(parsed), n_ok))
            elif len(parsed) != n_ok:
                _fail('sse_body', case, '%d events sent, expected %d; body=%r' % (len(parsed), n_ok, body))
            for got, want in zip(parsed, items):
                if not sse_matches(got, want):
                    _fail('sse_body', case, 'event %r does not carry %r; body=%r' % (got, want, body))
            n_ok = len(parsed)
        labels.append('streamed')
    else:
        # a non-streamed body is one write: it arrives completely or (injected failure) not at all
        if fail_at is not None and fail_at <= (1 if asyn else 0):
            complete = False
            if body != b'':
                _fail('body_after_failed_write', case, 'body %r although the first body write failed' % (body,))
        elif mode == 'fixed':
            if body != ref['body']:
                _fail('body_precedence', case, 'body sent %r, expected %r (text > data > media > stream)'
                      % (body, ref['body']))
        elif mode == 'media':
            try:
                ok = json.loads(body.decode('utf-8')) == case['media']['v']
            except ValueError:
                ok = False
            if not ok:
                _fail('body_precedence', case, 'body sent %r is not the JSON rendering of media %r'
                      % (body, case['media']['v']))
        elif mode == 'error415':
            labels.append('415')

    # -- Content-Length
    clens = res.header_list('content-length')
    # (a 415 for unserialisable media is framed like any non-streamed response unless the application also
    # set a stream: what the framework does with that stream under the error status is not specified here)
    if not bodiless and mode in ('fixed', 'media', 'error415') and not (mode == 'error415' and spec is not None):
        if mode == 'fixed':
            want = len(ref['body'])
        elif complete:
            want = len(body)
        else:
            want = None
        if len(clens) != 1 or (want is not None and clens[0] != str(want)):
            _fail('content_length', case, 'Content-Length headers %r, body bytes %s'
                  % (clens, '?' if want is None else want))
    for v in clens:
        if not (v.isascii() and v.isdigit()):
            _fail('content_length', case, 'Content-Length %r is not a decimal number' % (v,))

    # -- Content-Type
    ctypes = res.header_list('content-type')
    app_ctype = case.get('ctype')
    if code in TYPELESS:
        want = [] if app_ctype is None else [app_ctype]
        if ctypes != want:
            _fail('typeless_content_type', case, '%d response has Content-Type %r; the application set %r'
                  % (code, ctypes, app_ctype))
    else:
        if len(ctypes) != 1:
            _fail('content_type_missing', case, '%d response has Content-Type headers %r' % (code, ctypes))
        if app_ctype is not None and mode not in ('error415', 'unspecified') and ctypes != [app_ctype]:
            _fail('content_type_replaced', case, 'Content-Type %r, the application set %r' % (ctypes, app_ctype))

    # -- protocol completion
    if asyn:
        finished = any(e['type'] == 'http.response.body' and not e.get('more_body', False) for e in res.events)
        if err is None and fail_at is None and not finished:
            _fail('asgi_no_final_body', case, 'events=%r' % (res.events,))
        if fail_at is not None and len(res.events) > fail_at:
            raise HarnessError('driver recorded events past the failing send')
    _check_close(case, rec, labels)

    # -- classification
    nsrc = sum(1 for k in ('text', 'data', 'media', 'stream') if case.get(k) is not None)
    labels.append('sources:%d' % nsrc)
    if spec is not None:
        labels.append('kind:' + spec['kind'])
    late_fault = False
    if streamed and (write_fired or rec.raised):
        late_fault = n_ok >= 1
        labels.append('fault_after_first_chunk' if late_fault else 'fault_before_first_chunk')
        labels.append('fault:stream_raises' if rec.raised else 'fault:write_fails')
    elif write_fired:
        labels.append('fault:write_fails(non-streamed)')
    if case.get('custom') is not None:
        labels.append('custom_response:' + case['custom'][0])
    if case.get('clen') is not None:
        labels.append('preset_content_length')
    if app_ctype is not None:
        labels.append('preset_content_type')
    if case.get('cookies') or case.get('headers'):
        labels.append('cookies/extra_headers')
    if any(not isinstance(h[2], str) for h in case.get('headers') or ()):
        labels.append('non_str_header_value')
    if any(h[0].startswith('set_headers') for h in case.get('headers') or ()):
        labels.append('set_headers()')
    if case.get('proxy') and case.get('stream') and case['stream']['kind'] in PROXYABLE:
        labels.append('stream_wrapper_after_opposite_wrapper')
    if case.get('download'):
        labels.append('content_disposition:' + ('ascii_name' if case['download'][1].isascii() else 'non_ascii_name'))
    nontrivial = nsrc >= 2 or (bodiless and nsrc >= 1) or late_fault
    return Info(nontrivial, labels)


def _check_close(case, rec, labels):
    spec = case.get('stream')
    if spec is None:
        return
    kind = spec['kind']
    if rec.closed > 1:
        _fail('close_twice', case, 'close() called %d times on the %s stream' % (rec.closed, kind))
    if rec.after_close:
        _fail('read_after_close', case, '%d chunks requested from the %s stream after close()'
              % (rec.after_close, kind))
    if kind in HAS_CLOSE:
        if rec.requested >= 1 and rec.closed != 1:
            _fail('close_count', case, 'close() called %d times on the %s stream after %d chunk requests'
                  % (rec.closed, kind, rec.requested))
        if rec.closed:
            labels.append('closed_once')
    elif kind == 'gen':
        if rec.finalized > 1 or (rec.requested >= 1 and rec.finalized != 1):
            _fail('close_count', case, 'generator finalised %d times after %d chunk requests'
                  % (rec.finalized, rec.requested))
        if rec.finalized:
            labels.append('closed_once')


# ----------------------------------------------------------------- suite 1: exhaustive matrix

TEXT = 'héllo ☃'
DATA = b'\x00\xffraw-data-bytes'
MEDIA = {'k': ['v', 1, None, True], 'u': '☃'}
CHUNKS = [b'chunk-one;', b'', b'3']
EVENTS = [{'text': 'first', 'event': 'tick'}, None, {'json': {'v': {'n': [1, 2]}}, 'event_id': '7', 'retry': 50}]

MATRIX_STATUSES = [
    ['int', 200], ['int', 204], ['int', 304], ['int', 100], ['int', 101], ['int', 299], ['int', 799],
    ['int', 404],
    ['str', '200 OK'], ['str', '204 No Content'], ['str', '304 Not Modified'], ['str', '100 Continue'],
    ['str', '101 Switching Protocols'], ['str', '299 Custom Reason'], ['str', '204 Nothing To See'],
    ['str', '304 Unchanged'], ['str', '101 Upgrading'],
    ['enum', 200], ['enum', 204], ['enum', 304], ['enum', 100], ['enum', 101], ['enum', 418],
]
MATRIX_CTYPES = [None, 'application/json', 'text/x-generated; charset=utf-8']


def _ref_len(case):
    ref = reference(case)
    if ref['mode'] == 'fixed':
        return len(ref['body'])
    if ref['mode'] == 'stream':
        return sum(len(c) for c in ref['body'])
    if ref['mode'] == 'media':
        return len(json.dumps(case['media']['v'], ensure_ascii=False).encode('utf-8'))
    return 11


def matrix_cases():
    subsets = list(itertools.product((False, True), repeat=4))
    for stack in ('wsgi', 'wsgi_fw', 'asgi'):
        kinds = ASGI_KINDS if stack == 'asgi' else WSGI_KINDS
        if stack == 'wsgi_fw':
            kinds = ('file', 'file_noclose', 'gen')   # the wrapper is only offered file-like objects
        for status in MATRIX_STATUSES:
            for method in ('GET', 'HEAD', 'POST'):
                for has_text, has_data, has_media, has_stream in subsets:
                    if stack == 'wsgi_fw' and not has_stream:
                        continue
                    for kind in (kinds if has_stream else (None,)):
                        for ctype in MATRIX_CTYPES:
                            if ctype == MATRIX_CTYPES[2] and not (has_media and not has_text and not has_data):
                                continue  # an unsupported type only matters when media gets rendered
                            base = {
                                'stack': stack, 'method': method, 'status': status,
                                'text': TEXT if has_text else None,
                                'data': DATA if has_data else None,
                                'media': {'v': MEDIA} if has_media else None,
                                'stream': ({'kind': kind, 'chunks': EVENTS if kind == 'sse' else CHUNKS,
                                            'raise_at': None, 'length': None} if has_stream else None),
                                'ctype': ctype, 'clen': None,
                            }
                            n = _ref_len(base)
                            for clen in (None, n, n + 3):
                                yield dict(base, clen=clen)
    # Response subclasses overriding render_body (fixed bytes / None / delegating to the inherited method)
    for stack in ('wsgi', 'wsgi_fw', 'asgi'):
        kinds = {'wsgi': ('iter_close', 'file'), 'wsgi_fw': ('file',), 'asgi': ('aiter_close', 'afile', 'sse')}[stack]
        for status in (['int', 200], ['int', 204], ['str', '304 Not Modified'], ['enum', 201]):
            for method in ('GET', 'HEAD'):
                for has_text, has_data, has_media, has_stream in subsets:
                    for kind in (kinds if has_stream else (None,)):
                        for custom in (['bytes', b'from-override'], ['bytes', b''], ['none'], ['super']):
                            for ctype in (None, MATRIX_CTYPES[2]):
                                yield {
                                    'stack': stack, 'method': method, 'status': status,
                                    'text': TEXT if has_text else None,
                                    'data': DATA if has_data else None,
                                    'media': {'v': MEDIA} if has_media else None,
                                    'stream': ({'kind': kind, 'chunks': EVENTS if kind == 'sse' else CHUNKS,
                                                'raise_at': None, 'length': None} if has_stream else None),
                                    'ctype': ctype, 'clen': None, 'custom': custom,
                                }


class Matrix(Suite):
    """Exhaustive: 23 statuses (int / status line with standard and with custom reason phrase /
    http.HTTPStatus; 100, 101, 204, 304, unknown 299 and 799) x {GET, HEAD, POST} x all 16 subsets of
    {text, data, media, stream} x every stream kind (WSGI: list, iterator, iterator with close(), generator,
    file-like with and without close(); WSGI with wsgi.file_wrapper: the file-likes and a generator; ASGI:
    async generator, async iterators ending by StopAsyncIteration or None with and without close(), async
    file-likes, SSE emitter) x preset Content-Length {absent, right, wrong} x preset Content-Type {absent,
    application/json; where media is what gets rendered also a type no media handler supports}; plus
    a sub-matrix with a Response subclass overriding render_body (fixed bytes / empty bytes / None /
    delegating to super) x 4 statuses x {GET, HEAD} x all 16 subsets.  No faults."""

    name = 'matrix'
    exhaustive = True
    budget = {'quick': 1, 'thorough': 1}

    def cases(self, tier):
        return matrix_cases()

    def run(self, case):
        return check_case(case)


class StatusCodes(Suite):
    """Every integer status 100..999 (the documented range, both ends included) on WSGI and ASGI, with a text body on
    GET and on HEAD: same oracle as the matrix (status line / code delivered, bodiless statuses, Content-Length,
    Content-Type rules)."""

    name = 'status_codes'
    exhaustive = True
    budget = {'quick': 1, 'thorough': 1}

    def cases(self, tier):
        for stack in ('wsgi', 'asgi'):
            for code in range(100, 1000):
                for method in (('GET',) if 103 < code < 997 and code not in (204, 304) else ('GET', 'HEAD')):
                    yield {'stack': stack, 'method': method, 'status': ['int', code], 'text': TEXT, 'data': None, 'media': None,
                           'stream': None, 'ctype': None, 'clen': None}

    def run(self, case):
        info = check_case(case)
        code = case['status'][1]
        return Info(code in (100, 101, 102, 199, 200, 204, 304, 998, 999), info.labels)


# ----------------------------------------------------------------- suite 2: exhaustive fault placement


def fault_cases(tier):
    max_chunks = 3 if tier == 'quick' else 4
    for stack in ('wsgi', 'wsgi_fw', 'asgi'):
        kinds = ASGI_KINDS if stack == 'asgi' else WSGI_KINDS
        for kind in kinds:
            for n in range(max_chunks + 1):
                if kind == 'sse':
                    chunks = (EVENTS * 2)[:n]
                else:
                    chunks = [b'c%d;' % i for i in range(n)]
                for method, status, text in (('GET', ['int', 200], None), ('POST', ['str', '201 Created'], None),
                                             ('HEAD', ['int', 200], None), ('GET', ['int', 204], None),
                                             ('GET', ['int', 200], 'text wins')):
                    base = {'stack': stack, 'method': method, 'status': status, 'text': text, 'data': None,
                            'media': None, 'ctype': None, 'clen': None,
                            'stream': {'kind': kind, 'chunks': chunks, 'raise_at': None, 'length': None}}
                    yield base
                    if kind in PROXYABLE:
                        yield dict(base, proxy=True)
                        if n:
                            yield dict(base, proxy=True, fail_at=1)
                    for k in range(n + 3):
                        yield dict(base, fail_at=k)
                        if stack == 'asgi' and kind != 'sse':
                            # the server cancels the app's task while it awaits send() (client went away)
                            yield dict(base, fail_at=k, fail_kind='cancel')
                        if kind == 'sse':
                            yield dict(base, fail_at=k, disconnect=True)
                    if kind == 'sse':
                        yield dict(base, disconnect=True)
                    if kind in CAN_RAISE:
                        for k in range(n + 1):
                            yield dict(base, stream=dict(base['stream'], raise_at=k))
                            for j in range(n + 3):
                                yield dict(base, stream=dict(base['stream'], raise_at=k), fail_at=j)


class FaultEnum(Suite):
    """Exhaustive fault placement: every stack x every stream kind x 0..3 chunks (0..4 thorough) x
    {GET 200, POST '201 Created', HEAD 200, GET 204, GET 200 with text also set} x {no fault, the stream
    raises at chunk k for every k (including at the end-of-stream probe), the server's write / send raises
    at call k for every k (including the response start and the final event), and every pair of both}.
    close() accounting, legal event prefix and the delivered byte prefix are checked for each."""

    name = 'fault_enum'
    exhaustive = True
    budget = {'quick': 1, 'thorough': 1}

    def cases(self, tier):
        return fault_cases(tier)

    def run(self, case):
        return check_case(case)


# ----------------------------------------------------------------- suite 3: generated responses

_TOKEN_CHARS = 'abcdefghijklmnopqrstuvwxyzABCDEFGHIJKLMNOPQRSTUVWXYZ0123456789-_'
_VALUE_CHARS = ''.join(chr(c) for c in range(0x21, 0x7f))
_HEADER_NAMES = ['X-Generated', 'x-trace-id', 'Cache-Control', 'Vary', 'ETag', 'Link', 'X-UPPER', 'Retry-After',
                 'Location', 'Accept-Ranges']

_json_leaf = st.one_of(st.none(), st.booleans(), st.integers(-2 ** 40, 2 ** 40),
                       st.floats(allow_nan=False, allow_infinity=False, width=32), st.text(max_size=6))
# '$' is kept out of keys: vf.core's JSON encoding of cases reserves one-key dicts {'$b': ...}
_json_key = st.text(alphabet=st.characters(blacklist_characters='$', blacklist_categories=('Cs',)), max_size=4)
_json = st.recursive(_json_leaf, lambda ch: st.one_of(st.lists(ch, max_size=3),
                                                      st.dictionaries(_json_key, ch, max_size=3)),
                     max_leaves=6)
_header_value = st.text(alphabet=_VALUE_CHARS + ' ', min_size=0, max_size=12).map(lambda s: s.strip() or 'v')


@st.composite
def _status(draw):
    code = draw(st.one_of(
        st.sampled_from([200, 200, 200, 201, 299, 404, 500, 799]),
        st.sampled_from([200, 201, 404, 100, 101, 204, 204, 304]),
        st.integers(100, 999)))
    kind = draw(st.sampled_from(['int', 'str', 'str', 'enum']))
    if kind == 'enum':
        members = [s.value for s in http.HTTPStatus]
        if code not in members:
            code = draw(st.sampled_from(members))
        return ['enum', code]
    if kind == 'str':
        if code in STD_REASON and draw(st.booleans()):
            return ['str', '%d %s' % (code, STD_REASON[code])]
        reason = draw(st.text(alphabet='abcdefghijklmnopqrstuvwxyzABCDEFGHIJKLMNOPQRSTUVWXYZ \'-', max_size=14))
        return ['str', '%d %s' % (code, reason)]
    return ['int', code]


@st.composite
def _sse_event(draw):
    if draw(st.integers(0, 5)) == 0:
        return None
    line = st.text(alphabet=st.characters(blacklist_categories=('Cs', 'Cc')), max_size=8)
    ev = {}
    payload = draw(st.sampled_from(['data', 'text', 'json', 'none']))
    if payload == 'data':
        ev['data'] = draw(line).encode('utf-8')
    elif payload == 'text':
        ev['text'] = draw(line)
    elif payload == 'json':
        ev['json'] = {'v': draw(_json.filter(lambda v: v is not None))}  # json=None means not set
    token = st.text(alphabet=_TOKEN_CHARS, min_size=1, max_size=6)
    if draw(st.booleans()):
        ev['event'] = draw(token)
    if draw(st.booleans()):
        ev['event_id'] = draw(token)
    if draw(st.integers(0, 3)) == 0:
        ev['retry'] = draw(st.integers(0, 100000))
    if draw(st.integers(0, 3)) == 0:
        ev['comment'] = draw(token)
    return ev


@st.composite
def _response_case(draw):
    stack = draw(st.sampled_from(['wsgi', 'wsgi_fw', 'asgi', 'asgi']))
    # one third of the cases concentrate on the streaming window (a stream that is really sent + a fault)
    focus = draw(st.sampled_from(['framing', 'framing', 'stream_fault']))
    method = draw(st.sampled_from(['GET', 'GET', 'GET', 'POST', 'POST', 'HEAD']))
    status = draw(_status())
    shape = draw(st.sampled_from(
        ['one', 'one', 'two', 'two', 'many', 'stream', 'stream', 'stream+', 'none']))
    if focus == 'stream_fault':
        shape = 'stream'
        if method == 'HEAD':
            method = 'GET'
        if status_code_of(status) in BODILESS:
            status = ['int', 200]
    present = {'text': False, 'data': False, 'media': False, 'stream': False}
    if shape == 'one':
        present[draw(st.sampled_from(['text', 'data', 'media', 'media']))] = True
    elif shape == 'two':
        for k in draw(st.permutations(['text', 'data', 'media', 'stream']))[:2]:
            present[k] = True
    elif shape == 'many':
        for k in present:
            present[k] = draw(st.booleans())
    elif shape == 'stream':
        present['stream'] = True
    elif shape == 'stream+':
        present['stream'] = True
        present[draw(st.sampled_from(['text', 'data', 'media']))] = True
    n_set = sum(present.values())
    min_size = 0 if n_set == 1 else 1
    case = {'stack': stack, 'method': method, 'status': status, 'text': None, 'data': None, 'media': None,
            'stream': None}
    if present['text']:
        case['text'] = draw(st.text(min_size=min_size, max_size=12))
    if present['data']:
        case['data'] = draw(st.binary(min_size=min_size, max_size=12))
    if present['media']:
        case['media'] = {'v': draw(_json.filter(lambda v: v is not None))}
    n_items = 0
    if present['stream']:
        kinds = ASGI_KINDS if stack == 'asgi' else WSGI_KINDS
        if stack == 'wsgi_fw':
            kinds = ('file', 'file', 'file_noclose', 'gen', 'iter_close')
        kind = draw(st.sampled_from(kinds))
        lo = 2 if focus == 'stream_fault' else 0
        if kind == 'sse':
            chunks = draw(st.lists(_sse_event(), min_size=lo, max_size=5))
        else:
            chunks = draw(st.lists(st.binary(min_size=1 if lo else 0, max_size=6), min_size=lo, max_size=5))
        spec = {'kind': kind, 'chunks': chunks, 'raise_at': None, 'length': None}
        n_items = len(stream_chunks(spec))
        if kind in CAN_RAISE and draw(st.integers(0, 3 if focus == 'framing' else 1)) == 0:
            spec['raise_at'] = draw(st.integers(1 if lo else 0, n_items))
        if kind != 'sse' and draw(st.integers(0, 3)) == 0:
            total = sum(len(c) for c in chunks)
            spec['length'] = draw(st.sampled_from([total, total, total + 5, 0]))
        case['stream'] = spec
    # preset headers
    case['ctype'] = draw(st.sampled_from([None, None, None, 'application/json', 'application/json; charset=UTF-8',
                                          'text/plain; charset=utf-8', 'application/x-generated',
                                          'text/event-stream']))
    case['ctype_how'] = draw(st.sampled_from(['prop', 'header']))
    case['proxy'] = bool(case['stream']) and draw(st.integers(0, 3)) == 0
    if draw(st.integers(0, 7)) == 0:
        case['download'] = [draw(st.sampled_from(['downloadable_as', 'viewable_as'])),
                            draw(st.sampled_from(['report.pdf', 'a b.txt', '\u043e\u0442\u0447\u0451\u0442.pdf', '\u5831\u544a\u66f8.pdf',
                                                  '\u0142\u00f3d\u017a.txt', 'na\u00efve \u2605.csv', '\u03b1\u03b2\u03b3']))]
    if draw(st.integers(0, 2)) == 0 and not (case['stream'] and case['stream']['length'] is not None):
        n = _ref_len(dict(case, clen=None))
        case['clen'] = draw(st.sampled_from([n, n, n + 1, max(0, n - 1), 0, 10 ** 6]))
    else:
        case['clen'] = None
    case['clen_how'] = draw(st.sampled_from(['prop', 'header']))
    # ('ck' prefix: Morsel attribute names such as "path" are not valid cookie names)
    case['cookies'] = draw(st.lists(st.tuples(st.text(alphabet=_TOKEN_CHARS, max_size=5).map(lambda s: 'ck' + s),
                                              st.text(alphabet=_TOKEN_CHARS, max_size=6)).map(list),
                                    max_size=draw(st.sampled_from([0, 0, 1, 3]))))
    # values may be non-str objects (an int Retry-After / X-Count is common): whatever the setter accepts must reach
    # the server as a native string (or the setter must refuse it inside the responder, which yields a regular 500)
    case['headers'] = draw(st.lists(st.tuples(st.sampled_from(['set', 'append', 'set', 'append', 'set_headers_dict', 'set_headers_list']),
                                              st.sampled_from(_HEADER_NAMES),
                                              st.one_of(_header_value, _header_value, st.integers(0, 1000),
                                                        _header_value.map(lambda v: ['strsub', v]))).map(list),
                                    max_size=draw(st.sampled_from([0, 0, 2, 4]))))
    if focus == 'stream_fault':
        case['custom'] = draw(st.sampled_from([None, None, None, ['none'], ['super']]))
    elif draw(st.integers(0, 3)) == 0:
        mode = draw(st.sampled_from(['bytes', 'none', 'super', 'super']))
        case['custom'] = [mode, draw(st.binary(max_size=10))] if mode == 'bytes' else [mode]
    else:
        case['custom'] = None
    if focus == 'stream_fault':
        want_fail = case['stream']['raise_at'] is None or draw(st.integers(0, 2)) == 0
    else:
        want_fail = draw(st.integers(0, 3)) == 0
    if want_fail:
        # WSGI: write k carries chunk k; ASGI: send 0 is the response start, send k carries chunk k-1
        first = 0
        if focus == 'stream_fault':
            first = 2 if stack == 'asgi' else 1
        elif stack == 'asgi' and draw(st.integers(0, 3)) > 0:
            first = 1
        case['fail_at'] = draw(st.integers(first, n_items + 2))
    else:
        case['fail_at'] = None
    case['disconnect'] = bool(case['stream'] and case['stream']['kind'] == 'sse' and draw(st.integers(0, 3)) == 0)
    return case


class Generated(Suite):
    """Hypothesis-generated responses on all three stacks: arbitrary status codes 100..999 in all three
    representations (status lines with arbitrary ASCII reason phrases), arbitrary text / data / JSON media /
    stream contents and chunkings, set_stream(stream, length), Content-Length and Content-Type preset via the
    property or set_header (right, wrong, absurd lengths; supported and unsupported media types), cookies,
    set/appended extra headers, a Response subclass overriding render_body (fixed bytes / None / delegating to
    super), the stream raising at chunk k and the server's write/send raising at call k."""

    name = 'generated'
    budget = {'quick': 4000, 'thorough': 80000}

    def strategy(self, tier):
        return _response_case()

    def run(self, case):
        return check_case(case)


def _expand_big(case):
    """The response a compact `big` case stands for: the same response with one part grown to a size / count beyond the
    moderate range (text or data of n characters / bytes, or a stream of n chunks, or chunks of up to one 8 KiB block)."""
    case = dict(case)
    which, n = case['big']
    if which == 'text' and case.get('text') is not None:
        base = case['text'] or 'x\u00e9-'
        case['text'] = (base * (n // len(base) + 1))[:n]
    elif which == 'data' and case.get('data') is not None:
        base = case['data'] or b'\x00\xffz'
        case['data'] = (base * (n // len(base) + 1))[:n]
    elif which == 'media' and case.get('media') is not None:
        case['media'] = {'v': case['media']['v'], 'pad': ['item-%d' % i for i in range(n // 10)]}
    elif which in ('items', 'bytes') and case.get('stream') and case['stream']['kind'] != 'sse':
        spec = dict(case['stream'])
        old = stream_chunks(spec)
        old_total = sum(len(c) for c in spec['chunks'])
        base = [c for c in spec['chunks'] if c] or [b'ab']
        if which == 'items':
            spec['chunks'] = [base[i % len(base)] + bytes([48 + i % 10]) for i in range(n)]
        else:
            spec['chunks'] = [(c * 8192)[:(8192 if i % 2 == 0 else 8191 - i)] for i, c in enumerate(base)] * (n // (8192 * len(base)) + 1)
        new_total = sum(len(c) for c in spec['chunks'])
        if spec.get('length') is not None and spec['length'] != 0:
            spec['length'] = new_total + (spec['length'] - old_total)
        if spec.get('raise_at') is not None and spec['raise_at'] >= len(old) and old:
            spec['raise_at'] = len(stream_chunks(spec)) - (1 if spec['raise_at'] % 2 else 0)
        if which == 'bytes' and spec['kind'] in FILE_KINDS:
            # which write carries which generated chunk depends on the block size the framework reads with (an internal
            # constant): full-block chunks are judged as a byte stream only, without fault placement
            spec['raise_at'] = None
            case['fail_at'] = None
        case['stream'] = spec
    if case.get('fail_at') is not None and case['fail_at'] >= 2 and which in ('items', 'bytes'):
        case['fail_at'] = case['fail_at'] + n % 37
    return case


class Big(Suite):
    """The generated responses again with ONE part beyond the moderate range: text / data of 4 KiB-300 KiB (around the
    8 KiB stream block, the 64 KiB mark and powers of two +-1), media documents with thousands of items, streams of
    6-400 chunks, and streams whose chunks are full 8 KiB blocks adding up to more than 64 KiB; same oracle as `generated`
    (framing, Content-Length, exact body, close-once, faults late in a long stream)."""

    name = 'big'
    budget = {'quick': 1500, 'thorough': 20000}

    def strategy(self, tier):
        sizes = st.one_of(st.sampled_from([4095, 4096, 4097, 8191, 8192, 8193, 16384, 32768, 65535, 65536]),
                          st.sampled_from([65537, 70001, 131071, 131072, 131073, 300001, 1048577]))
        big = st.one_of(st.tuples(st.sampled_from(['text', 'data', 'media', 'bytes']), sizes),
                        st.tuples(st.just('items'), st.one_of(st.integers(6, 40), st.sampled_from([63, 64, 65, 127, 128, 129, 255, 256, 257, 400]))))
        def attach(case, big, keep_method, keep_status, code):
            case = dict(case, big=list(big))
            # most of the budget goes to responses that do carry the body (HEAD and bodiless statuses stay at 1/8 resp. 1/4)
            if not keep_method and case['method'] == 'HEAD':
                case['method'] = 'GET'
            if not keep_status:
                case['status'] = [case['status'][0], code if case['status'][0] != 'str' else '%d Big' % code]
            return case
        return st.builds(attach, _response_case(), big, st.integers(0, 7).map(lambda v: v == 0), st.integers(0, 3).map(lambda v: v == 0),
                         st.sampled_from([200, 200, 201, 404, 500]))

    def run(self, case):
        hint, n = case['big']
        parts = [w for w in ('text', 'data', 'media') if case.get(w) is not None]
        if case.get('stream') and case['stream']['kind'] != 'sse':
            parts += ['items', 'bytes']
        if not parts:
            return check_case(case)
        # every part that is present is grown in turn (the drawn kind first), at the drawn size
        order = ([hint] if hint in parts else []) + [w for w in parts if w != hint]
        labels = []
        for which in order:
            size = n if (which == 'items') == (hint == 'items') else (min(n, 400) if which == 'items' else 65536 + n)
            compact = dict(case, big=[which, size])
            try:
                info = check_case(_expand_big(compact))
            except Violation as v:
                head = v.detail.split('\n  case=')[0]
                raise Violation(v.kind, '%s\n  compact case=%r' % (head[:1500], compact))
            if which == order[0]:
                labels = list(info.labels)
            labels.append('big:%s' % which)
            labels.append('items:%s' % ('<64' if size < 64 else '>=64') if which == 'items'
                          else 'n:%s' % ('<8K' if size < 8192 else '<64K' if size < 65536 else '>=64K'))
        return Info(True, labels)


class BodyHistory(Suite):
    """HISTORIES of assignments on one response before it is sent: text / data / media set, replaced and reset to None in
    any order (3-10 operations), the media document changed in place and assigned again, with render_body() calls (what a
    digest / logging middleware does) and plain reads of the properties in between.  Reference: the last value assigned to
    each of the three, then the documented precedence; same framing oracle as `generated`."""

    name = 'body_history'
    budget = {'quick': 3000, 'thorough': 60000}

    def strategy(self, tier):
        doc = st.one_of(st.dictionaries(st.sampled_from(['a', 'b', 'version']), st.integers(0, 3), max_size=2),
                        st.lists(st.integers(0, 3), max_size=2), st.integers(1, 5))
        op = st.one_of(
            st.tuples(st.just('text'), st.one_of(st.none(), st.sampled_from(['t1', 'T\u00e9xt-2']))),
            st.tuples(st.just('data'), st.one_of(st.none(), st.sampled_from([b'd1', b'\x00data-2']))),
            st.tuples(st.just('media'), st.one_of(st.none(), doc)),
            st.just(('render',)), st.just(('render',)), st.just(('mutate_reassign',)),
            st.tuples(st.just('read'), st.sampled_from(['text', 'data', 'media']))).map(list)

        def attach(case, ops, code):
            case = dict(case, body_ops=ops, custom=None)
            if case.get('text') == '':
                case['text'] = 't0'
            if case.get('data') == b'':
                case['data'] = b'd0'
            if case.get('ctype') not in (None, 'application/json', 'application/json; charset=UTF-8'):
                case['ctype'] = None
            if case.get('stream') and case['stream']['kind'] == 'sse':
                case['stream'] = None
            if status_code_of(case['status']) in BODILESS or status_code_of(case['status']) < 200:
                case['status'] = [case['status'][0], code if case['status'][0] != 'str' else '%d Hist' % code]
            return case
        return st.builds(attach, _response_case(), st.lists(op, min_size=3, max_size=10), st.sampled_from([200, 201, 404]))

    def run(self, case):
        case = dict(case, media0=case['media']['v'] if case.get('media') is not None else None)
        final = body_ops_final(case)
        try:
            info = check_case(final)
        except Violation as v:
            head = v.detail.split('\n  case=')[0]
            raise Violation(v.kind, '%s\n  history case=%r' % (head[:1500], {k: v2 for k, v2 in case.items() if k != 'media0'}))
        kinds = [op[0] for op in case['body_ops']]
        labels = list(info.labels) + ['ops:%d' % len(kinds)]
        r = [i for i, k in enumerate(kinds) if k == 'render']
        if r and any(k in ('text', 'data', 'media', 'mutate_reassign') for k in kinds[r[0] + 1:]):
            labels.append('assignment_after_render')
        if r and any(k in ('text', 'data', 'media', 'mutate_reassign') for k in kinds[:r[0]]) and len(r) >= 1:
            labels.append('render_between_assignments')
        if 'mutate_reassign' in kinds:
            labels.append('mutate_then_reassign')
        return Info('assignment_after_render' in labels, labels)



class BodyHistoryEnum(Suite):
    """EVERY history of at most 5 (thorough: 7) body operations on one response object, on falcon.Response and
    falcon.asgi.Response: text / data / media assigned, replaced and reset to None, the media document changed in place and
    assigned again, render_body() in between (vf/gen/resp_history.py).  Every render_body() result and the body that would
    be sent must be the one that the last assignments and text > data > media give."""

    name = 'body_history_enum'
    exhaustive = True
    budget = {'quick': 1, 'thorough': 1}
    MAX_LEN = {'quick': 5, 'thorough': 7}

    def cases(self, tier):
        for stack in ('wsgi', 'asgi'):
            for prefix in RH.block_cases(RH.FULL, 2 if tier == 'quick' else 3):
                yield {'stack': stack, 'prefix': prefix, 'max_len': self.MAX_LEN[tier]}

    def run(self, case):
        make = falcon.Response if case['stack'] == 'wsgi' else falcon.asgi.Response
        n, after = RH.run_block(make, RH.FULL, case['prefix'], case['max_len'], 'body_precedence')
        return Info(True, [case['stack'], 'histories:%d' % n, 'with_render_before_an_assignment:%d' % after])



class _Reset(Exception):
    pass


class AfterError(Suite):
    """Precedence after an error: the responder fills body sources (text / data / media, optionally rendering the media
    early through the public render_body()), then raises; the registered handler composes the real response from ONE
    source (text, data, media, an iterable stream, or nothing).  The body sent must be exactly that source (nothing of
    what the responder had prepared may survive), with a matching Content-Length for the non-streamed ones, on WSGI and ASGI."""

    name = 'after_error'
    exhaustive = True
    budget = {'quick': 1, 'thorough': 1}

    def cases(self, tier):
        for stack in ('wsgi', 'asgi'):
            for pre in itertools.product((False, True), repeat=3):
                for render in (False, True):
                    for final in ('none', 'text', 'data', 'media', 'stream'):
                        for status in (200, 409):
                            yield {'stack': stack, 'pre': list(pre), 'render': render, 'final': final, 'status': status}

    def run(self, case):
        asyn = case['stack'] == 'asgi'
        pre_text, pre_data, pre_media = case['pre']
        final = case['final']

        def prepare(resp):
            if pre_text:
                resp.text = 'prepared text'
            if pre_data:
                resp.data = b'prepared data'
            if pre_media:
                resp.media = {'prepared': 'media'}

        def compose(resp):
            resp.status = case['status']
            if final == 'text':
                resp.text = 'final text'
            elif final == 'data':
                resp.data = b'final data'
            elif final == 'media':
                resp.media = {'final': 1}

        if asyn:
            class R(object):
                async def on_get(self, req, resp):
                    prepare(resp)
                    if case['render']:
                        await resp.render_body()
                    raise _Reset()

            async def handler(req, resp, ex, params):
                compose(resp)
                if final == 'stream':
                    async def gen():
                        yield b'final '
                        yield b'stream'
                    resp.stream = gen()
            app = falcon.asgi.App()
        else:
            class R(object):
                def on_get(self, req, resp):
                    prepare(resp)
                    if case['render']:
                        resp.render_body()
                    raise _Reset()

            def handler(req, resp, ex, params):
                compose(resp)
                if final == 'stream':
                    resp.stream = iter([b'final ', b'stream'])
            app = falcon.App()
        app.add_route('/', R())
        app.add_error_handler(_Reset, handler)
        if asyn:
            res = A.call(app, A.build_scope('GET', '/'))
        else:
            res = W.call(app, W.build_environ('GET', '/'))
        if res.error is not None:
            raise res.error
        want = {'none': b'', 'text': b'final text', 'data': b'final data', 'stream': b'final stream'}.get(final)
        ctx = 'case=%r: status %r headers %r body %r' % (case, res.code, res.headers, res.body)
        if res.code != case['status']:
            raise Violation('after_error_status', ctx)
        if final == 'media':
            try:
                ok = json.loads(res.body.decode()) == {'final': 1}
            except ValueError:
                ok = False
            if not ok:
                raise Violation('after_error_body', 'the handler set resp.media = {"final": 1}; ' + ctx)
        elif res.body != want:
            raise Violation('after_error_body', 'the handler composed %r from %s; something the responder had prepared survived the '
                            'reset or shadows it; %s' % (want, final, ctx))
        if final != 'stream':
            if res.header_list('content-length') != [str(len(res.body))]:
                raise Violation('after_error_content_length', ctx)
        return Info(any(case['pre']), [case['stack'], 'final:' + final] + (['rendered_before_raise'] if case['render'] else []))


SUITES = [Matrix(), StatusCodes(), FaultEnum(), Generated(), Big(), BodyHistory(), BodyHistoryEnum(), AfterError()]


# ----------------------------------------------------------------- known findings (narrow predicates)


def _known_f11(suite_name, case, violation):
    """204 / 304 + resp.media that the framework itself renders + no application-set Content-Type."""
    return (violation.kind == 'typeless_content_type'
            and status_code_of(case['status']) in TYPELESS
            and media_rendered(case)
            and case.get('ctype') is None)


def _known_status_phrase(suite_name, case, violation):
    """WSGI only: status given as a status line whose reason phrase differs from falcon's own constant."""
    kind, v = case['status']
    return (violation.kind in ('bodiless_body', 'typeless_content_type', 'content_length')
            and case['stack'] in ('wsgi', 'wsgi_fw')
            and kind == 'str'
            and int(v[:3]) in BODILESS
            and v != getattr(falcon, 'HTTP_%s' % v[:3], None))


KNOWN = {
    'F11': _known_f11,
    'C05-status-phrase': _known_status_phrase,
}
