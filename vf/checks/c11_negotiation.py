"""C11 — Content negotiation and media-handler resolution follow RFC 9110 precedence."""
import falcon
import falcon.asgi as falcon_asgi
from falcon import errors as falcon_errors
from falcon import mediatypes
from falcon.media import BaseHandler
from falcon.media import Handlers

from vf.core import Info, Suite, Violation
from vf.drivers import asgi as asgi_driver
from vf.drivers import wsgi
from vf.gen import c11_cases as gen
from vf.ref import c11_negotiation as ref

LEVEL = 'exploration'
RULE = (
    'accept suites: at least two ranges of the header match one candidate with different '
    'specificity (main, sub, exact-params, shared-params), so the lexicographic maximum decides; '
    'handler suites: some probe content type is resolved before and after a mutation of the '
    'mapping that changes the handler (or 415) the mapping designates for it; '
    'distinct = distinct case fingerprint'
)
ASSUMPTIONS = [
    'reference matcher vf/ref/c11_negotiation.py (about 60 lines) works on the structured ranges '
    'the generator rendered the header from; header text is never re-parsed by the oracle',
    'type, subtype and parameter values are compared case-sensitively (falcon documents no case '
    'folding there; only lower-case types are generated); parameter names are case-insensitive',
    'ties between equally good candidates go to the first candidate (falcon/app_helpers.py relies '
    'on this to prefer JSON)',
    'q values are rendered as "0"/"1" with 0..5 fraction digits; for more than three digits (a '
    'sender MUST NOT generate them) both falcon\'s permissive reading and InvalidMediaRange are accepted',
    'not generated: empty list members, a lone "*", "*/subtype", duplicate parameter names inside '
    'one range, q given in float syntaxes outside the RFC grammar (1e-1, .5, +0.5), wildcard '
    'candidates / handler keys, malformed handler keys',
    'quoted parameter values containing "," (F17) or "\\" are generated only in separately '
    'labelled slices',
    'content types probed against a handler mapping are a single type (no list), q absent or > 0 '
    'with at most 3 digits: falcon reuses the Accept matcher there and the property claims nothing '
    'about q=0 or comma lists inside a Content-Type',
    'copy() of an emptied mapping is examined only by the handler_copy_empty suite; Handlers({}) / '
    'empty | empty (documented "no initial mapping means the defaults") are not asserted',
    'handler mappings are observed through Handlers._resolve (the single resolution point used by '
    'Request.get_media, Response.render_body and the error serializer) and end to end through a '
    'WSGI app; the ASGI request/response call the same resolver and are not driven here',
]

# ------------------------------------------------------------------ rendering (harness side)

_TCHAR = frozenset("!#$%&'*+-.^_`|~0123456789ABCDEFGHIJKLMNOPQRSTUVWXYZabcdefghijklmnopqrstuvwxyz")


def is_token(s):
    return bool(s) and all(c in _TCHAR for c in s)


def quote(s):
    return '"' + s.replace('\\', '\\\\').replace('"', '\\"') + '"'


def render_param(p):
    name, value, quoted, upper = p
    if upper:
        name = name.upper()
    if quoted or not is_token(value):
        value = quote(value)
    return name + '=' + value


def render_q(q, upper):
    lead, frac = q
    return ('Q=' if upper else 'q=') + lead + ('' if frac is None else '.' + frac)


def q_value(q):
    lead, frac = q
    if not frac:
        return float(int(lead))
    return (int(lead) * 10 ** len(frac) + int(frac)) / float(10 ** len(frac))


def render_member(m, no_tab=False):
    """A media range or media type from its structured form."""
    if 'bad' in m:
        return m['bad']
    ws = list(m.get('ws') or ['', '', '', ''])
    if no_tab:
        ws = [w.replace('\t', ' ') for w in ws]
    pieces = [render_param(p) for p in m['p']]
    if m.get('q') is not None:
        pos = m.get('qpos', 0) % (len(pieces) + 1)
        pieces.insert(pos, render_q(m['q'], m.get('qup', False)))
    if m.get('empty_param'):
        pieces.append('')
    text = m['t'] + '/' + m['s']
    text = {'upper': text.upper(), 'title': text.title()}.get(m.get('tcase'), text)
    for piece in pieces:
        text += ws[2] + ';' + ws[3] + piece
    return ws[0] + text + ws[1]


def struct_type(m):
    return {'t': m['t'], 's': m['s'], 'params': {p[0].lower(): p[1] for p in m['p']}}


def struct_range(m):
    r = struct_type(m)
    r['q'] = 1.0 if m.get('q') is None else q_value(m['q'])
    return r


def render_header(members, no_tab=False):
    return ','.join(render_member(m, no_tab) for m in members).strip(' \t')


# ------------------------------------------------------------------ suite (a)

_DOCUMENTED = (falcon_errors.InvalidMediaType, falcon_errors.InvalidMediaRange)


def _exc(e):
    return '%s: %s' % (type(e).__name__, e)


def check_accept(case):
    members = case['ranges']
    header = render_header(members)
    header_valid = all('bad' not in m for m in members)
    ranges = [struct_range(m) for m in members] if header_valid else None
    cands = case['cands']
    ctexts = [render_member(c).strip(' \t') for c in cands]
    cands_valid = all('bad' not in c for c in cands)
    ctx = 'header=%r candidates=%r' % (header, ctexts)

    env = wsgi.build_environ(headers=[('Accept', header)])
    req = falcon.Request(env)
    if req.accept != header:
        raise Violation('accept_not_preserved', '%s: req.accept=%r' % (ctx, req.accept))

    labels = ['slice:' + case['slice'], 'header:valid' if header_valid else 'header:invalid_member']
    if header_valid and any(m.get('q') and m['q'][1] is not None and len(m['q'][1]) > 3 for m in members):
        # RFC 9110: a sender MUST NOT generate more than three digits; falcon currently accepts
        # them (documented in the source); rejecting them as InvalidMediaRange is equally allowed
        labels.append('q_more_than_3_digits')
        try:
            mediatypes.quality('text/plain', header)
        except falcon_errors.InvalidMediaRange:
            # tolerated only when the extra digits are the reason: the same header with the q
            # values cut to three digits must be accepted
            short = render_header([dict(m, q=[m['q'][0], m['q'][1][:3]]) if m.get('q') and m['q'][1] else m
                                   for m in members])
            try:
                mediatypes.quality('text/plain', short)
            except ValueError:
                pass
            else:
                header_valid = False
                ranges = None
                labels.append('q_more_than_3_digits_rejected')
    if not cands_valid:
        labels.append('candidates:invalid_member')
    nontrivial = False

    # ---- quality / client_accepts per candidate
    for c, text in zip(cands, ctexts):
        cvalid = 'bad' not in c
        try:
            got = mediatypes.quality(text, header)
            err = None
        except Exception as e:  # noqa
            got = None
            err = e
        try:
            accepts = req.client_accepts(text)
        except Exception as e:  # noqa
            raise Violation('client_accepts_raised', '%s: client_accepts(%r) raised %s' % (ctx, text, _exc(e)))
        if header_valid and cvalid:
            if err is not None:
                raise Violation('valid_header_rejected', '%s: quality(%r, header) raised %s' % (ctx, text, _exc(err)))
            exp = ref.quality(ranges, struct_type(c))
            if got != exp or type(got) is not float:
                raise Violation('quality_mismatch', '%s: quality(%r, header) = %r, reference %r' % (ctx, text, got, exp))
            if accepts is not (exp != 0.0):
                raise Violation('client_accepts_mismatch', '%s: client_accepts(%r) = %r, reference quality %r'
                                % (ctx, text, accepts, exp))
            specs = set(ref.matching_specificities(ranges, struct_type(c)))
            if len(specs) >= 2:
                nontrivial = True
        else:
            if err is None:
                raise Violation('invalid_member_accepted', '%s: quality(%r, header) = %r but the %s is malformed'
                                % (ctx, text, got, 'media type' if not cvalid else 'header'))
            if not isinstance(err, _DOCUMENTED):
                raise Violation('undocumented_error', '%s: quality(%r, header) raised %s' % (ctx, text, _exc(err)))
            if cvalid and not isinstance(err, falcon_errors.InvalidMediaRange):
                raise Violation('undocumented_error', '%s: quality(%r, header) raised %s for a malformed range, '
                                'expected InvalidMediaRange' % (ctx, text, _exc(err)))
            # a malformed *header* means nothing is acceptable; for a malformed argument (caller's
            # error) only "answers a bool without raising" is claimed
            if not header_valid and accepts is not False and text != header:
                raise Violation('client_accepts_mismatch', '%s: client_accepts(%r) = %r with a malformed header'
                                % (ctx, text, accepts))
            if type(accepts) is not bool:
                raise Violation('client_accepts_mismatch', '%s: client_accepts(%r) = %r' % (ctx, text, accepts))

    # ---- best_match / client_prefers over the list
    for as_tuple in (False, True):
        arg = tuple(ctexts) if as_tuple else list(ctexts)
        try:
            got = mediatypes.best_match(arg, header)
            err = None
        except Exception as e:  # noqa
            got = None
            err = e
        try:
            prefers = req.client_prefers(arg)
        except Exception as e:  # noqa
            raise Violation('client_prefers_raised', '%s: client_prefers raised %s' % (ctx, _exc(e)))
        if header_valid and cands_valid:
            if err is not None:
                raise Violation('valid_header_rejected', '%s: best_match raised %s' % (ctx, _exc(err)))
            i = ref.best_index(ranges, [struct_type(c) for c in cands])
            exp = '' if i is None else ctexts[i]
            if got != exp:
                quals = [ref.quality(ranges, struct_type(c)) for c in cands]
                raise Violation('best_match_mismatch', '%s: best_match = %r, reference %r (reference qualities %r)'
                                % (ctx, got, exp, quals))
            if prefers != (exp or None):
                raise Violation('client_prefers_mismatch', '%s: client_prefers = %r, reference %r' % (ctx, prefers, exp or None))
        else:
            if err is None:
                raise Violation('invalid_member_accepted', '%s: best_match = %r with a malformed member' % (ctx, got))
            if not isinstance(err, _DOCUMENTED):
                raise Violation('undocumented_error', '%s: best_match raised %s' % (ctx, _exc(err)))
            if prefers is not None:
                raise Violation('client_prefers_mismatch', '%s: client_prefers = %r with a malformed member' % (ctx, prefers))

    if header_valid and cands_valid:
        # ---- the same ranges met again in OTHER headers (one process answers many clients): each range alone, and the
        # header with one more range appended, must read exactly as the reference says - whatever was parsed before
        extra = {'t': 'x-vf', 's': 'none', 'p': [], 'q': ['0', '5'], 'qpos': 0, 'qup': False, 'ws': ['', '', '', ''], 'empty_param': False}
        variants = [[m] for m in members] if len(members) >= 2 else []
        variants.append(list(members) + [extra])
        for vm in variants:
            vheader = render_header(vm)
            vranges = [struct_range(m) for m in vm]
            for c, text in zip(cands, ctexts):
                try:
                    got = mediatypes.quality(text, vheader)
                except Exception as e:  # noqa
                    raise Violation('valid_header_rejected', '%s: after the header above, quality(%r, %r) raised %s'
                                    % (ctx, text, vheader, _exc(e)))
                exp = ref.quality(vranges, struct_type(c))
                if got != exp:
                    raise Violation('quality_mismatch', '%s: after the header above was evaluated, quality(%r, %r) = %r, '
                                    'reference %r (a range of that header met again in another header)' % (ctx, text, vheader, got, exp))
        sts = [struct_type(c) for c in cands]
        quals = [ref.quality(ranges, t) for t in sts]
        i = ref.best_index(ranges, sts)
        labels.append('best:none' if i is None else 'best:first' if i == 0 else 'best:later')
        if any(q == 0.0 and ref.matching_specificities(ranges, t) for q, t in zip(quals, sts)):
            labels.append('q0_on_most_specific_range')
            if any(r['q'] > 0 and ref.specificity(r, t) is not None for q, t in zip(quals, sts) if q == 0.0 for r in ranges):
                labels.append('q0_shadows_less_specific_q>0')
        if len(set(q for q in quals if q > 0)) >= 2:
            labels.append('candidates_differ_in_quality')
        if quals.count(max(quals)) >= 2 and max(quals) > 0:
            labels.append('tie_between_candidates')
        if any(p[2] or not is_token(p[1]) for m in members for p in m['p']):
            labels.append('quoted_param')
    if nontrivial:
        labels.append('nontrivial')
    return Info(nontrivial, labels)


class Accept(Suite):
    """Structured Accept headers (1-6 ranges over text|application x plain|json|xml|*, */*, 0-2
    parameters from two names x few values incl. quoted strings, q with 0-5 digits at any
    position, Q upper-case, OWS incl. tabs, empty parameters, duplicates) x 1-5 candidate media
    types (with parameters): mediatypes.quality and best_match (list and tuple argument) must
    equal the reference computed from the structured ranges; client_accepts / client_prefers on a
    real falcon.Request built from a WSGI environ must agree."""

    name = 'accept'
    budget = {'quick': 30000, 'thorough': 500000}

    def strategy(self, tier):
        return gen.accept_cases('main')

    def run(self, case):
        return check_accept(case)


class AcceptInvalid(Suite):
    """Same generator with 0-2 malformed members spliced into the header (no slash, q outside
    0..1, q not a number, nan/inf) and sometimes a malformed candidate: quality / best_match must
    raise InvalidMediaRange resp. InvalidMediaType (both ValueError) and nothing else;
    client_accepts is False, client_prefers None."""

    name = 'accept_invalid'
    budget = {'quick': 6000, 'thorough': 150000}

    def strategy(self, tier):
        return gen.accept_cases('main', invalid=True)

    def run(self, case):
        return check_accept(case)


class AcceptQuotedSpecial(Suite):
    """Separately labelled slices: at least one range carries a quoted parameter value containing
    ',' (slice quoted_comma, F17) or a backslash (slice quoted_backslash).  Same oracle as the
    accept suite; RFC 9110 quoted-string syntax makes these headers valid."""

    name = 'accept_quoted_special'
    budget = {'quick': 5000, 'thorough': 80000}

    def strategy(self, tier):
        return gen.accept_cases('quoted_comma') | gen.accept_cases('quoted_backslash')

    def run(self, case):
        return check_accept(case)


# ------------------------------------------------------------------ handler mappings

# key universe: text as registered by an application + its structured reading
KEYS = [
    ('application/json', {'t': 'application', 's': 'json', 'params': {}}),
    ('text/plain', {'t': 'text', 's': 'plain', 'params': {}}),
    ('text/plain; a=1', {'t': 'text', 's': 'plain', 'params': {'a': '1'}}),
    ('text/plain;a=2', {'t': 'text', 's': 'plain', 'params': {'a': '2'}}),
    ('application/xml', {'t': 'application', 's': 'xml', 'params': {}}),
    ('text/xml', {'t': 'text', 's': 'xml', 'params': {}}),
    ('application/json;b=1', {'t': 'application', 's': 'json', 'params': {'b': '1'}}),
]
KEY_STRUCT = dict(KEYS)
# the documented defaults of Handlers()
DEFAULT_KEYS = ['application/json', 'multipart/form-data', 'application/x-www-form-urlencoded']
KEY_STRUCT['multipart/form-data'] = {'t': 'multipart', 's': 'form-data', 'params': {}}
KEY_STRUCT['application/x-www-form-urlencoded'] = {'t': 'application', 's': 'x-www-form-urlencoded', 'params': {}}
NKEYS = len(KEYS)
NHANDLERS = 6

# raw probe texts: text -> structured range list (None = malformed)
RAW = {
    '': None,
    '*/*': [{'t': '*', 's': '*', 'params': {}, 'q': 1.0}],
    'nonsense': None,
    'textplain': None,
    'image/png': [{'t': 'image', 's': 'png', 'params': {}, 'q': 1.0}],
    'image/*': [{'t': 'image', 's': '*', 'params': {}, 'q': 1.0}],
    'text/*': [{'t': 'text', 's': '*', 'params': {}, 'q': 1.0}],
    'application/*': [{'t': 'application', 's': '*', 'params': {}, 'q': 1.0}],
    'application/json; charset=utf-8': [{'t': 'application', 's': 'json', 'params': {'charset': 'utf-8'}, 'q': 1.0}],
    'text/plain; charset=UTF-8': [{'t': 'text', 's': 'plain', 'params': {'charset': 'UTF-8'}, 'q': 1.0}],
    # type / subtype tokens are case-insensitive (RFC 9110 8.3.1)
    'Application/JSON': [{'t': 'application', 's': 'json', 'params': {}, 'q': 1.0}],
    'TEXT/XML': [{'t': 'text', 's': 'xml', 'params': {}, 'q': 1.0}],
    'Text/Plain; a=1': [{'t': 'text', 's': 'plain', 'params': {'a': '1'}, 'q': 1.0}],
}
RAW_TEXTS = sorted(RAW)


class _ArgumentFailure(Exception):
    pass


class TagHandler(BaseHandler):
    """A media handler whose output says which handler ran."""

    def __init__(self, tag, with_sync=False):
        self.tag = tag
        if with_sync:
            self._serialize_sync = self.serialize
            self._deserialize_sync = self._deser_sync

    def serialize(self, media, content_type=None):
        return ('<%s>' % self.tag).encode()

    def deserialize(self, stream, content_type, content_length):
        return '<%s>' % self.tag

    def _deser_sync(self, data):
        return '<%s>' % self.tag

    def __repr__(self):
        return 'TagHandler(%s)' % self.tag


def make_handlers():
    return [TagHandler('H%d' % i, with_sync=(i % 2 == 1)) for i in range(NHANDLERS)]


def probe_text_struct(p, no_tab=False):
    """(text, structured range list or None) of a probe / default description."""
    if 'k' in p:
        text, mt = KEYS[p['k'] % NKEYS]
        return text, [dict(mt, q=1.0)]
    if 'raw' in p:
        t = p['raw']
        if t is None:
            return None, None
        return t, RAW[t]
    members = p['r']
    return render_header(members, no_tab), [struct_range(m) for m in members]


class Mapping(object):
    """A falcon Handlers object and the plain dict that models it."""

    def __init__(self, real, model, uid):
        self.real = real
        self.model = model  # key text -> handler object (insertion ordered)
        self.uid = uid  # distinguishes successive objects in one slot


def _items_dict(items, objs):
    d = {}
    for k, h in items:
        d[KEYS[k % NKEYS][0]] = objs[h % NHANDLERS]
    return d


def apply_op(op, slots, objs, ctx, step=0):
    """Apply one operation to the real mapping and to the model; compares return values."""
    name = op['op']
    m = slots.get(op['on'])
    if m is None:
        m = slots['A']
    real, model = m.real, m.model

    def expect_keyerror(fn, what):
        try:
            fn()
        except KeyError:
            return
        raise Violation('mapping_semantics', '%s: %s on a missing key did not raise KeyError' % (ctx, what))

    if name == 'set':
        key = KEYS[op['k'] % NKEYS][0]
        real[key] = objs[op['h'] % NHANDLERS]
        model[key] = objs[op['h'] % NHANDLERS]
    elif name == 'delete':
        key = KEYS[op['k'] % NKEYS][0]
        if key in model:
            del real[key]
            del model[key]
        else:
            def f():
                del real[key]
            expect_keyerror(f, 'del')
    elif name in ('update', 'ior') and op['how'] in ('failing_gen', 'bad_pair'):
        # the argument fails part-way through.  Whether the pairs seen before the failure are applied or not is the
        # implementation's choice; the resolution rule is then judged against what the mapping REALLY contains now
        d = _items_dict(op['items'], objs)
        before = dict(model)

        def gen():
            for kv in d.items():
                yield kv
            raise _ArgumentFailure('the iterable given to update() failed')
        arg = gen() if op['how'] == 'failing_gen' else list(d.items()) + [('only-one-element',)]
        try:
            if name == 'update':
                real.update(arg)
            else:
                real |= arg
        except (_ArgumentFailure, ValueError, TypeError):
            pass
        else:
            raise Violation('mapping_semantics', '%s: %s with a failing argument did not raise' % (ctx, name))
        now = {k: real[k] for k in list(real)}
        for k, v in now.items():
            if not ((k in before and before[k] is v) or (k in d and d[k] is v)):
                raise Violation('mapping_semantics', '%s: after a failed %s, key %r maps to %r (neither the old nor the new handler)'
                                % (ctx, name, k, v))
        if any(k not in now for k in before):
            raise Violation('mapping_semantics', '%s: a failed %s removed keys: %r -> %r' % (ctx, name, before, now))
        model.clear()
        model.update(now)
        return 'failed_update:' + ('applied_some' if now != before else 'applied_none')
    elif name == 'update':
        d = _items_dict(op['items'], objs)
        how = op['how']
        if how == 'dict':
            real.update(d)
        elif how == 'pairs':
            real.update(list(d.items()))
        elif how == 'kwargs':
            real.update(**d)
        else:
            real.update(Handlers(d) if d else {})
        model.update(d)
    elif name == 'pop':
        key = KEYS[op['k'] % NKEYS][0]
        if op['default']:
            got = real.pop(key, None)
            exp = model.pop(key, None)
            if got is not exp:
                raise Violation('mapping_semantics', '%s: pop(%r, None) returned %r, model %r' % (ctx, key, got, exp))
        elif key in model:
            got = real.pop(key)
            exp = model.pop(key)
            if got is not exp:
                raise Violation('mapping_semantics', '%s: pop(%r) returned %r, model %r' % (ctx, key, got, exp))
        else:
            expect_keyerror(lambda: real.pop(key), 'pop')
    elif name == 'popitem':
        if model:
            k, v = real.popitem()
            if k not in model or model[k] is not v:
                raise Violation('mapping_semantics', '%s: popitem() returned %r which is not an item of the model %r'
                                % (ctx, (k, v), model))
            del model[k]
        else:
            expect_keyerror(real.popitem, 'popitem')
    elif name == 'clear':
        real.clear()
        model.clear()
    elif name == 'setdefault':
        key = KEYS[op['k'] % NKEYS][0]
        got = real.setdefault(key, objs[op['h'] % NHANDLERS])
        exp = model.setdefault(key, objs[op['h'] % NHANDLERS])
        if got is not exp:
            raise Violation('mapping_semantics', '%s: setdefault(%r) returned %r, model %r' % (ctx, key, got, exp))
    elif name == 'ior':
        d = _items_dict(op['items'], objs)
        how = op['how']
        if how == 'dict':
            real |= d
        elif how == 'pairs':
            real |= list(d.items())
        else:
            real |= (Handlers(d) if d else {})
        if real is not m.real:
            raise Violation('mapping_semantics', '%s: |= did not update in place' % ctx)
        model.update(d)
    elif name == 'or':
        d = _items_dict(op['items'], objs)
        new_model = dict(model)
        new_model.update(d)
        new_real = real | d
        if not new_model:
            # falcon documents that an empty/omitted initial mapping means the default handlers
            return 'skip_empty_or'
        slots[op['to']] = Mapping(new_real, new_model, step)
    elif name == 'copy':
        if not model:
            # copy() of an emptied mapping is examined by the handler_copy_empty suite only
            return 'skip_copy_of_empty'
        new_real = real.copy()
        if not isinstance(new_real, Handlers) or new_real is real:
            raise Violation('copy_not_independent', '%s: copy() returned %r' % (ctx, new_real))
        slots[op['to']] = Mapping(new_real, dict(model), step)
    else:
        raise AssertionError(name)
    return None


def check_state(m, probes, defaults, ctx, seen, paths=None):
    """Every probe x default x raise flag must resolve to what the model designates.

    `seen` maps (object uid, probe index, default index) -> previously expected handler; returns the
    number of probes whose expectation changed since they were last resolved."""
    real, model = m.real, m.model
    if list(real.keys()) != list(model.keys()):
        raise Violation('mapping_semantics', '%s: keys %r, model %r' % (ctx, list(real.keys()), list(model.keys())))
    for k in model:
        if real[k] is not model[k]:
            raise Violation('mapping_semantics', '%s: [%r] is %r, model %r' % (ctx, k, real[k], model[k]))
    full = {k: (KEY_STRUCT[k], v) for k, v in model.items()}
    changed = 0
    for di, (dtext, dstruct) in enumerate(defaults):
        for pi, (ptext, pstruct) in enumerate(probes):
            exp = ref.resolve(full, ptext, pstruct, dtext, dstruct)
            if paths is not None:
                via_default = not ptext or ptext == '*/*'
                eff = dtext if via_default else ptext
                paths.add('resolved:%s%s' % ('default->' if via_default else '',
                                             'exact_key' if eff in model else 'unsupported' if exp is None else 'best_match'))
            key = (m.uid, pi, di)
            if key in seen and seen[key] is not exp:
                changed += 1
            seen[key] = exp
            for raise_not_found in (True, False):
                what = '_resolve(%r, %r, %r)' % (ptext, dtext, raise_not_found)
                try:
                    if raise_not_found:
                        got = real._resolve(ptext, dtext)
                    else:
                        got = real._resolve(ptext, dtext, False)
                except falcon.HTTPUnsupportedMediaType as e:
                    if not raise_not_found:
                        raise Violation('resolve_raised', '%s: %s raised %s' % (ctx, what, _exc(e)))
                    if exp is not None:
                        raise Violation('resolve_mismatch', '%s: %s raised 415, mapping %r designates %r'
                                        % (ctx, what, model, exp))
                    continue
                if not (isinstance(got, tuple) and len(got) == 3):
                    raise Violation('resolve_shape', '%s: %s returned %r' % (ctx, what, got))
                if exp is None:
                    if raise_not_found or got != (None, None, None):
                        raise Violation('resolve_mismatch', '%s: %s returned %r, mapping %r designates no handler'
                                        % (ctx, what, got, model))
                    continue
                if got[0] is not exp:
                    raise Violation('resolve_mismatch', '%s: %s returned %r, mapping %r designates %r'
                                    % (ctx, what, got[0], model, exp))
                if got[1] != getattr(exp, '_serialize_sync', None) or got[2] != getattr(exp, '_deserialize_sync', None):
                    raise Violation('resolve_shape', '%s: %s returned sync methods %r that are not those of %r'
                                    % (ctx, what, got[1:], exp))
    return changed


class HandlerHistory(Suite):
    """Operation histories (set, delete, update via dict/pairs/kwargs/Handlers, pop with and
    without default, popitem, clear, setdefault, |= via dict/pairs/Handlers, |, copy() into either
    slot) over one or two falcon.media.Handlers objects next to a plain dict model.  After every
    step, on every live object, every probe content type (each exact key of the universe, None,
    '*/*', plus 2-6 generated ones: keys with parameters / other spelling / quoted values / q,
    wildcard forms, '', unsupported, malformed) x 2 default types x raise_not_found in
    (True, False) must resolve, by identity, to the handler the model designates under the
    documented rule, or raise HTTPUnsupportedMediaType / return (None, None, None)."""

    name = 'handler_history'
    budget = {'quick': 6000, 'thorough': 150000}

    def strategy(self, tier):
        return gen.history_cases(NKEYS, NHANDLERS, RAW_TEXTS)

    def run(self, case):
        objs = make_handlers()
        if case['init'] is None:
            real = Handlers()
            documented = DEFAULT_KEYS
            if list(real) != documented:
                raise Violation('default_handlers', 'Handlers() has keys %r, documented %r' % (list(real), documented))
            model = {k: real[k] for k in documented}
        else:
            d = _items_dict(case['init'], objs)
            real = Handlers(d)
            model = dict(d)
        slots = {'A': Mapping(real, model, 0)}
        probes = [probe_text_struct({'k': k}) for k in range(NKEYS)]
        probes += [probe_text_struct({'raw': None}), probe_text_struct({'raw': '*/*'})]
        probes += [probe_text_struct(p) for p in case['probes']]
        defaults = [probe_text_struct(p) for p in case['defaults']]
        seen = {}
        labels = set()
        changed = check_state(slots['A'], probes, defaults, 'initial %r' % (model,), seen, labels)
        for i, op in enumerate(case['steps']):
            ctx = 'init=%r steps=%r (after step %d)' % (case['init'], case['steps'][:i + 1], i)
            note = apply_op(op, slots, objs, ctx, i + 1)
            labels.add('op:' + op['op'] + ('/' + op['how'] if 'how' in op else ''))
            if note:
                labels.add(note)
            for sname in sorted(slots):
                changed += check_state(slots[sname], probes, defaults, ctx + ' on ' + sname, seen, labels)
        if 'B' in slots:
            labels.add('two_objects')
        if changed:
            labels.add('nontrivial')
        return Info(changed > 0, sorted(labels))


# ------------------------------------------------------------------ end to end


class _Resource(object):
    def __init__(self):
        self.seen = None
        self.rct = None

    def on_post(self, req, resp):
        try:
            self.seen = ('media', req.get_media())
        except falcon.HTTPUnsupportedMediaType:
            self.seen = ('unsupported', None)
        if self.rct is not None:
            resp.content_type = self.rct
        resp.media = {'k': 1}


class _AsyncResource(_Resource):
    async def on_post(self, req, resp):
        try:
            self.seen = ('media', await req.get_media())
        except falcon.HTTPUnsupportedMediaType:
            self.seen = ('unsupported', None)
        if self.rct is not None:
            resp.content_type = self.rct
        resp.media = {'k': 1}


class HandlerEndToEnd(Suite):
    """A falcon.App (vf.drivers.wsgi, PEP 3333 monitor on) or a falcon.asgi.App (vf.drivers.asgi, ASGI monitor on) whose
    req_options.media_handlers / resp_options.media_handlers are mutated (set, delete, update, pop,
    setdefault, |=, clear, replaced by a new Handlers or by a copy()) between rounds of requests.
    Each case has a pool of 3 generated content types; after every step request j carries pool[j]
    as Content-Type (or none) and the responder answers with pool[j+1] as response content type
    and resp.media set: req.get_media() must be produced by the handler the request-side model
    designates (or raise HTTPUnsupportedMediaType), and the response body must come from the
    handler the response-side model designates (or the response is a 415)."""

    name = 'handler_end_to_end'
    budget = {'quick': 3000, 'thorough': 60000}

    def strategy(self, tier):
        return gen.e2e_cases(NKEYS, NHANDLERS, RAW_TEXTS, [t for t in RAW_TEXTS if t])

    def run(self, case):
        objs = make_handlers()
        dtext, dstruct = probe_text_struct(case['default'], no_tab=True)
        asgi_stack = case.get('stack') == 'asgi'
        if asgi_stack:
            app = falcon_asgi.App(media_type=dtext)
            res = _AsyncResource()
        else:
            app = falcon.App(media_type=dtext)
            res = _Resource()
        app.add_route('/r', res)
        models = {}
        for side, opts, init in (('req', app.req_options, case['init_req']), ('resp', app.resp_options, case['init_resp'])):
            d = _items_dict(init['items'], objs)
            if init['mode'] == 'replace':
                opts.media_handlers = Handlers(d)
            else:
                opts.media_handlers.clear()
                opts.media_handlers.update(d)
            models[side] = dict(d)
        opts_of = {'req': app.req_options, 'resp': app.resp_options}
        labels = set()
        last = {}
        changed = 0

        def request(ct, rct, ctx):
            nonlocal changed
            ctext, cstruct = probe_text_struct(ct, no_tab=True)
            rtext, rstruct = probe_text_struct(rct, no_tab=True)
            headers = [('Content-Length', '1')]
            if ctext is not None:
                headers.append(('Content-Type', ctext))
            res.seen = None
            res.rct = rtext
            if asgi_stack:
                result = asgi_driver.call(app, asgi_driver.build_scope('POST', '/r', headers=headers),
                                          asgi_driver.body_events(b'x'))
            else:
                env = wsgi.build_environ('POST', '/r', headers=headers, body=b'x')
                result = wsgi.call(app, env)
            if result.error is not None:
                raise result.error
            full = {s: {k: (KEY_STRUCT[k], v) for k, v in models[s].items()} for s in models}
            exp_req = ref.resolve(full['req'], ctext, cstruct, dtext, dstruct)
            exp_resp = ref.resolve(full['resp'], rtext, rstruct, dtext, dstruct)
            for side, probe, exp in (('req', ctext, exp_req), ('resp', rtext, exp_resp)):
                k = (side, probe)
                if k in last and last[k] is not exp:
                    changed += 1
                last[k] = exp
            ctx = '%s %s: Content-Type %r, response content type %r, default %r' % (case.get('stack', 'wsgi'), ctx, ctext, rtext, dtext)
            want = ('unsupported', None) if exp_req is None else ('media', '<%s>' % exp_req.tag)
            if res.seen != want:
                raise Violation('get_media_handler', '%s: req.get_media() -> %r, request mapping %r designates %r'
                                % (ctx, res.seen, models['req'], exp_req))
            if exp_resp is None:
                if result.code != 415:
                    raise Violation('render_handler', '%s: status %s body %r, response mapping %r designates no handler (415)'
                                    % (ctx, result.code, result.body, models['resp']))
                labels.add('resp:415')
            else:
                want_body = ('<%s>' % exp_resp.tag).encode()
                if result.code != 200 or result.body != want_body:
                    raise Violation('render_handler', '%s: status %s body %r, response mapping %r designates %r'
                                    % (ctx, result.code, result.body, models['resp'], exp_resp))
                labels.add('resp:200')
            labels.add('req:unsupported' if exp_req is None else 'req:handled')

        pool = case['pool']

        def observe(ctx):
            # request j carries pool[j] as Content-Type and answers with pool[j+1] as content type
            for j in range(len(pool)):
                request(pool[j], pool[(j + 1) % len(pool)], ctx)

        observe('initial')
        for i, step in enumerate(case['steps']):
            ctx = 'default=%r init_req=%r init_resp=%r steps=%r (after step %d)' % (
                dtext, case['init_req'], case['init_resp'], [st_['ops'] for st_ in case['steps'][:i + 1]], i)
            for op in step['ops']:
                side = op['side']
                opts = opts_of[side]
                labels.add('op:' + op['op'])
                if op['op'] == 'replace':
                    d = _items_dict(op['items'], objs)
                    opts.media_handlers = Handlers(d)
                    models[side] = dict(d)
                elif op['op'] == 'copy_replace':
                    if not models[side]:
                        continue
                    opts.media_handlers = opts.media_handlers.copy()
                elif op['op'] == 'ior':
                    d = _items_dict(op['items'], objs)
                    opts.media_handlers |= d
                    models[side].update(d)
                else:
                    slots = {'A': Mapping(opts.media_handlers, models[side], 0)}
                    apply_op(dict(op, on='A'), slots, objs, ctx)
            observe(ctx)
        if changed:
            labels.add('nontrivial')
        return Info(changed > 0, sorted(labels))


class WildcardKey(Suite):
    """A catch-all handler registered under the literal key '*/*' next to concrete types.  Only the documented clauses
    are judged: a missing, empty or '*/*' content type means the DEFAULT type (whose exact key wins), and a concrete
    content type that is an exact key gets that key's handler - through Handlers._resolve on a mapping that lives through
    set / replace-the-catch-all / delete / copy steps, and end to end (WSGI and ASGI) with resp.content_type = '*/*'."""

    name = 'wildcard_key'
    exhaustive = True
    budget = {'quick': 1, 'thorough': 1}

    def cases(self, tier):
        for default in ('application/json', 'text/plain'):
            for first in ('wild', 'concrete'):
                for steps in ([], ['replace_wild'], ['copy'], ['replace_wild', 'copy'], ['del_wild'], ['del_wild', 'set_wild']):
                    for stack in ('resolve', 'wsgi', 'asgi'):
                        yield {'default': default, 'first': first, 'steps': steps, 'stack': stack}

    def run(self, case):
        objs = make_handlers()
        items = [('*/*', objs[0]), ('application/json', objs[1]), ('text/plain', objs[2])]
        if case['first'] == 'concrete':
            items = items[1:] + items[:1]
        real = Handlers(dict(items))
        model = dict(items)
        for st_ in case['steps']:
            if st_ == 'replace_wild':
                real['*/*'] = objs[3]
                model['*/*'] = objs[3]
            elif st_ == 'set_wild':
                real['*/*'] = objs[4]
                model['*/*'] = objs[4]
            elif st_ == 'del_wild':
                del real['*/*']
                del model['*/*']
            elif st_ == 'copy':
                real = real.copy()
        dtext = case['default']
        ctx = 'mapping %r, default %r, steps %r' % (model, dtext, case['steps'])
        probes = [('*/*', model[dtext]), (None, model[dtext]), ('', model[dtext]), ('application/json', model['application/json']),
                  ('text/plain', model['text/plain'])]
        if case['stack'] == 'resolve':
            for ptext, exp in probes:
                got = real._resolve(ptext, dtext)[0]
                if got is not exp:
                    raise Violation('resolve_mismatch', '%s: _resolve(%r, %r) returned %r, the rule designates %r' % (ctx, ptext, dtext, got, exp))
        else:
            asgi_stack = case['stack'] == 'asgi'
            app = (falcon_asgi.App if asgi_stack else falcon.App)(media_type=dtext)
            app.req_options.media_handlers = real
            app.resp_options.media_handlers = real
            res = _AsyncResource() if asgi_stack else _Resource()
            app.add_route('/r', res)
            for ptext, exp in probes:
                if ptext == '':
                    continue
                res.seen = None
                res.rct = ptext
                headers = [('Content-Length', '1')] + ([('Content-Type', ptext)] if ptext else [])
                if asgi_stack:
                    result = asgi_driver.call(app, asgi_driver.build_scope('POST', '/r', headers=headers), asgi_driver.body_events(b'x'))
                else:
                    result = wsgi.call(app, wsgi.build_environ('POST', '/r', headers=headers, body=b'x'))
                if result.error is not None:
                    raise result.error
                want = ('<%s>' % exp.tag)
                if res.seen != ('media', want):
                    raise Violation('get_media_handler', '%s %s: Content-Type %r: req.get_media() -> %r, the rule designates %r'
                                    % (case['stack'], ctx, ptext, res.seen, exp))
                if result.code != 200 or result.body != want.encode():
                    raise Violation('render_handler', '%s %s: response content type %r: status %s body %r, the rule designates %r'
                                    % (case['stack'], ctx, ptext, result.code, result.body, exp))
        return Info('*/*' in model, ['stack:' + case['stack'], 'wild_key:' + ('present' if '*/*' in model else 'deleted')])


class HandlerCopyEmpty(Suite):
    """Separately counted class: copy() of a mapping that was emptied (by clear, delete, pop or
    popitem; initial content 1 key, 2 keys or the defaults).  The documented contract of copy()
    ("contains the same keys and values, can be customized separately") makes the copy empty;
    afterwards a key is set on the copy (or on the original) and both are probed."""

    name = 'handler_copy_empty'
    exhaustive = True
    max_shards = 1
    budget = {'quick': 1, 'thorough': 1}

    def cases(self, tier):
        for init in ([[0, 0]], [[1, 1], [0, 2]], None):
            for how in ('clear', 'delete', 'pop', 'popitem'):
                for then in ('probe', 'set_on_copy', 'set_on_original'):
                    yield {'init': init, 'how': how, 'then': then}

    def run(self, case):
        objs = make_handlers()
        real = Handlers() if case['init'] is None else Handlers(_items_dict(case['init'], objs))
        for key in list(real):
            if case['how'] == 'clear':
                real.clear()
                break
            elif case['how'] == 'delete':
                del real[key]
            elif case['how'] == 'pop':
                real.pop(key)
            else:
                real.popitem()
        ctx = 'init=%r emptied by %s' % (case['init'], case['how'])
        if len(real):
            raise Violation('mapping_semantics', '%s: still has keys %r' % (ctx, list(real)))
        new = real.copy()
        if not isinstance(new, Handlers) or new is real:
            raise Violation('copy_not_independent', '%s: copy() returned %r' % (ctx, new))
        if len(new):
            raise Violation('copy_of_empty_not_empty', '%s: copy() of the empty mapping has keys %r' % (ctx, list(new)))
        a, b = Mapping(real, {}, 0), Mapping(new, {}, 1)
        if case['then'] == 'set_on_copy':
            new[KEYS[0][0]] = b.model[KEYS[0][0]] = objs[3]
        elif case['then'] == 'set_on_original':
            real[KEYS[0][0]] = a.model[KEYS[0][0]] = objs[3]
        probes = [probe_text_struct({'k': k}) for k in range(NKEYS)] + [probe_text_struct({'raw': t}) for t in [None] + RAW_TEXTS]
        defaults = [probe_text_struct({'k': 0}), probe_text_struct({'raw': 'image/png'})]
        seen = {}
        check_state(a, probes, defaults, ctx + ' (original)', seen)
        check_state(b, probes, defaults, ctx + ' (copy)', seen)
        return Info(True, ['emptied_by:' + case['how'], 'then:' + case['then']])


class ManyParams(Suite):
    """Counts beyond the moderate range: media ranges and candidates that share 1-2100 parameters (RFC 9110 12.5.1: the
    most specific matching range decides, and specificity grows with every matching parameter - there is no cap), next to
    less specific ranges with a different q; also Accept headers with 300-3000 ranges.  Same oracle as `accept`."""

    name = 'many_params'
    exhaustive = True
    budget = {'quick': 1, 'thorough': 1}

    def cases(self, tier):
        counts = (1, 16, 255, 256, 257, 300, 511, 512, 513, 700, 1023, 1024, 1025, 2100)
        for n in (counts if tier != 'quick' else (1, 255, 256, 257, 512, 513, 1024, 1025)):
            for shape in ('specific_low_q', 'specific_zero_q', 'three_levels', 'one_param_differs'):
                yield {'n': n, 'shape': shape}
        for n in (300, 3000):
            yield {'n': n, 'shape': 'many_ranges'}

    @staticmethod
    def build(case):
        n, shape = case['n'], case['shape']
        params = [['p%d' % i, 'v%d' % (i % 7), False, False] for i in range(n)]
        ws = ['', '', '', '']

        def member(t, s_, p, q=None):
            return {'t': t, 's': s_, 'p': p, 'q': q, 'ws': ws}
        full = member('text', 'plain', params)
        if shape == 'specific_low_q':
            ranges = [member('text', 'plain', params, ('0', '1')), member('text', 'plain', [], ('0', '9'))]
        elif shape == 'specific_zero_q':
            ranges = [member('text', '*', [], ('0', '9')), member('text', 'plain', params, ('0', None)), member('*', '*', [], ('1', None))]
        elif shape == 'three_levels':
            ranges = [member('*', '*', [], ('1', None)), member('text', 'plain', params, ('0', '2')), member('text', '*', [], ('0', '5')),
                      member('text', 'plain', params[:max(n - 1, 0)], ('0', '7'))]
        elif shape == 'one_param_differs':
            other = [list(p_) for p_ in params]
            other[-1][1] = 'different'
            ranges = [member('text', 'plain', other, ('0', '9')), member('text', 'plain', params[:n // 2], ('0', '3')), member('text', '*', [], ('0', '6'))]
        else:
            ranges = [member('application', 'x%d' % i, [], ('0', '%03d' % (i % 1000 or 1))) for i in range(n)] + [member('text', 'plain', [], ('0', '001'))]
        cands = [full, member('text', 'plain', []), member('text', 'html', []), member('application', 'json', [])]
        if shape == 'many_ranges':
            cands = [member('text', 'plain', []), member('application', 'x%d' % (n - 1), []), member('application', 'nope', [])]
        return {'ranges': ranges, 'cands': cands, 'slice': 'many_params'}

    def run(self, case):
        try:
            check_accept(self.build(case))
        except Violation as v:
            d = v.detail
            raise Violation(v.kind, '%s ... %s\n  for the Accept header / candidates built from %r' % (d[:300], d[-500:], case))
        return Info(True, ['shape:' + case['shape'], 'n:%s' % ('<256' if case['n'] < 256 else '<512' if case['n'] < 512 else '>=512')])



SUITES = [Accept(), ManyParams(), AcceptInvalid(), AcceptQuotedSpecial(), HandlerHistory(), HandlerEndToEnd(), WildcardKey(), HandlerCopyEmpty()]


# ------------------------------------------------------------------ known findings


def _has_quoted_value(case, pred, where=('ranges',)):
    return any(pred(p[1]) for w in where for m in case.get(w, ()) if 'bad' not in m for p in m['p'])


_PARSE_KINDS = ('valid_header_rejected', 'quality_mismatch', 'client_accepts_mismatch', 'best_match_mismatch',
                'client_prefers_mismatch')


def _known_f17(suite_name, case, violation):
    """Quoted parameter value containing ',' in an Accept range: the header is split on ','."""
    return (suite_name == 'accept_quoted_special' and case.get('slice') == 'quoted_comma'
            and violation.kind in _PARSE_KINDS and _has_quoted_value(case, lambda v: ',' in v))


def _known_quoted_backslash(suite_name, case, violation):
    """Quoted parameter value ending in an escaped backslash (in a range or a candidate): the
    closing quote is taken for an escaped one and the following parameters are swallowed."""
    return (suite_name == 'accept_quoted_special' and case.get('slice') == 'quoted_backslash'
            and violation.kind in _PARSE_KINDS and _has_quoted_value(case, lambda v: v.endswith('\\'), ('ranges', 'cands')))


def _known_copy_of_empty(suite_name, case, violation):
    return suite_name == 'handler_copy_empty' and violation.kind == 'copy_of_empty_not_empty'


KNOWN = {
    'F17': _known_f17,
    'C11-quoted-backslash': _known_quoted_backslash,
    'C11-copy-of-empty': _known_copy_of_empty,
}
