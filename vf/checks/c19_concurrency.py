"""C19 — Concurrent requests do not influence one another, from the very first request."""
import asyncio
import itertools
import threading
import json
import os
import sys

from hypothesis import strategies as st

import falcon
import falcon.asgi

from vf import boot
from vf.core import HarnessError, Info, Suite, Violation
from vf.drivers import asgi as asgi_driver
from vf.drivers import wsgi as wsgi_driver
from vf.sched.threads import CoopLock, Scheduler

LEVEL = 'exploration'
RULE = (
    '(a) 2-3 threads issue the first-ever requests against a never-compiled WSGI app; every line event inside '
    'routing/compiled.py and the generated finder is a yield point and the schedule is a list of [thread, n] '
    'pre-emption segments (all single pre-emptions enumerated, double pre-emptions on a grid, random beyond); '
    '(b) threads against a warmed-up app with yield points at every middleware / responder / media-handler entry; '
    '(c) 2-3 ASGI requests as tasks on a stepped loop, every receive / send / middleware await being a scheduling '
    'point chosen by an interleaving word.  Oracle: every response equals the response of the same request executed '
    'alone.  non-trivial = at least one context switch happened between two requests before both finished '
    '((a): inside the compilation window); distinct = distinct case fingerprint'
)
ASSUMPTIONS = [
    'pre-emption is modelled at Python line granularity inside the router and at generated yield points elsewhere, not inside C code or between byte-codes of one line',
    'the router lock is replaced (attribute assignment from the harness) by a semantically identical cooperative lock that reports blocking to the scheduler',
    'thread-safety of functools.lru_cache and dict operations is assumed from CPython',
    'ASGI interleavings are at await granularity; asyncio ready-queue order is not permuted',
]

COMPILED_PY = os.path.join(boot.REPO, 'falcon', 'routing', 'compiled.py')

# ------------------------------------------------------------------ workload


class Echo(object):
    def __init__(self, who):
        self.who = who

    def on_post(self, req, resp, **kw):
        resp.media = {'who': self.who, 'params': {k: str(v) for k, v in sorted(kw.items())},
                      'hdr': req.get_header('X-Token'), 'body': req.bounded_stream.read().decode(),
                      'q': req.get_param('q'), 'ctx': getattr(req.context, 'token', None), 'tenant': req.get_param('tenant'),
                      'hdr_twin': req.get_header('X_Token'), 'hdr_own': req.get_header('x-token')}
        resp.set_header('X-Echo', req.get_header('X-Token') or '')


ROUTES = [
    ('/items/{id:int}', 'items'),
    ('/users/{name}/posts/{pid:int(min=1)}', 'posts'),
    ('/files/{p:path}', 'files'),
    ('/u/{u:uuid}', 'uuid'),
    ('/x/{a}-{b}', 'pair'),
    ('/plain/list', 'plain'),  # routes without any field (their params start out empty)
    ('/plain', 'root'),
]
REQS = [
    ('/items/42', 't0'), ('/users/bob/posts/7', 't1'), ('/files/a/b/c.txt', 't2'), ('/x/left-right', 't3'),
    ('/u/12345678123456781234567812345678', 't4'), ('/items/notanint', 't5'), ('/nothing/here', 't6'), ('/users/al/posts/0', 't7'),
    ('/plain/list', 't8'), ('/plain', 't9'),
]


def build_wsgi(mw=None):
    app = falcon.App(middleware=mw)
    for t, who in ROUTES:
        app.add_route(t, Echo(who))
    return app


def wsgi_request(app, i):
    path, tok = REQS[i]
    env = wsgi_driver.build_environ('POST', path, query='' if path.startswith('/plain') else 'q=' + tok, headers=[('X-Token', tok), ('Content-Length', str(len(tok)))],
                                    body=tok.encode())
    r = wsgi_driver.call(app, env)
    if r.error is not None:
        return ('error', type(r.error).__name__, str(r.error)[:200])
    return (r.status, sorted(r.headers), r.body)


def _own_values_only(body, tok, what, ctx):
    """Self-consistency, independent of the serial reference (a leak through state that outlives a request would
    spoil the reference run as well): everything a responder echoes about its request is that request's own token."""
    try:
        doc = json.loads(body)
    except ValueError:
        return
    if not isinstance(doc, dict) or 'who' not in doc:
        return
    seen = {'hdr': doc.get('hdr'), 'ctx': doc.get('ctx'), 'tenant': doc.get('tenant'), 'hdr_own': doc.get('hdr_own')}
    if doc.get('hdr_twin') is not None:
        # 'X_Token' is another header name than 'X-Token' (only CGI-style environ keys fold '-' into '_'): the request
        # does not carry it.  (The WSGI environ cannot tell the two apart; only the ASGI rendering is judged.)
        if what.startswith('ASGI'):
            raise Violation('foreign_value_observed', '%s: get_header(\'X_Token\') = %r although no such header was sent; %s'
                            % (what, doc.get('hdr_twin'), ctx))
    for k, v in (doc.get('params') or {}).items():
        if k.startswith('mw_'):
            seen['params.' + k] = v
    foreign = {k: v for k, v in seen.items() if v is not None and v != tok}
    if foreign:
        raise Violation('foreign_value_observed', '%s (token %r) echoed values of another request: %r; %s' % (what, tok, foreign, ctx))


_SERIAL = {}


def serial_wsgi(i, kind):
    key = (kind, i)
    if key not in _SERIAL:
        app = build_wsgi(mw=[TokenMw(None), TokenMw(None)] if kind == 'steady' else None)
        _SERIAL[key] = ('ok', wsgi_request(app, i))
    return _SERIAL[key]


# ------------------------------------------------------------------ (a) first-request race


_LOCK_TYPES = (type(threading.Lock()), type(threading.RLock()))


class _WouldBlockForever(Exception):
    pass


class SerialLock(object):
    """For strictly sequential use: acquiring a lock that is still held can never succeed (nobody else runs)."""

    def __init__(self):
        self.held = False
        self.blocked = False

    def acquire(self, blocking=True, timeout=-1):
        if self.held:
            self.blocked = True
            raise _WouldBlockForever()
        self.held = True
        return True

    def release(self):
        self.held = False

    def __enter__(self):
        self.acquire()
        return self

    def __exit__(self, *a):
        self.release()
        return False


def _cooperative_locks(router, sched, make=None):
    """Replace every threading lock the router object holds (whatever its attribute is called) by a lock the scheduler
    understands.  A router without a lock is left as it is: the schedules then decide whether it needs one."""
    locks = []
    names = set(getattr(router, '__dict__', {}))
    for klass in type(router).__mro__:
        names.update(getattr(klass, '__slots__', ()))
    for name in sorted(names):
        try:
            value = getattr(router, name)
        except AttributeError:
            continue
        if isinstance(value, _LOCK_TYPES):
            lock = make() if make is not None else CoopLock(sched)
            setattr(router, name, lock)
            locks.append(lock)
    return locks


def run_race(case):
    reqs = case['reqs']
    app = build_wsgi()
    fns = [lambda i=i: wsgi_request(app, i) for i in reqs]
    sched = Scheduler(fns, case['plan'], trace_prefixes=(COMPILED_PY,), trace_filenames=('<string>',))
    locks = _cooperative_locks(app._router, sched)
    results = sched.run()
    ctx = 'requests=%r plan=%r switches=%r' % ([REQS[i][0] for i in reqs], case['plan'], sched.switch_log[:8])
    if sched.deadlock:
        raise Violation('deadlock', '%s; %s' % (sched.deadlock, ctx))
    for k, i in enumerate(reqs):
        exp = serial_wsgi(i, 'race')
        got = results[k]
        if got[0] == 'exc':
            raise Violation('request_failed', 'request %r raised %r under the schedule; %s' % (REQS[i][0], got[1], ctx))
        if got != exp:
            raise Violation('response_differs', 'request %r got %r, alone it gets %r; %s' % (REQS[i][0], got[1], exp[1], ctx))
        _own_values_only(got[1][2], REQS[i][1], 'request %r' % (REQS[i][0],), ctx)
    labels = ['threads:%d' % len(reqs), 'switches:%d' % min(sched.switches, 6)]
    # a switch is inside the compilation window if it happened before the first thread's compile finished
    in_window = any(w != 'end' and w != 'lock' for (_f, _t, _p, w) in sched.switch_log)
    if any(lock.contended for lock in locks):
        labels.append('lock_contended')
    if in_window:
        labels.append('preempted_inside_router')
    return Info(in_window, labels)


_N0 = {}


def _first_request_events():
    """Router line events executed by a first-ever request that runs undisturbed (measured once per process)."""
    if 'n' not in _N0:
        app = build_wsgi()
        sched = Scheduler([lambda: wsgi_request(app, 0), lambda: wsgi_request(app, 1)], [], trace_prefixes=(COMPILED_PY,),
                          trace_filenames=('<string>',))
        _cooperative_locks(app._router, sched)
        sched.run()
        _N0['n'] = sched.points[0]
    return _N0['n']


class RacePublication(Suite):
    """Double pre-emptions aimed at the two narrow windows of the lazy compilation: thread 0 is pre-empted somewhere in
    the LAST 70 router line events of its first request (compilation finished, result being published, first lookup),
    thread 1 then runs 1..45 line events (entering the router, re-checking, possibly starting its own compilation) and is
    pre-empted in turn, thread 0 finishes, thread 1 finishes.  Every (k1, k2) pair of that rectangle is run."""

    name = 'race_publication'
    exhaustive = True
    budget = {'quick': 1, 'thorough': 1}
    case_timeout = 120

    def cases(self, tier):
        n0 = _first_request_events()
        tail = 70 if tier == 'quick' else 140
        head = 45 if tier == 'quick' else 90
        for k1 in range(max(0, n0 - tail), n0 + 1):
            for k2 in range(1, head + 1):
                yield {'reqs': [0, 1], 'plan': [[0, k1], [1, k2], [0, 100000]]}

    def run(self, case):
        return run_race(case)


class RaceLateEntrant(Suite):
    """Three first-ever requests: thread 0 is pre-empted within its first 14 router line events (it has seen the router
    uncompiled and is on its way to the compile lock), thread 1 runs to completion (compiles and publishes), thread 0
    resumes for k3 line events (whatever it does behind the lock - it must not disturb the published state) and is
    pre-empted again, thread 2 then runs a complete request, thread 0 finishes.  k1 x k3 on a grid."""

    name = 'race_late_entrant'
    exhaustive = True
    budget = {'quick': 1, 'thorough': 1}
    case_timeout = 120

    def cases(self, tier):
        step = 16 if tier == 'quick' else 3
        for k1 in range(1, 15):
            for k3 in range(1, 1100, step):
                yield {'reqs': [0, 1, 3], 'plan': [[0, k1], [1, 1000000], [0, k3], [2, 1000000]]}

    def run(self, case):
        return run_race(case)


# ------------------------------------------------------------------ (a') first-request race while the lazy compilation FAILS


def _flaky_app():
    """An app whose first lazy compilation fails: the converter's constructor raises on its second call (add_route
    instantiates it once to validate it, the compilation instantiates it again); the third call succeeds."""
    count = {'n': 0}

    class Flaky(falcon.routing.BaseConverter):
        def __init__(self):
            count['n'] += 1
            if count['n'] == 2:
                raise RuntimeError('transient failure while building the converter')

        def convert(self, value):
            return value

    app = falcon.App()
    app.router_options.converters['flaky'] = Flaky
    app.add_route('/f/{x:flaky}', Echo('flaky'))
    app.add_route('/items/{id:int}', Echo('items'))
    return app


def _flaky_request(app, tok):
    env = wsgi_driver.build_environ('POST', '/f/' + tok, query='q=' + tok, headers=[('X-Token', tok), ('Content-Length', str(len(tok)))],
                                    body=tok.encode())
    r = wsgi_driver.call(app, env)
    if r.error is not None:
        return ('error', type(r.error).__name__, str(r.error)[:200])
    return (r.status, sorted(r.headers), r.body)


_FLAKY_SERIAL = {}


def run_race_error(case):
    toks = ['ta', 'tb', 'tc'][:case.get('threads', 2)]
    if 'orders' not in _FLAKY_SERIAL:
        # every serial order: the first request gets the 500 of the failed compilation, the later ones are served
        orders = []
        for order in itertools.permutations(range(3)):
            for n in (2, 3):
                app = _flaky_app()
                slocks = _cooperative_locks(app._router, None, make=SerialLock)
                out = {}
                for i in [j for j in order if j < n]:
                    r = _flaky_request(app, ['ta', 'tb', 'tc'][i])
                    if any(lk.blocked for lk in slocks):
                        raise Violation('deadlock', 'requests processed ONE AT A TIME after a failed first compilation: request #%d '
                                        'tries to take a router lock that the failed request still holds (it would block forever)'
                                        % (len(out) + 1))
                    out[i] = r
                orders.append(out)
        _FLAKY_SERIAL['orders'] = orders
    app = _flaky_app()
    fns = [lambda t=t: _flaky_request(app, t) for t in toks]
    sched = Scheduler(fns, case['plan'], trace_prefixes=(COMPILED_PY,), trace_filenames=('<string>',))
    locks = _cooperative_locks(app._router, sched)
    results = sched.run()
    ctx = 'first-ever requests %r while the lazy compilation fails once; plan=%r switches=%r' % (toks, case['plan'], sched.switch_log[:8])
    if sched.deadlock:
        raise Violation('deadlock', '%s; %s' % (sched.deadlock, ctx))
    got = {}
    for k, r in enumerate(results):
        if r[0] == 'exc':
            raise Violation('request_failed', 'request %r raised %r under the schedule; %s' % (toks[k], r[1], ctx))
        got[k] = r[1]
    if not any(got == o for o in _FLAKY_SERIAL['orders'] if len(o) == len(got)):
        raise Violation('response_differs', 'responses %r equal no serial order of the same requests (one 500 for the failed '
                        'compilation, the others served); %s' % ({toks[k]: (v[0], v[2][:60]) for k, v in got.items()}, ctx))
    in_window = any(w != 'end' and w != 'lock' for (_f, _t, _p, w) in sched.switch_log)
    labels = ['threads:%d' % len(toks), 'compile_fails_once']
    if any(lock.contended for lock in locks):
        labels.append('lock_contended')
    return Info(in_window, labels)


class RaceCompileError(Suite):
    """Error path of the lazy compilation: 2-3 first-ever requests race while the first compilation raises (a converter
    whose constructor fails once).  ALL single pre-emptions on a stride, both thread orders, and a double pre-emption
    grid: the responses must equal those of some serial order (exactly one 500, everybody else served) and nobody may
    be left blocked on the router lock."""

    name = 'race_compile_error'
    exhaustive = True
    budget = {'quick': 1, 'thorough': 1}
    case_timeout = 120

    def cases(self, tier):
        step = 5 if tier == 'quick' else 1
        for k in range(0, 700, step):
            yield {'plan': [[0, k]]}
            yield {'plan': [[1, k]]}
        for k1 in range(0, 700, step * 12):
            for k2 in range(1, 700, step * 12):
                yield {'plan': [[0, k1], [1, k2]]}
                yield {'plan': [[0, k1], [1, k2], [2, 9]], 'threads': 3}

    def run(self, case):
        return run_race_error(case)


# ------------------------------------------------------------------ (a'') the very first requests of a PROCESS


class FreshProcess(Suite):
    """State that falcon initialises lazily at module level exists once per process, so only the first requests a
    process ever serves can race on it.  Every case starts a fresh Python process (vf.checks.c19_fresh) that imports
    falcon from source, builds one WSGI app and runs two first-ever requests (percent-escapes of every flavour in path
    and query, Accept negotiation, converters) under the scheduler with EVERY line of EVERY falcon module as a possible
    pre-emption point: thread 0 is pre-empted after k line events (k on a stride over the whole first request), thread 1
    runs to completion, thread 0 resumes.  Oracle: each response equals the statically known answer for that request."""

    name = 'fresh_process'
    exhaustive = True
    budget = {'quick': 1, 'thorough': 1}
    case_timeout = 120

    def cases(self, tier):
        stride = 24 if tier == 'quick' else 2
        for pair, mult in (([0, 1], 1), ([1, 2], 2), ([2, 0], 2)):
            for k in range(0, 1400, stride * mult):
                yield {'reqs': pair, 'plan': [[0, k]]}
        for k1 in range(0, 1400, stride * 6):
            yield {'reqs': [1, 0], 'plan': [[0, k1], [1, 40], [0, 25], [1, 60]]}

    def run(self, case):
        import subprocess
        env = dict(os.environ, PYTHONHASHSEED='0')
        env['PYTHONPATH'] = os.pathsep.join([boot.VERIF_ROOT, boot.DEPS] + ([env['PYTHONPATH']] if env.get('PYTHONPATH') else []))
        r = subprocess.run([sys.executable, '-B', '-m', 'vf.checks.c19_fresh', json.dumps({'plan': case['plan'], 'reqs': case['reqs']})],
                           env=env, capture_output=True, text=True, timeout=110)
        line = (r.stdout.strip().splitlines() or [''])[-1]
        try:
            out = json.loads(line)
        except ValueError:
            raise HarnessError('fresh process produced no result (rc=%s): %s %s' % (r.returncode, r.stdout[-300:], r.stderr[-600:]))
        if 'harness' in out:
            raise HarnessError('fresh process: %s' % out['harness'])
        ctx = 'fresh process, first-ever requests %r, plan=%r, switches=%r' % (case['reqs'], case['plan'], out['switches'])
        if out['deadlock']:
            raise Violation('deadlock', '%s; %s' % (out['deadlock'], ctx))
        for k, (got, exp) in enumerate(zip(out['results'], out['expected'])):
            if got != exp:
                raise Violation('response_differs', 'request #%d of the pair got %r, on its own it gets %r; %s' % (k, got, exp, ctx))
        mid = any(w[3] not in ('end', 'lock') for w in out['switches'])
        return Info(mid, ['threads:2', 'preempted_in:' + (out['switches'][0][3].split(':')[0] if out['switches'] else 'never')])


K_MAX = 1300  # a first request executes ~1170 line events inside the router (compile + find)


class RaceSinglePreemption(Suite):
    """ALL single pre-emptions: the first request is pre-empted after k router line events (k = 0..K, the whole lazy
    compilation and the first lookup), a second first-ever request runs (blocking on the router lock hands control
    back), then both finish; both thread orders, two request pairs."""

    name = 'race_single'
    exhaustive = True
    budget = {'quick': 1, 'thorough': 1}
    case_timeout = 120

    def cases(self, tier):
        pairs = [(0, 1), (2, 3)] if tier == 'quick' else [(0, 1), (2, 3), (1, 4), (5, 0), (6, 2), (3, 7)]
        step = 2 if tier == 'quick' else 1
        for a, b in pairs:
            for k in range(0, K_MAX, step):
                yield {'reqs': [a, b], 'plan': [[0, k]]}
            for k in range(0, K_MAX, step * 4):
                yield {'reqs': [a, b], 'plan': [[1, k]]}

    def run(self, case):
        return run_race(case)


class RaceDoublePreemption(Suite):
    """Double pre-emptions on a grid: thread 0 runs k1 events, thread 1 runs k2 events, thread 0 resumes (grid stride 48
    quick / 12 thorough over 0..K), plus three-thread variants."""

    name = 'race_double'
    exhaustive = True
    budget = {'quick': 1, 'thorough': 1}
    case_timeout = 120

    def cases(self, tier):
        stride = 48 if tier == 'quick' else 12
        for k1 in range(0, K_MAX, stride):
            for k2 in range(1, K_MAX, stride):
                yield {'reqs': [0, 1], 'plan': [[0, k1], [1, k2]]}
        s3 = stride * 4
        for k1 in range(0, K_MAX, s3):
            for k2 in range(1, K_MAX, s3):
                yield {'reqs': [2, 3, 1], 'plan': [[0, k1], [1, k2], [2, k1 + 7], [0, 5]]}

    def run(self, case):
        return run_race(case)


class RaceRandom(Suite):
    """Random plans: 2-3 threads, up to 6 pre-emption segments of 1..1300 router line events."""

    name = 'race_random'
    budget = {'quick': 600, 'thorough': 40000}
    case_timeout = 120

    def strategy(self, tier):
        def build(reqs, plan):
            n = len(reqs)
            return {'reqs': reqs, 'plan': [[t % n, k] for t, k in plan]}
        seg = st.tuples(st.integers(0, 2), st.one_of(st.integers(1, 60), st.integers(1, K_MAX)))
        return st.builds(build, st.lists(st.integers(0, len(REQS) - 1), min_size=2, max_size=3, unique=True),
                         st.lists(seg, min_size=1, max_size=6))

    def run(self, case):
        return run_race(case)


# ------------------------------------------------------------------ (b) steady state with coarse yield points

_CUR = {'sched': None}


def Y(where):
    s = _CUR['sched']
    if s is not None:
        s.point(where)


class TokenMw(object):
    def __init__(self, tag):
        self.tag = tag

    def process_request(self, req, resp):
        Y('mw.request')
        req.context.token = req.get_header('X-Token')
        Y('mw.request.2')

    def process_resource(self, req, resp, resource, params):
        Y('mw.resource')
        if req.context.token != req.get_header('X-Token'):
            resp.set_header('X-Context-Corrupted', '1')
        # documented: process_resource may modify params to inject additional kwargs for the responder
        params['mw_' + self.tag] = req.get_header('X-Token')
        req.params.setdefault('tenant', req.get_header('X-Token'))  # a default query parameter, on this request's mapping
        Y('mw.resource.2')

    def process_response(self, req, resp, resource, req_succeeded):
        Y('mw.response')
        resp.set_header('X-Ctx', str(getattr(req.context, 'token', None)))
        resp.append_header('X-Trace', '%s:%s' % (self.tag, req_succeeded))


class YieldingJSON(falcon.media.JSONHandler):
    def serialize(self, media, content_type):
        Y('media.serialize')
        out = super().serialize(media, content_type)
        Y('media.serialize.2')
        return out


class SteadyEcho(Echo):
    def on_post(self, req, resp, **kw):
        Y('responder')
        Echo.on_post(self, req, resp, **kw)
        Y('responder.2')
        if req.get_param('q') == 't5':
            raise falcon.HTTPConflict(title='conflict', description=req.get_header('X-Token'))


def build_steady(dependent=False):
    app = falcon.App(middleware=[TokenMw('a'), TokenMw('b')], independent_middleware=not dependent)
    for t, who in ROUTES:
        app.add_route(t, SteadyEcho(who))
    h = YieldingJSON()
    app.resp_options.media_handlers['application/json'] = h
    return app


_STEADY_SERIAL = {}


def run_steady(case):
    reqs = case['reqs']
    dep = bool(case.get('dependent'))
    app = build_steady(dep)
    wsgi_request(app, 0)  # warm up: router compiled, caches filled
    for i in reqs:
        if (i, dep) not in _STEADY_SERIAL:
            a2 = build_steady(dep)
            wsgi_request(a2, 0)
            _STEADY_SERIAL[(i, dep)] = ('ok', wsgi_request(a2, i))
    fns = [lambda i=i: wsgi_request(app, i) for i in reqs]
    sched = Scheduler(fns, case['plan'])
    _CUR['sched'] = sched
    try:
        results = sched.run()
    finally:
        _CUR['sched'] = None
    ctx = 'requests=%r plan=%r switches=%r' % ([REQS[i][0] for i in reqs], case['plan'], sched.switch_log[:10])
    for k, i in enumerate(reqs):
        got, exp = results[k], _STEADY_SERIAL[(i, dep)]
        if got[0] == 'exc':
            raise Violation('request_failed', 'request %r raised %r; %s' % (REQS[i][0], got[1], ctx))
        if got != exp:
            raise Violation('response_differs', 'request %r got %r, alone it gets %r; %s' % (REQS[i][0], got[1], exp[1], ctx))
        _own_values_only(got[1][2], REQS[i][1], 'request %r' % (REQS[i][0],), ctx)
    mid = any(w not in ('end',) for (_f, _t, _p, w) in sched.switch_log)
    return Info(mid, ['threads:%d' % len(reqs), 'switches:%d' % min(sched.switches, 8)] + (['switch_between_phases'] if mid else []))


class SteadyEnum(Suite):
    """Steady state, threads: ALL interleavings of 2 requests (about 12 yield points each: middleware request / resource /
    response phases, responder, media handler) with <= 2 pre-emptions, and a grid with 3 threads."""

    name = 'steady_enum'
    exhaustive = True
    budget = {'quick': 1, 'thorough': 1}
    case_timeout = 120

    def cases(self, tier):
        pairs = [(0, 1), (2, 5), (3, 6), (8, 9)] if tier == 'quick' else [(8, 9), (9, 8), (8, 0)] + list(itertools.permutations(range(len(REQS)), 2))[:20]
        for a, b in pairs:
            for dep in (False, True):
                for k1 in range(0, 16):
                    yield {'reqs': [a, b], 'plan': [[0, k1]], 'dependent': dep}
                    for k2 in range(1, 16):
                        yield {'reqs': [a, b], 'plan': [[0, k1], [1, k2]], 'dependent': dep}
        for k1 in range(1, 14, 2):
            for k2 in range(1, 14, 2):
                for k3 in range(1, 14, 3):
                    yield {'reqs': [0, 1, 2], 'plan': [[0, k1], [1, k2], [2, k3], [0, 2], [1, 2]]}

    def run(self, case):
        return run_steady(case)


# ------------------------------------------------------------------ (b2) line-level pre-emption inside the WSGI app itself

APP_PY = os.path.join(boot.REPO, 'falcon', 'app.py')
URI_FILES = tuple(os.path.join(boot.REPO, 'falcon', *p) for p in (('util', 'uri.py'), ('util', 'misc.py'), ('request_helpers.py',),
                                                                  ('util', 'mediatypes.py'), ('media', 'handlers.py')))
SINK_REQS = [('/sink/alpha/x', 's0'), ('/sink/beta/y', 's1'), ('/plain/here', 's2'), ('/nothing/here', 's3'), ('/items/7', 's4'),
             ('/items/8', 's5'), ('/u/12345678123456781234567812345678', 's6')]
# query strings with >= 8 percent-escapes each (the decoder's long path), distinct per request
_ESC_Q = {5: 'q=%61%6C%70%68%61%2D%41%41%41%41%41&w=%C3%A9%C3%A9%C3%A9%C3%A9', 6: 'q=%62%72%61%76%6F%2D%42%42%42%42%42&w=%E2%82%AC%E2%82%AC%E2%82%AC'}


class QEcho(Echo):
    def on_post(self, req, resp, **kw):
        Echo.on_post(self, req, resp, **kw)
        resp.media = dict(resp.media, w=req.get_param('w'), accepts_json=req.client_accepts_json)


def _named_sink(req, resp, **kw):
    resp.media = {'who': 'named_sink', 'params': {k: str(v) for k, v in sorted(kw.items())}, 'hdr': req.get_header('X-Token')}


def _plain_sink(req, resp, **kw):
    resp.media = {'who': 'plain_sink', 'params': {k: str(v) for k, v in sorted(kw.items())}, 'hdr': req.get_header('X-Token')}


def build_sink_app():
    app = falcon.App(middleware=[TokenMw('a')])
    for t, who in ROUTES:
        app.add_route(t, QEcho(who))
    app.add_sink(_named_sink, r'/sink/(?P<sid>\w+)/(?P<rest>\w+)')
    app.add_sink(_plain_sink, '/plain')
    return app


def sink_request(app, i):
    path, tok = SINK_REQS[i]
    env = wsgi_driver.build_environ('POST', path, query=_ESC_Q.get(i, 'q=' + tok),
                                    headers=[('X-Token', tok), ('Content-Length', str(len(tok))), ('Accept', 'application/json, text/*;q=0.%d' % (i + 1))],
                                    body=tok.encode())
    r = wsgi_driver.call(app, env)
    if r.error is not None:
        return ('error', type(r.error).__name__, str(r.error)[:200])
    return (r.status, sorted(r.headers), r.body)


_SINK_SERIAL = {}


def run_app_lines(case):
    reqs = case['reqs']
    app = build_sink_app()
    sink_request(app, 4)  # warm up
    for i in reqs:
        if i not in _SINK_SERIAL:
            a2 = build_sink_app()
            sink_request(a2, 4)
            _SINK_SERIAL[i] = ('ok', sink_request(a2, i))
    fns = [lambda i=i: sink_request(app, i) for i in reqs]
    sched = Scheduler(fns, case['plan'], trace_prefixes=URI_FILES if case.get('files') == 'helpers' else (APP_PY,))
    results = sched.run()
    ctx = 'requests=%r plan=%r switches=%r' % ([SINK_REQS[i][0] for i in reqs], case['plan'], sched.switch_log[:8])
    for k, i in enumerate(reqs):
        got, exp = results[k], _SINK_SERIAL[i]
        if got[0] == 'exc':
            raise Violation('request_failed', 'request %r raised %r; %s' % (SINK_REQS[i][0], got[1], ctx))
        if got != exp:
            raise Violation('response_differs', 'request %r got %r, alone it gets %r; %s' % (SINK_REQS[i][0], got[1], exp[1], ctx))
    mid = any(w != 'end' for (_f, _t, _p, w) in sched.switch_log)
    return Info(mid, ['threads:%d' % len(reqs)] + (['preempted_inside_app_py'] if mid else []))


class AppLines(Suite):
    """Warmed-up WSGI app with routes, a sink with named groups, a plain sink and unrouted paths; every line event inside
    falcon/app.py (request set-up, routing, sink / responder dispatch, error handling, response phase) is a yield point:
    ALL single pre-emptions of the first request (k = 0..99) for several request pairs, and a grid of double pre-emptions."""

    name = 'app_lines'
    exhaustive = True
    budget = {'quick': 1, 'thorough': 1}
    case_timeout = 120

    def cases(self, tier):
        pairs = [(0, 1), (0, 2), (3, 0)] if tier == 'quick' else [(a, b) for a in range(5) for b in range(5) if a != b]
        for a, b in pairs:
            for k in range(0, 100):  # a request executes 60-90 line events inside app.py
                yield {'reqs': [a, b], 'plan': [[0, k]]}
        for k1 in range(0, 100, 5 if tier == 'quick' else 2):
            for k2 in range(1, 100, 5 if tier == 'quick' else 2):
                yield {'reqs': [0, 1], 'plan': [[0, k1], [1, k2]]}
        # the same with the yield points inside the shared helper modules (URI decoding of escape-heavy query strings,
        # header / media-type helpers, handler resolution): two requests with >= 8 escapes each
        for a, b in ((5, 6), (6, 5)):
            for k in range(0, 160):
                yield {'reqs': [a, b], 'plan': [[0, k]], 'files': 'helpers'}

    def run(self, case):
        return run_app_lines(case)


# ------------------------------------------------------------------ (b4) error rendering

ERR_FILES = tuple(os.path.join(boot.REPO, 'falcon', *p) for p in (('app_helpers.py',), ('errors.py',), ('http_error.py',), ('response.py',)))
ERR_REQS = [('/nothing/a', 'e0', 'application/xml'), ('/nothing/b', 'e1', 'text/xml;q=0.9, application/json;q=0.1'), ('/items/notanint', 'e2', 'application/json'),
            ('/nothing/c', 'e3', 'application/xml, */*;q=0.1')]


def err_request(app, i):
    path, tok, accept = ERR_REQS[i]
    env = wsgi_driver.build_environ('GET', path, query='q=' + tok, headers=[('X-Token', tok), ('Accept', accept)])
    r = wsgi_driver.call(app, env)
    if r.error is not None:
        return ('error', type(r.error).__name__, str(r.error)[:200])
    return (r.status, sorted(r.headers), r.body)


_ERR_SERIAL = {}
_ERR_POINTS = {}


def run_error_lines(case):
    reqs = case['reqs']
    for i in reqs:
        if i not in _ERR_SERIAL:
            a2 = build_sink_app()
            sink_request(a2, 4)
            _ERR_SERIAL[i] = ('ok', err_request(a2, i))
    app = build_sink_app()
    sink_request(app, 4)  # warm up
    fns = [lambda i=i: err_request(app, i) for i in reqs]
    sched = Scheduler(fns, case['plan'], trace_prefixes=ERR_FILES[:1] if case.get('files') == 'serializer' else ERR_FILES)
    results = sched.run()
    ctx = 'requests=%r plan=%r switches=%r' % ([ERR_REQS[i][:1] + ERR_REQS[i][2:] for i in reqs], case['plan'], sched.switch_log[:8])
    for k, i in enumerate(reqs):
        got, exp = results[k], _ERR_SERIAL[i]
        if got[0] == 'exc':
            raise Violation('request_failed', 'request %r raised %r; %s' % (ERR_REQS[i][0], got[1], ctx))
        if got != exp:
            raise Violation('response_differs', 'request %r got %r, alone it gets %r; %s' % (ERR_REQS[i][0], got[1], exp[1], ctx))
    mid = any(w != 'end' for (_f, _t, _p, w) in sched.switch_log)
    return Info(mid, ['threads:%d' % len(reqs)] + (['preempted_inside_error_rendering'] if mid else []))


class ErrorLines(Suite):
    """Two requests that both end in an HTTP error (404 / a refused converter) rendered as XML or JSON by the default error
    serializer race on a warmed-up app: every line event inside app_helpers.py, errors.py, http_error.py and response.py
    is a yield point; ALL single pre-emptions of the first request and a grid of double pre-emptions.  Each request must
    get the error response it gets alone.  (Never thinned out in the environment matrix: error rendering is where the
    process-wide warnings machinery and the serializer's lazily initialised tables are touched.)"""

    name = 'error_lines'
    exhaustive = True
    budget = {'quick': 1, 'thorough': 1}
    case_timeout = 120

    def cases(self, tier):
        if 'n' not in _ERR_POINTS:
            app = build_sink_app()
            sink_request(app, 4)
            sched = Scheduler([lambda: err_request(app, 0)], [[0, 10 ** 6]], trace_prefixes=ERR_FILES)
            sched.run()
            _ERR_POINTS['n'] = sched.points[0]
        n = _ERR_POINTS['n']
        pairs = [(0, 1), (1, 0), (0, 3)] if tier == 'quick' else [(a, b) for a in range(4) for b in range(4) if a != b]
        for a, b in pairs:
            for k in range(0, n + 2):
                yield {'reqs': [a, b], 'plan': [[0, k]], 'env_case': True}
        step = max(1, n // (8 if tier == 'quick' else 30))
        for k1 in range(0, n, step):
            for k2 in range(1, n, step):
                yield {'reqs': [0, 1], 'plan': [[0, k1], [1, k2]], 'env_case': True}
        # the COMPLETE double pre-emption grid with the yield points inside app_helpers.py only (the default error
        # serializer: negotiation and rendering): A is stopped at k1, B at k2, A finishes, B finishes
        if 'h' not in _ERR_POINTS:
            app = build_sink_app()
            sink_request(app, 4)
            sched = Scheduler([lambda: err_request(app, 0)], [[0, 10 ** 6]], trace_prefixes=ERR_FILES[:1])
            sched.run()
            _ERR_POINTS['h'] = sched.points[0]
        h = _ERR_POINTS['h']
        for a, b in ([(0, 3)] if tier == 'quick' else [(0, 3), (0, 1), (3, 0)]):
            for k1 in range(0, h + 1):
                for k2 in range(0, h + 1):
                    yield {'reqs': [a, b], 'plan': [[0, k1], [1, k2]], 'files': 'serializer', 'env_case': True}

    def run(self, case):
        return run_error_lines(case)



# ------------------------------------------------------------------ (b3) bounded caches at capacity


class MediaEcho(object):
    def on_post(self, req, resp):
        doc = req.get_media()
        resp.media = {'who': 'media', 'doc': doc, 'hdr': req.get_header('X-Token'), 'accepts_xml': req.client_accepts_xml,
                      'prefers': req.client_prefers(['text/plain', 'application/json', 'application/xml'])}
        resp.content_type = 'application/json; token=' + (req.get_header('X-Token') or '')


CACHE_FILES = tuple(os.path.join(boot.REPO, 'falcon', *p) for p in (('util', 'misc.py'), ('util', 'mediatypes.py'), ('media', 'handlers.py'),
                                                                    ('media', 'json.py'), ('request.py',), ('response.py',)))  # the first four: 'helpers'


def build_media_app(warm):
    """An app whose bounded memo tables (media handler resolution, parsed media types / ranges, status lines) have already
    seen `warm` DISTINCT keys each: versioned Content-Types, Accept headers and status codes that earlier clients sent."""
    app = falcon.App()
    app.add_route('/media', MediaEcho())
    for n in range(warm):
        media_request(app, 'w%d' % n)
    return app


def media_request(app, tok):
    body = json.dumps({'token': tok}).encode()
    env = wsgi_driver.build_environ('POST', '/media', headers=[('X-Token', tok), ('Content-Length', str(len(body))),
                                                              ('Content-Type', 'application/json; v=%s' % tok),
                                                              ('Accept', 'application/json;q=0.9, application/xml;q=0.%d, text/%s' % (1 + len(tok) % 8, tok))],
                                    body=body)
    r = wsgi_driver.call(app, env)
    if r.error is not None:
        return ('error', type(r.error).__name__, str(r.error)[:200])
    return (r.status, sorted(r.headers), r.body)


_MEDIA_SERIAL = {}
_MEDIA_POINTS = {}


def _media_points(all_files):
    """Line events one undisturbed request with a new media type executes inside the traced modules (measured once)."""
    if all_files not in _MEDIA_POINTS:
        app = build_media_app(2)
        sched = Scheduler([lambda: media_request(app, 'race-a')], [[0, 10 ** 6]], trace_prefixes=CACHE_FILES if all_files else CACHE_FILES[:4])
        sched.run()
        _MEDIA_POINTS[all_files] = sched.points[0]
    return _MEDIA_POINTS[all_files]


def run_warm_caches(case):
    warm = case['warm']
    toks = ['race-a', 'race-b', 'race-c'][:case.get('threads', 2)]
    for tok in toks:
        if (warm, tok) not in _MEDIA_SERIAL:
            _MEDIA_SERIAL[(warm, tok)] = ('ok', media_request(build_media_app(warm), tok))
    app = build_media_app(warm)
    fns = [lambda tok=tok: media_request(app, tok) for tok in toks]
    sched = Scheduler(fns, case['plan'], trace_prefixes=CACHE_FILES if case.get('files') == 'all' else CACHE_FILES[:4])
    results = sched.run()
    ctx = 'distinct media types seen before=%d plan=%r switches=%r' % (warm, case['plan'], sched.switch_log[:8])
    for k, tok in enumerate(toks):
        got, exp = results[k], _MEDIA_SERIAL[(warm, tok)]
        if got[0] == 'exc':
            raise Violation('request_failed', 'request %r raised %r; %s' % (tok, got[1], ctx))
        if got != exp:
            raise Violation('response_differs', 'request %r got %r, alone it gets %r; %s' % (tok, got[1], exp[1], ctx))
        _own_values_only(got[1][2], tok, 'request %r' % (tok,), ctx)
    mid = any(w != 'end' for (_f, _t, _p, w) in sched.switch_log)
    return Info(mid, ['warm:%s' % ('0' if not warm else '<64' if warm < 64 else '64-127' if warm < 128 else '>=128'), 'threads:%d' % len(toks)]
                + (['preempted_inside_media_helpers'] if mid else []))


class WarmCaches(Suite):
    """Two or three requests with NEW media types race on an app whose bounded memo tables are at or around capacity (0, 62-66,
    126-130 and 300 distinct Content-Types / Accept headers seen before): every line event inside the media handler
    resolution, the media type helpers, status helpers and the request / response modules is a yield point; ALL single
    pre-emptions of the first request and a grid of double pre-emptions.  Each request must get what it gets alone."""

    name = 'warm_caches'
    exhaustive = True
    budget = {'quick': 1, 'thorough': 1}
    case_timeout = 120

    def cases(self, tier):
        warms = (0, 31, 32, 63, 64, 65, 128, 300) if tier == 'quick' else (0, 1, 30, 31, 32, 33, 62, 63, 64, 65, 66, 126, 127, 128, 129, 130, 300)
        n_helpers, n_all = _media_points(False), _media_points(True)
        for warm in warms:
            # EVERY line event of the first request inside the helper modules (handlers, mediatypes, misc, json) ...
            for k in range(0, n_helpers + 2):
                yield {'warm': warm, 'plan': [[0, k]]}
            # ... and inside all six modules (request.py / response.py too), on a stride in the quick tier
            for k in range(0, n_all + 2, 5 if tier == 'quick' else 1):
                yield {'warm': warm, 'plan': [[0, k]], 'files': 'all'}
            for k1 in range(0, n_helpers, n_helpers // 5 if tier == 'quick' else 13):
                for k2 in range(1, n_helpers, n_helpers // 5 if tier == 'quick' else 13):
                    yield {'warm': warm, 'plan': [[0, k1], [1, k2]]}
                    yield {'warm': warm, 'plan': [[0, k1], [1, k2], [2, k1 + 3]], 'threads': 3}

    def run(self, case):
        return run_warm_caches(case)



# ------------------------------------------------------------------ (c) ASGI tasks on a stepped loop


class Turns(object):
    """Each scheduling point blocks its task until the interleaving word gives it the turn."""

    def __init__(self, n):
        self.waiting = [None] * n
        self.points = [0] * n

    async def point(self, t):
        self.points[t] += 1
        fut = asyncio.get_running_loop().create_future()
        self.waiting[t] = fut
        try:
            await fut
        finally:
            self.waiting[t] = None

    def release(self, t):
        f = self.waiting[t]
        if f is not None and not f.done():
            f.set_result(None)
            return True
        return False


_TURNS = {'t': None}
_TASK_ID = {}


async def AY(req):
    turns = _TURNS['t']
    if turns is not None:
        await turns.point(req.scope['vf.task'])


class AMw(object):
    async def process_request(self, req, resp):
        await AY(req)
        req.context.token = req.get_header('X-Token')

    async def process_resource(self, req, resp, resource, params):
        await AY(req)
        if req.context.token != req.get_header('X-Token'):
            resp.set_header('X-Context-Corrupted', '1')
        params['mw_' + self.tag] = req.get_header('X-Token')
        req.params.setdefault('tenant', req.get_header('X-Token'))
        await AY(req)

    def __init__(self, tag):
        self.tag = tag

    async def process_response(self, req, resp, resource, req_succeeded):
        await AY(req)
        resp.set_header('X-Ctx', str(getattr(req.context, 'token', None)))
        resp.append_header('X-Trace', '%s:%s' % (self.tag, req_succeeded))


class ARejectMw(object):
    """Rejects one particular request in process_request (so that in dependent mode the components
    stacked after it must not see process_response for that request)."""

    async def process_request(self, req, resp):
        await AY(req)
        if req.get_header('X-Token') == 't7':
            raise falcon.HTTPForbidden(title='no', description='t7')

    async def process_response(self, req, resp, resource, req_succeeded):
        await AY(req)
        resp.append_header('X-Trace', 'reject:%s' % (req_succeeded,))


class SyncOnlyHandler(falcon.media.BaseHandler):
    """A custom media handler that implements only the synchronous methods (documented as sufficient: the
    framework adapts it for ASGI)."""

    def deserialize(self, stream, content_type, content_length):
        return {'vf': stream.read().decode()}

    def serialize(self, media, content_type):
        return json.dumps(media).encode()


class AEcho(object):
    def __init__(self, who):
        self.who = who

    async def on_post(self, req, resp, **kw):
        await AY(req)
        if req.content_type == 'application/x-vf':
            media = await req.get_media()
            body = media['vf'].encode()
        else:
            body = await req.stream.read()
            media = None
        await AY(req)
        if media is None and req.get_param('m'):
            req2 = json.loads(body.decode())
            media = req2
        resp.media = {'who': self.who, 'params': {k: str(v) for k, v in sorted(kw.items())}, 'hdr': req.get_header('X-Token'),
                      'body': body.decode(), 'q': req.get_param('q'), 'ctx': getattr(req.context, 'token', None), 'media': media,
                      'tenant': req.get_param('tenant'), 'hdr_twin': req.get_header('X_Token'), 'hdr_own': req.get_header('x-token')}
        if req.get_param('q') == 't5':
            raise falcon.HTTPConflict(title='conflict', description=req.get_header('X-Token'))


_ASGI_APP = {}


def get_asgi_app(dependent=False):
    app = _ASGI_APP.get(dependent)
    if app is None:
        app = falcon.asgi.App(middleware=[AMw('a'), ARejectMw(), AMw('b')], independent_middleware=not dependent)
        for t, who in ROUTES:
            app.add_route(t, AEcho(who))
        app.req_options.media_handlers['application/x-vf'] = SyncOnlyHandler()
        _ASGI_APP[dependent] = app
    return app


def asgi_one(app, i, t, turns, chunks):
    path, tok = REQS[i]
    body = json.dumps({'tok': tok, 'pad': 'x' * 7}).encode()
    # every other request goes through the custom sync-only media handler
    ctype = 'application/x-vf' if i % 2 else 'application/json'
    scope = asgi_driver.build_scope('POST', path, query='' if path.startswith('/plain') else 'q=%s&m=1' % tok,
                                    headers=[('X-Token', tok), ('Content-Length', str(len(body))), ('Content-Type', ctype)],
                                    extra={'vf.task': t})
    events = asgi_driver.body_events(body, chunks)
    sent = []
    idx = {'i': 0}

    async def receive():
        if turns is not None:
            await turns.point(t)
        k = idx['i']
        if k < len(events):
            idx['i'] = k + 1
            return dict(events[k])
        return {'type': 'http.disconnect'}

    async def send(ev):
        if turns is not None:
            await turns.point(t)
        asgi_driver.check_event(sent, ev)
        sent.append(ev)

    async def go():
        await app(scope, receive, send)
        start = [e for e in sent if e['type'] == 'http.response.start']
        body_out = b''.join(e.get('body', b'') for e in sent if e['type'] == 'http.response.body')
        return (start[0]['status'] if start else None, sorted(start[0].get('headers', [])) if start else None, body_out)

    return go


_ASGI_SERIAL = {}


def run_asgi_tasks(case):
    reqs = case['reqs']
    word = case['word']
    chunks = case['chunks']
    dep = bool(case.get('dependent'))
    app = get_asgi_app(dep)

    async def serial(i):
        return await asgi_one(app, i, 0, None, chunks)()

    for i in reqs:
        key = (i, tuple(chunks), dep)
        if key not in _ASGI_SERIAL:
            _TURNS['t'] = None
            _ASGI_SERIAL[key] = asgi_driver.run(serial(i))

    turns = Turns(len(reqs))
    switches = {'n': 0, 'mid': False}

    async def main():
        _TURNS['t'] = turns
        try:
            tasks = [asyncio.ensure_future(asgi_one(app, i, t, turns, chunks)()) for t, i in enumerate(reqs)]
            for _ in range(5):
                await asyncio.sleep(0)
            last = None
            for t in word:
                t = t % len(reqs)
                if turns.release(t):
                    if last is not None and last != t and not all(x.done() for x in tasks):
                        switches['n'] += 1
                        switches['mid'] = True
                    last = t
                for _ in range(12):
                    await asyncio.sleep(0)
            # finish: round-robin until everything is done
            for _ in range(400):
                if all(x.done() for x in tasks):
                    break
                for t in range(len(reqs)):
                    turns.release(t)
                    for _ in range(6):
                        await asyncio.sleep(0)
            if not all(x.done() for x in tasks):
                for x in tasks:
                    x.cancel()
                raise Violation('asgi_task_stuck', 'requests %r word %r: tasks did not finish' % (reqs, word))
            return [(x.exception(), None if x.exception() else x.result()) for x in tasks]
        finally:
            _TURNS['t'] = None

    results = asgi_driver.run(main())
    ctx = 'requests=%r word=%r chunks=%r' % ([REQS[i][0] for i in reqs], word, chunks)
    for k, i in enumerate(reqs):
        exc, got = results[k]
        if exc is not None:
            if isinstance(exc, Violation):
                raise exc
            raise Violation('request_failed', 'ASGI request %r raised %r; %s' % (REQS[i][0], exc, ctx))
        exp = _ASGI_SERIAL[(i, tuple(chunks), dep)]
        if got != exp:
            raise Violation('response_differs', 'ASGI request %r got %r, alone it gets %r; %s' % (REQS[i][0], got, exp, ctx))
        _own_values_only(got[2], REQS[i][1], 'ASGI request %r' % (REQS[i][0],), ctx)
    return Info(switches['mid'], ['tasks:%d' % len(reqs), 'switches:%d' % min(switches['n'], 10)] + (['interleaved'] if switches['mid'] else []))


class AsgiEnum(Suite):
    """ASGI tasks: ALL interleaving words of length <= 7 (quick) / <= 9 (thorough) over 2 tasks, and a slice for 3 tasks; every
    receive (chunked body), send and middleware / responder await is a scheduling point; the rest runs round-robin."""

    name = 'asgi_enum'
    exhaustive = True
    budget = {'quick': 1, 'thorough': 1}
    case_timeout = 120

    def cases(self, tier):
        n = 7 if tier == 'quick' else 9
        for pair, dep in (([0, 1], False), ([2, 5], False), ([0, 7], True), ([7, 3], True), ([1, 3], False), ([8, 9], False), ([9, 8], True)):
            for L in range(1, n + 1):
                for w in itertools.product((0, 1), repeat=L):
                    yield {'reqs': pair, 'word': list(w), 'chunks': [5], 'dependent': dep}
        for L in range(1, (5 if tier == 'quick' else 7)):
            for w in itertools.product((0, 1, 2), repeat=L):
                yield {'reqs': [0, 1, 3], 'word': list(w), 'chunks': [4, 9]}

    def run(self, case):
        return run_asgi_tasks(case)


class AsgiRandom(Suite):
    """ASGI tasks: random words of <= 40 turns over 2-3 tasks with random body chunkings."""

    name = 'asgi_random'
    budget = {'quick': 1500, 'thorough': 60000}
    case_timeout = 120

    def strategy(self, tier):
        return st.builds(lambda reqs, word, chunks, dep: {'reqs': reqs, 'word': word, 'chunks': chunks, 'dependent': dep},
                         st.lists(st.integers(0, len(REQS) - 1), min_size=2, max_size=3, unique=True),
                         st.lists(st.integers(0, 2), min_size=1, max_size=40),
                         st.lists(st.integers(1, 12), min_size=1, max_size=3), st.booleans())

    def run(self, case):
        return run_asgi_tasks(case)


SUITES = [RaceSinglePreemption(), RaceDoublePreemption(), RacePublication(), RaceLateEntrant(), RaceCompileError(), FreshProcess(), RaceRandom(), SteadyEnum(), AppLines(), ErrorLines(), WarmCaches(), AsgiEnum(), AsgiRandom()]
KNOWN = {}
