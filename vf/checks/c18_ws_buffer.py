"""C18 — WebSocket receive buffering is FIFO, bounded and lossless under every schedule."""
import asyncio
import itertools

from hypothesis import strategies as st

import falcon
import falcon.asgi

from vf.core import HarnessError, Info, Suite, Violation
from vf.drivers import asgi as asgi_driver
from vf.sched.wsharness import Script, ServerSide, drain

LEVEL = 'exploration'
RULE = (
    'a case = queue capacity (0 = unbuffered, 1-4), k client messages then an optional disconnect, an application '
    'script over recv / send / close / recv-with-cancellation, and a schedule word over D (server hands the next '
    'event over) and A (application performs its next step), the loop being drained after each letter; '
    'non-trivial = the word delivers >= 2 events before the first application step, or a delivery happens between '
    'two application steps while the framework already holds >= capacity messages, or a pending receive is cancelled; '
    'distinct = distinct case fingerprint'
)
ASSUMPTIONS = [
    'interleavings are at await granularity of the single-threaded event loop; ready callbacks run in asyncio FIFO order',
    'the reader task holds one event beyond the configured queue size (the one that tells it the queue is full): bound is capacity + 1',
    'server variants: send() after the client left either raises OSError or is dropped silently (enumeration uses the silent variant so that the framework itself must tell the sender)',
    'liveness only as "nothing satisfiable is left waiting after the loop has been drained"',
]

PATH = '/ws'


class _Resource(object):
    async def on_websocket(self, req, ws):
        script = req.scope['vf.script']
        await ws.accept()
        await script.run(ws)


_BLANKS = [' ', '\n', '', '\u2028', '\t\t', '\r\n', '\xa0', 'm7']
_APPS = {}
_WARMUP_CAPACITY = 7


def get_app(capacity):
    """ONE long-lived app serves every connection; ws_options.max_receive_queue is set before each connection (options
    are documented as adjustable on the app object).  When the app is created it first serves a warm-up connection
    with a capacity no case uses, so that every case's connection is a LATER connection of the app."""
    app = _APPS.get('app')
    if app is None:
        app = falcon.asgi.App()
        app.add_route(PATH, _Resource())
        _APPS['app'] = app
        run_case({'capacity': _WARMUP_CAPACITY, 'k': 1, 'disconnect': 1000, 'script': [['recv'], ['recv']], 'word': 'DADA'})
    app.ws_options.max_receive_queue = capacity
    return app


async def perform(ws, op, script):
    k = op[0]
    try:
        if k == 'recv':
            return ('ok', await ws.receive_text())
        if k == 'send':
            script.send_started_after_disc = any(e['type'] == 'websocket.disconnect' for e in script.server.pulled)
            await ws.send_text('s')
            if script.send_started_after_disc:
                return ('ok_after_disconnect', None)
            return ('ok', None)
        if k == 'close':
            await ws.close()
            return ('ok', None)
        if k == 'recv_cancel':
            t = asyncio.ensure_future(ws.receive_text())
            await drain(op[1])
            if not t.done():
                t.cancel()
            try:
                return ('ok', await t)
            except asyncio.CancelledError:
                return ('cancelled', None)
        if k == 'recv_deliver_cancel':
            # a receive is pending, THEN the next client event reaches the server, and the application gives up waiting
            # j event-loop turns later (a wait_for timeout racing the arrival): whatever arrived must not be lost
            t = asyncio.ensure_future(ws.receive_text())
            await drain(2)
            script.server.deliver_next()
            for _ in range(op[1]):
                await asyncio.sleep(0)
            if not t.done():
                t.cancel()
            try:
                return ('ok', await t)
            except asyncio.CancelledError:
                return ('cancelled', None)
    except falcon.WebSocketDisconnected:
        return ('exc', 'WebSocketDisconnected')
    except Exception as e:  # noqa
        return ('exc', type(e).__name__ + ': ' + str(e)[:80])
    raise AssertionError(op)


def run_case(case):
    cap = case['capacity']
    # payloads: ordinary texts, or (texts='blank') texts made of white space / line separators / nothing: a payload is
    # a payload, none of them may be dropped, merged or reordered
    if case.get('texts') == 'blank':
        msgs = [_BLANKS[i % len(_BLANKS)] for i in range(case['k'])]
    else:
        msgs = ['m%d' % i for i in range(case['k'])]
    events = [{'type': 'websocket.receive', 'text': m} for m in msgs]
    if case['disconnect'] == 'bare':
        events.append({'type': 'websocket.disconnect'})  # the close code is optional in the ASGI spec
    elif case['disconnect'] is not None:
        events.append({'type': 'websocket.disconnect', 'code': case['disconnect']})
    ops = case['script']
    word = case['word']
    app = get_app(cap)
    server = ServerSide(events, raise_after_disconnect=bool(case.get('server_raises', False)))
    script = Script(ops, perform)
    script.server = server
    scope = asgi_driver.build_scope('GET', PATH, type_='websocket', spec_version='2.3',
                                    extra={'vf.script': script, 'subprotocols': []})
    del scope['method']
    ctx = lambda: 'capacity=%d messages=%d disconnect=%r script=%r word=%r outcomes=%r' % (  # noqa: E731
        cap, len(msgs), case['disconnect'], ops, word, script.outcomes)
    notes = {'held_max': 0, 'deliver_while_full': False, 'cancelled': False}

    def counts():
        pulled_msgs = sum(1 for e in server.pulled if e['type'] == 'websocket.receive')
        returned = sum(1 for o in script.outcomes if o[0] == 'ok' and isinstance(o[1], str))
        return pulled_msgs, returned

    def check(after):
        pulled_msgs, returned = counts()
        held = pulled_msgs - returned
        notes['held_max'] = max(notes['held_max'], held)
        disc_pulled = any(e['type'] == 'websocket.disconnect' for e in server.pulled)
        if cap > 0:
            if held > cap + 1:
                raise Violation('buffer_unbounded', 'after %r the framework holds %d messages with max_receive_queue=%d; %s'
                                % (after, held, cap, ctx()))
            if held >= cap + 1 and server.outstanding:
                raise Violation('pulling_while_full', 'after %r the framework holds %d messages (max_receive_queue=%d) and still awaits receive(); %s'
                                % (after, held, cap, ctx()))
        else:
            if held > 0 and not script.in_step:
                raise Violation('unbuffered_mode_holds_messages', 'after %r max_receive_queue=0 but %d messages were pulled and not returned; %s'
                                % (after, held, ctx()))
        # a receive that can be satisfied is never left waiting
        if script.in_step and script.at < len(ops) and ops[script.at][0] == 'recv':
            if held > 0 or disc_pulled or server.inbox:
                raise Violation('lost_wakeup', 'after %r the application is blocked in receive_text() although %d message(s) are held, '
                                'disconnect pulled=%s, %d event(s) wait at the server; %s' % (after, held, disc_pulled, len(server.inbox), ctx()))

    async def main():
        me = asyncio.current_task()
        task = asyncio.ensure_future(app(scope, server.receive, server.send))
        await drain()
        check('accept')
        step = 0
        burst = bool(case.get('burst'))
        for wi, ch in enumerate(word):
            if ch == 'D':
                pm, rt = counts()
                if cap > 0 and pm - rt >= cap:
                    notes['deliver_while_full'] = True
                server.deliver_next()
                if burst and wi + 1 < len(word) and word[wi + 1] == 'D':
                    # burst: the next event reaches the server before the event loop runs again (two frames in one TCP
                    # segment): receive() hands them over back to back, without a suspension in between
                    step += 1
                    notes['burst'] = True
                    continue
            else:
                script.allow()
            await drain()
            step += 1
            check('word[:%d]' % step)
        # flush: let everything remaining happen
        for i in range(len(ops) + len(events) + 2):
            if task.done():
                break
            server.deliver_next()
            if burst and i == 0:
                while server.deliver_next():
                    notes['burst'] = True
            script.allow()
            await drain()
            check('flush %d' % i)
        if not task.done():
            # the application waits for more and the client script is exhausted: the client goes away
            server.client_events.append({'type': 'websocket.disconnect', 'code': 1001})
            server.deliver_next()
            for i in range(len(ops) + 2):
                script.allow()
                await drain()
                if task.done():
                    break
        if not task.done():
            task.cancel()
            try:
                await task
            except BaseException:
                pass
            raise Violation('session_stuck', 'the responder never finished although every event incl. a disconnect was delivered; %s' % ctx())
        if task.exception() is not None:
            raise Violation('app_raised', 'the ASGI app callable raised %r; %s' % (task.exception(), ctx()))
        await drain()
        left = [t for t in asyncio.all_tasks() if t is not me and not t.done()]
        if left:
            for t in left:
                t.cancel()
            await drain()
            raise Violation('task_left_running', 'after the session ended %d task(s) are still pending: %r; %s' % (len(left), left, ctx()))

    asgi_driver.run(main())

    # ---- history invariants over the script outcomes
    got = [o[1] for o in script.outcomes if o[0] == 'ok' and isinstance(o[1], str)]
    if got != msgs[:len(got)]:
        raise Violation('not_fifo_or_lost', 'messages received %r are not a prefix of the messages sent %r; %s' % (got, msgs, ctx()))
    returned = 0
    observed_gone = False  # the application itself saw the disconnect / closed the socket
    for op, out in zip(ops, script.outcomes):
        kind = op[0]
        if out[0] == 'cancelled':
            notes['cancelled'] = True
        if out[0] == 'exc' and out[1] != 'WebSocketDisconnected':
            raise Violation('undocumented_exception', '%r raised %s; %s' % (op, out[1], ctx()))
        if out[0] == 'ok_after_disconnect':
            raise Violation('sender_not_told', 'send_text() succeeded although the framework had already been handed the client disconnect '
                            '(the loop was drained in between); %s' % ctx())
        if kind in ('recv', 'recv_cancel', 'recv_deliver_cancel'):
            if out[0] == 'ok':
                returned += 1
            elif out[0] == 'exc':
                if returned < len(msgs) and not observed_gone:
                    raise Violation('disconnect_before_messages', 'receive raised WebSocketDisconnected after %d of %d messages were returned '
                                    '(no failed send / close before); %s' % (returned, len(msgs), ctx()))
                observed_gone = True
        elif kind == 'send':
            if out[0] == 'exc':
                observed_gone = True
        elif kind == 'close':
            observed_gone = True
    if len(script.outcomes) == len(ops):
        n_recv_ok = sum(1 for op, o in zip(ops, script.outcomes) if op[0] in ('recv', 'recv_cancel', 'recv_deliver_cancel') and o[0] == 'ok')
        n_recv = sum(1 for op, o in zip(ops, script.outcomes) if op[0] == 'recv')
        # every plain receive before the application observed the end must have been satisfied while messages remained
    early = word.find('A')
    early = len(word) if early < 0 else early
    labels = ['cap:%d' % cap, 'k:%d' % min(case['k'], 4)]
    nt = False
    if word[:early].count('D') >= 2:
        labels.append('>=2_deliveries_before_first_step')
        nt = True
    if notes['deliver_while_full']:
        labels.append('delivery_while_full')
        nt = True
    if notes['cancelled']:
        labels.append('receive_cancelled')
    if notes.get('burst'):
        labels.append('burst_delivery')
    if case.get('texts') == 'blank':
        labels.append('blank_payloads')
        nt = True
    if notes['held_max'] == cap + 1 and cap > 0:
        labels.append('held=capacity+1')
    if case['disconnect'] is not None:
        labels.append('client_disconnect')
    return Info(nt, labels)


OPS = [['recv'], ['send'], ['close'], ['recv_cancel', 3], ['recv_deliver_cancel', 0], ['recv_deliver_cancel', 2]]


def words(nd, na):
    for pos in itertools.combinations(range(nd + na), nd):
        w = ['A'] * (nd + na)
        for p in pos:
            w[p] = 'D'
        yield ''.join(w)


class ScheduleEnum(Suite):
    """ALL schedule words (every interleaving of the k(+1) deliveries with the script's steps) for capacities 0,1,2,4,
    k <= 2 messages (k <= 3 thorough) with and without a client disconnect, and ALL application scripts of <= 3 steps
    (<= 4 thorough) over recv / send / close / recv-then-cancel."""

    name = 'schedule_enum'
    exhaustive = True
    budget = {'quick': 1, 'thorough': 1}
    case_timeout = 60

    def cases(self, tier):
        kmax = 2 if tier == 'quick' else 3
        smax = 3 if tier == 'quick' else 4
        for cap in (0, 1, 2, 4):
            for k in range(0, kmax + 1):
                for disc in (None, 1000, 'bare'):
                    nd = k + (1 if disc is not None else 0)
                    for n in range(1, smax + 1):
                        for sc in itertools.product(range(len(OPS)), repeat=n):
                            if n == 4 and any(i >= 4 for i in sc):
                                continue  # 4-step scripts (thorough) over the four basic operations only
                            script = [OPS[i] for i in sc]
                            for w in words(nd, n):
                                yield {'capacity': cap, 'k': k, 'disconnect': disc, 'script': script, 'word': w}
                                if k and n <= 2 and all(o[0] == 'recv' for o in script):
                                    yield {'capacity': cap, 'k': k, 'disconnect': disc, 'script': script, 'word': w, 'texts': 'blank'}
                                if nd >= 2 and ('DD' in w or not w.endswith('D')):
                                    yield {'capacity': cap, 'k': k, 'disconnect': disc, 'script': script, 'word': w, 'burst': True}

    def run(self, case):
        return run_case(case)


_op = st.one_of(st.just(['recv']), st.just(['recv']), st.just(['send']), st.just(['close']),
                st.tuples(st.just('recv_cancel'), st.integers(0, 6)).map(list),
                st.tuples(st.just('recv_deliver_cancel'), st.integers(0, 5)).map(list))


class ScheduleRandom(Suite):
    """Random schedules: capacity 0-4, up to 7 messages, scripts of <= 9 steps with cancellation after 0-6 loop turns,
    random D/A words (possibly incomplete: the flush phase delivers the rest)."""

    name = 'schedule_random'
    budget = {'quick': 5000, 'thorough': 200000}
    case_timeout = 60

    def strategy(self, tier):
        return st.builds(
            lambda cap, k, disc, script, word, sr: {'capacity': cap, 'k': k, 'disconnect': disc, 'script': script, 'word': ''.join(word),
                                                    'server_raises': sr, 'texts': 'blank' if (k + len(script)) % 4 == 0 else None,
                                                    'burst': (k + len(word)) % 3 == 0},
            st.sampled_from([0, 1, 1, 2, 3, 4]), st.integers(0, 7), st.sampled_from([None, 1000, 1001, 4000, 'bare']),
            st.lists(_op, min_size=1, max_size=9), st.lists(st.sampled_from('DA'), max_size=18), st.booleans())

    def run(self, case):
        return run_case(case)


class LargeQueues(Suite):
    """Capacities and bursts beyond the moderate range: max_receive_queue of 8-1000 (around 64, 128, 256, 512) with k = up
    to capacity + 150 client messages, delivered all before the application's first receive, in two halves, or one per
    application step; the application receives every message.  Same invariants: FIFO, lossless, at most capacity + 1
    held, no pulling while full."""

    name = 'large_queues'
    exhaustive = True
    budget = {'quick': 1, 'thorough': 1}
    case_timeout = 120

    def cases(self, tier):
        caps = (8, 63, 64, 65, 127, 128, 129, 255, 256, 257, 300, 511, 512, 513, 1000)
        for cap in (caps if tier != 'quick' else (8, 64, 128, 129, 256, 257, 300, 513)):
            for extra in (0, 1, 150):
                for shape in ('all_first', 'halves', 'alternate'):
                    for disc in (None, 1000):
                        if shape != 'all_first' and (extra == 1 or disc is None):
                            continue
                        yield {'capacity': cap, 'k': cap + extra, 'disconnect': disc, 'shape': shape}

    def run(self, case):
        k = case['k']
        nd = k + (1 if case['disconnect'] is not None else 0)
        if case['shape'] == 'all_first':
            word = 'D' * nd + 'A' * k
        elif case['shape'] == 'halves':
            word = 'D' * (nd // 2) + 'A' * (k // 3) + 'D' * (nd - nd // 2) + 'A' * (k - k // 3)
        else:
            word = 'DA' * k + 'D' * (nd - k)
        full = dict(case, script=[['recv']] * k + ([['recv']] if case['disconnect'] is not None else []), word=word)
        try:
            info = run_case(full)
        except Violation as v:
            d = v.detail
            raise Violation(v.kind, '%s ... %s\n  compact case=%r' % (d[:400], d[-200:], case))
        return Info(True, [lb for lb in info.labels if not lb.startswith(('cap:', 'k:'))] + ['cap:%s' % ('<128' if case['capacity'] < 128 else '<256' if case['capacity'] < 256 else '>=256'), 'shape:' + case['shape']])



SUITES = [ScheduleEnum(), ScheduleRandom(), LargeQueues()]
KNOWN = {}
